"""C12 - every descriptor and thread is released exactly once, also on failure.

(a) protocol: the real Inotify / InotifyBuffer / InotifyEmitter run on the fake descriptor layer
    (harness/fakefd.py) under the deterministic scheduler; close()/stop() is placed at every step of
    the buffer thread's read loop (and interleaved inside it by random / exhaustive schedules).  Every
    lock operation on the instance lock, every kernel call on the three descriptors and every access
    to the stop event is logged; the log is replayed LOCK-STEP by the extracted model
    (Model/CloseProto.v, variant `repaired`) and the descriptor states are compared after every step.
(b) faults: a failure injected at each kernel call of watch construction (inotify_init, pipe, each
    inotify_add_watch of a 3-directory recursive tree) x ENOENT/ENOSPC/EMFILE/EACCES, at emitter and at
    observer level; outcome compared with the extracted Model/Ledger.v.
(c) real kernel, real threads (separate subprocess, no scheduler): /proc/self/fd and threading.enumerate()
    over cycles of schedule/unschedule/start/stop including failing ones (missing path; an
    inotify_add_watch failure injected at every position of a 3-directory tree x 4 errnos; root deleted =
    the emitter's own shutdown; Inotify closed before its first read).
Oracle (the property text): no use of a closed descriptor, no double close; after the buffer thread
finished and close()/stop()+join() returned no descriptor of the watch is open and no library thread is
alive; after a failed schedule()/start() likewise; counts return to their previous values.
"""
from __future__ import annotations

import errno
import json
import os
import shutil
import subprocess
import sys
import tempfile

from harness import core
from harness.core import Atom, Failure, Mismatch, Result, sx

MANIFEST = dict(
    design_ref="DESIGN.md §6 Group R (C12), §5.1, §5.3, §7 F4a/F4b",
    text="Coq theorems C12_proto_safe / C12_proto_no_leak / C12_proto_closed_once (invariant proved by induction over "
         "label lists: every interleaving of close() calls, the kernel and the InotifyBuffer thread's read loop, no bound) "
         "and C12_ledger_failed / C12_ledger / C12_ledger_cycles (resource ledger of watch construction with a fault at any "
         "kernel call, tear-down through the protocol) about executable models of Inotify.__init__/close/read_events, "
         "InotifyBuffer.run/stop and emitter start; the pinned tree is refuted (C12_proto_leak_refuted_pinned, "
         "C12_proto_safe_refuted_pinned, C12_ledger_refuted_pinned).  The models are tied to the source by lock-step replay of "
         "the real code's operation log (fake descriptors, deterministic scheduler) and by fault injection at every kernel "
         "call; the real kernel's /proc/self/fd and thread counts are checked over schedule/unschedule/start/stop cycles.",
    note="Trusted: Coq kernel; the deterministic scheduler's twins of Lock/Event/Thread; the fake descriptor layer. "
         "Assumed: thread creation itself does not fail; poll/read on OPEN descriptors do not fail (EINTR is retried by "
         "CPython); the emitter thread ends after stop() (C06).",
    technique="Coq proof (inductive invariant over an interleaving LTS; sequential ledger) + lock-step correspondence via "
              "extracted OCaml model + fault injection + real-kernel resource counting",
)

TRUSTED = [
    "modelled, not verified: CPython's Lock/Event/Thread semantics (harness/detsched.py twins); the kernel side of "
    "inotify_init/add_watch/rm_watch/pipe/poll/read/write/close (harness/fakefd.py: open -> closed state machine, poll "
    "returns POLLNVAL-like at once for a closed descriptor)",
    "source granularity: one model step = one lock operation / kernel call / stop-event access of one thread; the "
    "flag updates inside a critical section are folded into the next operation (yield points on _closed/_is_reading are "
    "nevertheless scheduled)",
]
ASSUMPTIONS = [
    "threading.Thread.start() does not fail (a failing thread start after a successful Inotify construction is outside the "
    "fault set of the property's quantifier)",
    "poll()/read() on open descriptors do not raise (EINTR is retried inside CPython since PEP 475); only one thread "
    "calls read_events() on an Inotify instance (the InotifyBuffer thread)",
    "the emitter thread terminates after stop() (property C06); join() returning is what 'completed' means",
]

ERRNOS = ["ENOENT", "ENOSPC", "EMFILE", "EACCES"]
KIND2FD = {"inotify": "i", "pipe_r": "r", "pipe_w": "w"}

_installed = False


def setup():
    """Bind watchdog to the scheduler twins and install the yield points (once per process)."""
    global _installed
    from harness import detsched as ds
    ds.install()
    if _installed:
        return
    from watchdog.observers import inotify_c
    # unlocked?-no: lock-protected flags; private names used only to PLACE yield points
    for name in ("_closed", "_is_reading"):
        if not isinstance(inotify_c.Inotify.__dict__.get(name), ds.YieldAttr):
            setattr(inotify_c.Inotify, name, ds.YieldAttr(name))
    import logging
    logging.getLogger("watchdog").setLevel(logging.CRITICAL)
    _installed = True


# --------------------------------------------------------------------------- instrumentation
class Recorder:
    """Operation log of one run: (role, op, args..., snapshot of the three descriptors, #violations)."""

    def __init__(self, sched, kernel):
        self.s = sched
        self.k = kernel
        self.ops: list[tuple] = []
        self.armed = False
        self.root_wd = None

    def role(self):
        from watchdog.observers.inotify_buffer import InotifyBuffer
        t = self.s.me()
        if t is None:
            return "main"
        if isinstance(getattr(t, "obj", None), InotifyBuffer):
            return "R"
        if t.name == "env":
            return "E"
        return "C"

    def snap(self):
        st = {KIND2FD[v["kind"]]: v["open"] for v in self.k.fds.values() if v["kind"] in KIND2FD}
        return [int(st.get("i", False)), int(st.get("r", False)), int(st.get("w", False))]

    def log(self, op, *args, role=None):
        if not self.armed:
            return
        self.ops.append((role or self.role(), op) + tuple(args) + (self.snap(), len(self.k.violations)))

    def yield_(self, what):
        if self.armed:
            self.s.yield_point(what)


class LogLock:
    """Wrapper placed around Inotify._lock: logs acquire/release, adds a yield point after release."""

    def __init__(self, inner, rec: Recorder):
        self.inner = inner
        self.rec = rec

    def acquire(self, *a, **k):
        r = self.inner.acquire(*a, **k)
        self.rec.log("acq")
        return r

    def release(self):
        self.rec.log("rel")
        self.inner.release()
        self.rec.yield_("after release")

    def locked(self):
        return self.inner.locked()

    __enter__ = acquire

    def __exit__(self, *a):
        self.release()


def make_kernel(rec_holder):
    """A FakeKernel whose calls on the three descriptors are yield points and are logged."""
    from harness import fakefd

    class LogKernel(fakefd.FakeKernel):
        def _rec(self):
            return rec_holder.get("rec")

        def _pre(self, what):
            r = self._rec()
            if r is not None:
                r.yield_(what)

        def read(self, fd, n, max_events=None):
            self._pre("read")
            r = self._rec()
            st = self.fds.get(fd)
            mk = dl = 0
            if st is not None and st["kind"] == "inotify" and st["open"]:
                for rec in st["queue"]:
                    import struct
                    wd, mask, _, _ = struct.unpack_from("iIII", rec, 0)
                    if mask & fakefd.IN["CREATE"] and mask & fakefd.IN["ISDIR"]:
                        mk = 1
                    if mask & fakefd.IN["IGNORED"] and r is not None and wd == r.root_wd:
                        dl = 1
            try:
                return super().read(fd, n, max_events)
            finally:
                if r is not None:
                    r.log("read", KIND2FD.get(st["kind"], "?") if st else "?", mk, dl)

        def write(self, fd, data):
            self._pre("write")
            st = self.fds.get(fd)
            try:
                return super().write(fd, data)
            finally:
                r = self._rec()
                if r is not None:
                    r.log("write", KIND2FD.get(st["kind"], "?") if st else "?")

        def close(self, fd):
            self._pre("close")
            st = self.fds.get(fd)
            try:
                return super().close(fd)
            finally:
                r = self._rec()
                if r is not None:
                    r.log("close", KIND2FD.get(st["kind"], "?") if st else "?")

        def inotify_rm_watch(self, fd, wd):
            self._pre("rm_watch")
            rc = super().inotify_rm_watch(fd, wd)
            r = self._rec()
            if r is not None:
                r.log("rm_watch", int(rc == 0))
            return rc

        def inotify_add_watch(self, fd, path, mask):
            self._pre("add_watch")
            rc = super().inotify_add_watch(fd, path, mask)
            r = self._rec()
            if r is not None:
                r.log("add_watch")
            return rc

    class LogPoll(fakefd._Poll):
        def register(self, fd, mask=None):
            if isinstance(fd, int) and fd < 0:      # as select.poll().register does
                raise ValueError(f"file descriptor cannot be a negative integer ({fd})")
            super().register(fd, mask)

        def poll(self, timeout=None):
            r = rec_holder.get("rec")
            if r is not None:
                r.yield_("poll call")
            bad = [fd for fd in self.reg if self.k._use(fd, "poll") is None]
            if bad:
                # the real kernel answers POLLNVAL at once for a closed descriptor
                if r is not None:
                    r.log("poll")
                return [(fd, 0x20) for fd in bad] + [(fd, 1) for fd in self.reg if self.k.readable(fd)]
            self.k.block(lambda: any(self.k.readable(fd) for fd in self.reg)
                         or any(not self.k.fds[fd]["open"] for fd in self.reg), "poll")
            for fd in self.reg:
                self.k._use(fd, "poll (descriptor closed while polled)")
            if r is not None:
                r.log("poll")
            return [(fd, 1) for fd in self.reg if self.k.readable(fd)] + \
                   [(fd, 0x20) for fd in self.reg if not self.k.fds[fd]["open"]]

    return LogKernel(), LogPoll


class Env:
    """Everything one scheduled run needs; undo() restores the patched names."""

    def __init__(self, chooser, max_steps=4000):
        from harness import detsched as ds, fakefd
        from watchdog.observers import inotify_buffer, inotify_c
        self.ds = ds
        self.holder = {}
        self.kernel, poll_cls = make_kernel(self.holder)
        self.sched = ds.Scheduler(chooser, max_steps=max_steps)
        self.rec = Recorder(self.sched, self.kernel)
        self.holder["rec"] = self.rec
        self.kernel.block = lambda pred, what: self.sched.yield_point(what, pred)
        self._undo_fd = fakefd.install(self.kernel)
        inotify_c.select = fakefd._Proxy(__import__("select"), poll=lambda: poll_cls(self.kernel))
        rec = self.rec
        # observation points (private names only used to place them)
        self._orig_init = inotify_c.Inotify.__init__
        orig_init = self._orig_init

        def init(self_, *a, **k):
            orig_init(self_, *a, **k)
            self_._lock = LogLock(self_._lock, rec)
            fd = rec.k.inotify_fd()
            if fd is not None:
                for wd, w in rec.k.fds[fd]["watches"].items():
                    if w["path"] == self_._path:
                        rec.root_wd = wd
            rec.armed = True

        inotify_c.Inotify.__init__ = init
        IB = inotify_buffer.InotifyBuffer
        self._IB = IB
        self._orig_skr = IB.__dict__.get("should_keep_running")
        self._orig_ots = IB.__dict__.get("on_thread_stop")
        base_skr = IB.should_keep_running
        base_ots = IB.on_thread_stop

        def skr(self_):
            v = base_skr(self_)
            if rec.role() == "R":
                rec.log("check", int(v))
            return v

        def ots(self_):
            rec.log("stop", role="C")
            return base_ots(self_)

        IB.should_keep_running = skr
        IB.on_thread_stop = ots

    def undo(self):
        from watchdog.observers import inotify_c
        inotify_c.Inotify.__init__ = self._orig_init
        IB = self._IB
        if self._orig_skr is None:
            del IB.should_keep_running
        else:
            IB.should_keep_running = self._orig_skr
        if self._orig_ots is None:
            del IB.on_thread_stop
        else:
            IB.on_thread_stop = self._orig_ots
        self._undo_fd()


# --------------------------------------------------------------------------- choosers
class PlacedChooser:
    """Let the closing client run only from global step k on, then run it to completion whenever it is
    ready ('close() placed at step k of the read loop'); everything else is chosen at random."""

    def __init__(self, k, seed, closer="closer", by_reader_ops=False):
        import random
        self.k = k
        self.r = random.Random(seed)
        self.closer = closer
        self.by_reader_ops = by_reader_ops
        self.rec = None

    def bind(self, rec):
        self.rec = rec

    def position(self, s):
        if self.by_reader_ops and self.rec is not None:
            return sum(1 for op in self.rec.ops if op[0] == "R")
        return s.steps

    def choose(self, s, ready, can_tick):
        cl = [t for t in ready if t.name == self.closer]
        others = [t for t in ready if t.name != self.closer]
        if self.position(s) >= self.k and cl:
            return cl[0]
        if others:
            if s.current in others and self.r.random() < 0.6:
                return s.current
            return self.r.choice(others)
        return cl[0]


# --------------------------------------------------------------------------- scenarios for part (a)
FEEDS = {
    "plain": lambda f, wd: [f.pack_event(wd, f.IN["MODIFY"], 0, b"probe")],
    "mkdir": lambda f, wd: [f.pack_event(wd, f.IN["CREATE"] | f.IN["ISDIR"], 0, b"newdir")],
    "delself": lambda f, wd: [f.pack_event(wd, f.IN["DELETE_SELF"], 0, b""), f.pack_event(wd, f.IN["IGNORED"], 0, b"")],
}
SCENARIOS = [
    # (name, level, env feeds, closer program)
    ("buf-stop-nofeed", "buffer", [], "close"),
    ("buf-stop-plain", "buffer", ["plain"], "close"),
    ("buf-stop-mkdir", "buffer", ["mkdir"], "close"),
    ("buf-stop-mkdir2", "buffer", ["mkdir", "plain"], "close"),
    ("buf-stop-delself", "buffer", ["delself"], "close"),
    ("buf-stop-twice", "buffer", ["plain"], "close2"),
    ("buf-two-closers", "buffer", ["mkdir"], "two"),
    ("emitter-stop", "emitter", ["plain"], "close"),
    ("emitter-stop-mkdir", "emitter", ["mkdir"], "close"),
    ("emitter-selfstop", "emitter", ["delself"], "close"),
]


def run_proto_once(chooser, scenario, root, max_steps=4000):
    """One scheduled run. Returns dict(sched, ops, kernel, done, ...)."""
    from harness import fakefd
    name, level, feeds, prog = scenario
    env = Env(chooser, max_steps)
    s, k, rec = env.sched, env.kernel, env.rec
    if hasattr(chooser, "bind"):
        chooser.bind(rec)
    info = {"reader": None, "closed_returned": False, "obj": None}
    try:
        def closer():
            if level == "buffer":
                from watchdog.observers.inotify_buffer import InotifyBuffer
                buf = InotifyBuffer(os.fsencode(root), recursive=True)
                info["obj"] = buf
                s.yield_point("closer: built")
                if prog == "two":
                    info["go2"] = True
                buf.close()
                if prog == "close2":
                    buf.close()
                info["closed_returned"] = True
            else:
                from watchdog.observers.api import EventQueue, ObservedWatch
                from watchdog.observers.inotify import InotifyEmitter
                em = InotifyEmitter(EventQueue(), ObservedWatch(root, recursive=True))
                info["obj"] = em
                em.start()
                s.yield_point("closer: started")
                em.stop()
                em.join()
                info["closed_returned"] = True

        def closer2():
            s.yield_point("closer2: wait", lambda: info.get("go2", False))
            info["obj"].stop()

        def envthread():
            for kind in feeds:
                s.yield_point("env: wait for the watch", lambda: rec.armed)
                s.yield_point("env: " + kind)
                fd = k.inotify_fd()
                if fd is None:
                    return
                st = k.fds[fd]
                wd = rec.root_wd
                if kind == "delself":
                    if wd not in st["watches"]:
                        continue            # the kernel already dropped the watch (rm_watch): no second IN_IGNORED
                    w = st["watches"].pop(wd)
                    st["by_key"].pop(w["key"], None)
                k.feed(fd, *FEEDS[kind](fakefd, wd))
                rec.log("K", role="E")

        s.spawn("closer", closer)
        if prog == "two":
            s.spawn("closer2", closer2)
        if feeds:
            s.spawn("env", envthread)
        s.run()
    finally:
        env.undo()
    lib_alive = [t.name for t in s.threads if t.role == "lib" and t.name in s.alive_after]
    reader_done = all(t.done for t in s.threads if t.role == "lib" and t.name.startswith("InotifyBuffer"))
    have_reader = any(t.role == "lib" and t.name.startswith("InotifyBuffer") for t in s.threads)
    return dict(sched=s, ops=rec.ops, kernel=k, info=info, lib_alive=lib_alive,
                reader_done=reader_done and have_reader, have_reader=have_reader)


def to_labels(ops):
    """Map the operation log to model labels; returns (labels, index of the first unmappable op or None)."""
    out = []
    for i, op in enumerate(ops):
        role, what = op[0], op[1]
        a = op[2:-2]
        lab = None
        if role == "R":
            if what == "check":
                lab = Atom("Rcheck")
            elif what == "acq":
                lab = Atom("Racq")
            elif what == "rel":
                lab = Atom("Rrel")
            elif what == "poll":
                lab = Atom("Rpoll")
            elif what == "read" and a[0] == "i":
                lab = [Atom("Rread"), a[1], a[2]]
            elif what == "close" and a[0] in "irw":
                lab = [Atom("Rclose"), Atom(a[0])]
            elif what == "add_watch":
                lab = Atom("Raddwatch")
        elif role == "C":
            if what == "stop":
                lab = Atom("Cstop")
            elif what == "acq":
                lab = Atom("Cacq")
            elif what == "rel":
                lab = Atom("Crel")
            elif what == "rm_watch":
                lab = [Atom("Crm"), a[0]]
            elif what == "write" and a[0] == "w":
                lab = Atom("Cwrite")
            elif what == "close" and a[0] in "irw":
                lab = [Atom("Cclose"), Atom(a[0])]
        elif role == "E" and what == "K":
            lab = Atom("K")
        if lab is None:
            return out, i
        out.append(lab)
    return out, None


def show_ops(ops):
    return [" ".join(str(x) for x in (op[:-2])) + f" fds={''.join(map(str, op[-2]))}" + (" VIOL" if op[-1] else "")
            for op in ops]


def oracle_proto(run):
    """The property on what the real code did. Returns list of (law, observed, expected)."""
    s, k, info = run["sched"], run["kernel"], run["info"]
    bad = []
    if k.violations:
        v = k.violations[0]
        law = "double close" if "double close" in v else "use after close"
        bad.append((law, k.violations[:3], "no descriptor is polled, read, written or closed after it was closed"))
    if info["closed_returned"] and run["reader_done"] and k.open_fds():
        bad.append(("descriptors left open after stop()/close() returned and the buffer thread finished",
                    [f"{fd}:{k.fds[fd]['kind']}" for fd in k.open_fds()], "no open descriptor of the watch"))
    if info["closed_returned"] and run["lib_alive"]:
        bad.append(("library thread alive after stop()+join() returned", run["lib_alive"], "no library thread alive"))
    return bad


def check_lockstep(res: Result, batch):
    """batch: list of (meta, run). Replays all operation logs in one model-runner call."""
    cases, items = [], []
    for meta, run in batch:
        labels, unm = to_labels(run["ops"])
        if unm is not None:
            res.mismatches.append(Mismatch("CloseProto.step (operation not in the model's alphabet)", meta,
                                           "-", show_ops(run["ops"])[max(0, unm - 3): unm + 1]))
            continue
        cases.append(sx([Atom("replay"), Atom("repaired"), 1, labels]))
        items.append((meta, run, labels))
    outs = core.run_model("closeproto", cases) if cases else []
    for (meta, run, labels), o in zip(items, outs):
        res.traces_validated += 1
        ops = run["ops"]
        ok = True
        for i, ob in enumerate(o):
            impl_snap, impl_viol = ops[i][-2], ops[i][-1]
            if ob == "ne":
                res.mismatches.append(Mismatch("CloseProto.step (label not enabled in the model)", meta,
                                               f"step {i}: {sx(labels[i])} not enabled", show_ops(ops)[max(0, i - 4): i + 1]))
                ok = False
                break
            if ob[0] == "bad":
                if not impl_viol:
                    res.mismatches.append(Mismatch("CloseProto Bad vs kernel.violations", meta, ob, show_ops(ops)[max(0, i - 4): i + 1]))
                    ok = False
                break
            model_snap = [int(ob[1]), int(ob[2]), int(ob[3])]
            if model_snap != impl_snap or impl_viol:
                res.mismatches.append(Mismatch("CloseProto descriptor states after step", meta,
                                               f"step {i}: {model_snap}", f"{impl_snap} violations={impl_viol} " + str(show_ops(ops)[max(0, i - 4): i + 1])))
                ok = False
                break
        if ok and o and o[-1] != "ne" and o[-1][0] == "ok" and len(o) == len(ops):
            fin = o[-1]
            m_done = fin[10] == "RDone"
            if run["have_reader"] and m_done != run["reader_done"] and not run.get("uncaught"):
                res.mismatches.append(Mismatch("CloseProto reader_done", meta, fin, f"reader thread finished={run['reader_done']}"))


def interleaved(ops):
    """non-trivial: the closing side's first lock operation falls strictly inside the reader's activity."""
    roles = [op[0] for op in ops]
    if "C" not in roles or "R" not in roles:
        return False
    c_first = next(i for i, op in enumerate(ops) if op[0] == "C" and op[1] == "acq") if any(
        op[0] == "C" and op[1] == "acq" for op in ops) else None
    if c_first is None:
        return False
    r_idx = [i for i, r in enumerate(roles) if r == "R"]
    return r_idx[0] < c_first < r_idx[-1]


def placement(ops):
    """After which step of the buffer thread's loop the first close() took the lock (for the histogram):
    check | sec1-rel (before poll) | poll (before read) | read / poll-pipe (before section 2) | sec2-rel (between
    sections 2 and 3) | sec3-rel (before the next loop test) | returned-closed (section 1 saw _closed)."""
    last_r = "before-first-step"
    sec = 0
    for op in ops:
        if op[0] == "C" and op[1] == "acq":
            return last_r
        if op[0] == "R":
            w = op[1]
            if w == "check":
                sec = 0
                last_r = "check" if op[2] else "check->exit"
            elif w == "acq":
                sec += 1
            elif w == "rel":
                last_r = f"sec{sec}-rel"
            elif w in ("poll", "read", "add_watch"):
                last_r = w
            elif w == "close":
                last_r = "reader-close"
    return "no-close"


def run_proto(ctx, res: Result, root):
    from harness import detsched as ds
    rng = ctx.rng("proto")
    batch = []

    def one(chooser, scen, kind):
        run = run_proto_once(chooser, scen, root)
        s = run["sched"]
        choices = [c for _, c in s.choices]
        meta = {"part": "proto", "scenario": scen[0], "schedule": kind, "choices": choices}
        res.evaluations += 1
        res.hist("proto_scenario", scen[0])
        res.hist("proto_schedule_kind", kind.split("@")[0])
        res.hist("close_placed_after_reader_op", placement(run["ops"]))
        if s.deadlock:
            res.hist("proto_deadlock", scen[0])
            if len(res.notes) < 5:
                res.notes.append(f"deadlock in {scen[0]}: {s.deadlock}")
        if s.livelock:
            res.hist("proto_livelock", scen[0])
        for tn, ex in s.uncaught():
            res.hist("proto_uncaught", f"{tn}:{type(ex).__name__}")
        if interleaved(run["ops"]):
            res.nontrivial.add(core.digest([scen[0], [op[:-2] for op in run["ops"]]]))
            if len(res.samples) < 3 and len(run["ops"]) > 12:
                res.samples.append({"scenario": scen[0], "schedule": kind, "ops": show_ops(run["ops"])})
        for law, obs, exp in oracle_proto(run):
            res.failures.append(Failure(
                what=f"close protocol ({scen[0]}): {law}", case=meta,
                signature={"part": "proto", "law": law}, observed={"what": obs, "ops": show_ops(run["ops"])[-14:]},
                expected=exp))
        # keep the batch small: the scheduler object is not needed for the lock-step comparison
        batch.append((meta, {"ops": run["ops"], "reader_done": run["reader_done"], "have_reader": run["have_reader"],
                             "uncaught": bool(s.uncaught())}))
        return s

    # corpus first
    for c in ctx.corpus():
        if c.get("part") == "proto":
            scen = next(sc for sc in SCENARIOS if sc[0] == c["scenario"])
            one(ds.ReplayChooser(c["choices"]), scen, "corpus")
    n_steps, n_ops, n_rand = (40, 16, 30) if not ctx.thorough else (70, 24, 150)
    for scen in SCENARIOS:
        for k in range(n_steps):
            one(PlacedChooser(k, rng.randrange(1 << 30)), scen, f"placed-step@{k}")
        for k in range(n_ops):
            for _ in range(2):
                one(PlacedChooser(k, rng.randrange(1 << 30), by_reader_ops=True), scen, f"placed-readerop@{k}")
        for _ in range(n_rand):
            one(ds.RandomChooser(rng.randrange(1 << 30), switch_prob=0.4, tick_prob=0.0), scen, "random")
        if ctx.thorough:
            n = 0
            for _ in ds.explore(lambda ch: one(ch, scen, "explore"), preemption_bound=2, max_runs=3000):
                n += 1
            res.hist("explore_runs", f"{scen[0]}:{n}")
    if ctx.thorough:
        res.notes.append("thorough: ds.explore, every schedule with <= 2 pre-emptions per scenario (capped at 3000 runs each)")
    check_lockstep(res, batch)


# --------------------------------------------------------------------------- part (b): fault injection
CALLS = ["inotify_init", "pipe", "add_watch0", "add_watch1", "add_watch2"]


def fault_spec(faults):
    """faults: list of (call name, errno name) -> FakeKernel.faults dict + model fault list."""
    kf, model = {}, [None] * 5
    for call, en in faults:
        e = getattr(errno, en)
        if call.startswith("add_watch"):
            kf.setdefault("inotify_add_watch", []).append((int(call[-1]), e))
        else:
            kf.setdefault(call, []).append((0, e))
        model[CALLS.index(call)] = en
    return kf, [[] if m is None else [Atom(m)] for m in model]


def run_fault_once(level, faults, root):
    """Returns dict(raised, leaked_now, after, threads, violations)."""
    from harness import detsched as ds
    env = Env(ds.FirstChooser())
    s, k = env.sched, env.kernel
    kf, _ = fault_spec(faults)
    k.faults = kf
    out = {"raised": None, "leaked_now": None, "threads_now": None, "wds": None}
    try:
        def lib_alive():
            return sorted(t.name for t in s.threads if t.role == "lib" and not t.done)

        def client():
            from watchdog.events import FileSystemEventHandler
            from watchdog.observers.api import EventQueue
            from watchdog.observers.api import ObservedWatch
            from watchdog.observers.inotify import InotifyEmitter, InotifyObserver
            if level == "emitter":
                em = InotifyEmitter(EventQueue(), ObservedWatch(root, recursive=True))
                try:
                    em.start()
                except Exception as e:      # noqa: BLE001
                    out["raised"] = e
                out["leaked_now"] = k.open_fds()
                out["threads_now"] = lib_alive()
                if out["raised"] is None:
                    fd = k.inotify_fd()
                    # which of the three directories the kernel really watches (public: the kernel's side)
                    watched = {w["path"] for w in k.fds[fd]["watches"].values()} if fd is not None else set()
                    out["wds"] = [int(os.fsencode(p) in watched) for p in (root, os.path.join(root, "a"), os.path.join(root, "a", "b"))]
                    em.stop()
                    em.join()
            elif level == "schedule":
                ob = InotifyObserver()
                ob.start()
                base = lib_alive()
                w = None
                try:
                    w = ob.schedule(FileSystemEventHandler(), root, recursive=True)
                except Exception as e:      # noqa: BLE001
                    out["raised"] = e
                out["leaked_now"] = k.open_fds()
                out["threads_now"] = [t for t in lib_alive() if t not in base]
                if w is not None:
                    ob.unschedule(w)
                    out["after_unschedule"] = (k.open_fds(), [t for t in lib_alive() if t not in base])
                ob.stop()
                ob.join()
            else:   # "start": the watch is scheduled on a stopped observer, start() builds the emitter
                ob = InotifyObserver()
                ob.schedule(FileSystemEventHandler(), root, recursive=True)
                try:
                    ob.start()
                except Exception as e:      # noqa: BLE001
                    out["raised"] = e
                out["leaked_now"] = k.open_fds()
                out["threads_now"] = lib_alive() if out["raised"] is not None else \
                    [t for t in lib_alive() if not t.startswith("InotifyObserver")]
                if out["raised"] is None:
                    ob.stop()
                    ob.join()

        s.spawn("client", client)
        s.run()
    finally:
        env.undo()
    out["after"] = k.open_fds()
    out["alive_after"] = [n for n in s.alive_after if any(t.name == n and t.role == "lib" for t in s.threads)]
    out["violations"] = list(k.violations)
    out["deadlock"] = str(s.deadlock) if s.deadlock else None
    out["uncaught"] = [(n, repr(e)) for n, e in s.uncaught()]
    out["kinds"] = {fd: k.fds[fd]["kind"] for fd in k.fds}
    return out


def run_faults(ctx, res: Result, root):
    singles = [[(c, e)] for c in CALLS for e in ERRNOS]
    doubles = [[("add_watch0", "EACCES"), ("add_watch2", e)] for e in ERRNOS] + \
              [[("add_watch1", "EACCES"), ("add_watch2", "EACCES")], [("inotify_init", "EACCES"), ("pipe", "EMFILE")]]
    plans = [[]] + singles + doubles
    levels = ["emitter", "schedule", "start"]
    cases, metas, outs_impl = [], [], []
    for level in levels:
        for faults in plans:
            o = run_fault_once(level, faults, root)
            _, mf = fault_spec(faults)
            meta = {"part": "fault", "level": level, "faults": faults}
            res.evaluations += 1
            res.hist("fault_call", "+".join(c for c, _ in faults) or "none")
            res.hist("fault_errno", "+".join(e for _, e in faults) or "none")
            res.hist("fault_level", level)
            if faults:
                res.nontrivial.add(core.digest(meta))
            raised = o["raised"]
            kind = None if raised is None else (errno.errorcode.get(raised.errno, str(raised.errno))
                                                if isinstance(raised, OSError) else type(raised).__name__)
            if len(res.samples) < 6 and level == "emitter" and faults and faults[0][0] in ("add_watch1", "pipe") and faults[0][1] in ("ENOSPC", "EACCES"):
                res.samples.append({**meta, "raised": kind, "open_after_failure": [o["kinds"][fd] for fd in (o["leaked_now"] or [])],
                                    "threads_after_failure": o["threads_now"], "wds": o["wds"]})
            # ---- oracle
            sig_call = faults[0][0] if faults else "none"
            if o["deadlock"]:
                res.notes.append(f"fault run deadlocked: {meta} {o['deadlock']}")
            if o["violations"]:
                res.failures.append(Failure(what=f"watch construction with fault ({level}): use of a closed/invalid descriptor",
                                            case=meta, signature={"part": "fault", "law": "use after close"},
                                            observed=o["violations"][:3], expected="no violation"))
            if raised is not None and (o["leaked_now"] or o["threads_now"]):
                res.failures.append(Failure(
                    what=f"{level}: {kind} raised at {sig_call} but descriptors/threads of the failed watch remain",
                    case=meta, signature={"part": "fault", "law": "leak after failed construction"},
                    observed={"open": [f"{fd}:{o['kinds'][fd]}" for fd in o["leaked_now"]], "threads": o["threads_now"]},
                    expected="no descriptor of that instance open, no thread left"))
            if raised is None and (o["after"] or o["alive_after"]) and not o["deadlock"]:
                res.failures.append(Failure(
                    what=f"{level}: watch built (fault {faults}) and stopped, but descriptors/threads remain",
                    case=meta, signature={"part": "fault", "law": "leak after stop"},
                    observed={"open": [f"{fd}:{o['kinds'][fd]}" for fd in o["after"]], "threads": o["alive_after"]},
                    expected="nothing left"))
            if level == "schedule" and raised is None and "after_unschedule" in o and (o["after_unschedule"][0] or o["after_unschedule"][1]):
                res.failures.append(Failure(
                    what="unschedule() returned but descriptors/threads of the watch remain", case=meta,
                    signature={"part": "fault", "law": "leak after unschedule"},
                    observed=o["after_unschedule"], expected="nothing left"))
            # ---- model
            cases.append(sx([Atom("start"), 1, mf, 3]))
            metas.append(meta)
            outs_impl.append((kind, o))
    outs = core.run_model("closeproto", cases)
    for meta, (kind, o), m in zip(metas, outs_impl, outs):
        res.traces_validated += 1
        if m[0] == "raised":
            impl = ["raised", kind, len(o["leaked_now"] or []), len(o["threads_now"] or [])]
            model = ["raised", m[1], int(m[2]), int(m[3])]
        else:
            impl = ["built", o["wds"] if meta["level"] == "emitter" else None, len(o["leaked_now"] or []), len(o["threads_now"] or [])]
            model = ["built", [int(int(x) != -1) for x in m[1]] if meta["level"] == "emitter" else None, int(m[2]), int(m[3])]
        if kind is None and m[0] == "raised" or kind is not None and m[0] != "raised":
            impl[0] = "raised" if kind is not None else "built"
        if impl != model:
            res.mismatches.append(Mismatch("Ledger.emitter_start", meta, model, impl))


# --------------------------------------------------------------------------- part (c): real kernel
REAL_SCRIPT = r'''
import json, os, shutil, sys, tempfile, threading, time
from watchdog.observers import Observer
from watchdog.events import FileSystemEventHandler
import random
cycles, seed = int(sys.argv[1]), int(sys.argv[2])
rng = random.Random(seed)
def nfd(): return len(os.listdir("/proc/self/fd"))
def nthr(): return sorted(t.name for t in threading.enumerate())
base = tempfile.mkdtemp(prefix="wdc12")
def tree():
    d = tempfile.mkdtemp(dir=base)
    os.makedirs(os.path.join(d, "a", "b"))
    return d
h = FileSystemEventHandler()
out = []
ob = Observer(); ob.start()
kinds = ["sched-unsched", "sched-missing", "start-stop", "start-missing", "sched-events-unsched", "root-deleted",
         "sched-file-missing-parent", "inotify-close-unread", "buffer-create-close"]
# an inotify_add_watch failure injected at every position of the 3-directory tree (the descriptors are the real kernel's)
import ctypes, errno as _errno
from watchdog.observers import inotify_c
_real_add = inotify_c.inotify_add_watch
class Inject:
    k = None; e = 0; n = 0
    def __call__(self, fd, path, mask):
        i = self.n; self.n += 1
        if self.k is not None and i == self.k:
            ctypes.set_errno(self.e); return -1
        return _real_add(fd, path, mask)
inj = Inject(); inotify_c.inotify_add_watch = inj
kinds += ["inject:add%d:%s" % (k, e) for k in range(3) for e in ("ENOENT", "ENOSPC", "EMFILE", "EACCES")]
try:
    for i in range(cycles):
        kind = kinds[i % len(kinds)] if i < 2 * len(kinds) else rng.choice(kinds)
        f0, t0 = nfd(), nthr()
        err = None
        try:
            if kind == "sched-unsched":
                d = tree(); w = ob.schedule(h, d, recursive=True); ob.unschedule(w)
            elif kind == "sched-missing":
                try: ob.schedule(h, os.path.join(base, "missing", str(i)), recursive=True)
                except OSError as e: err = type(e).__name__
            elif kind == "sched-file-missing-parent":
                try: ob.schedule(h, os.path.join(base, "nodir", "file.txt"))
                except OSError as e: err = type(e).__name__
            elif kind == "start-stop":
                d = tree(); o2 = Observer(); o2.schedule(h, d, recursive=True); o2.start(); o2.stop(); o2.join()
            elif kind == "start-missing":
                o2 = Observer(); o2.schedule(h, os.path.join(base, "missing2"), recursive=True)
                try: o2.start()
                except OSError as e: err = type(e).__name__
            elif kind == "sched-events-unsched":
                d = tree(); w = ob.schedule(h, d, recursive=True)
                for j in range(3):
                    open(os.path.join(d, "a", "f%d" % j), "w").close()
                os.mkdir(os.path.join(d, "newdir"))
                ob.unschedule(w)
            elif kind.startswith("inject:"):
                _, pos, en = kind.split(":")
                d = tree(); inj.k, inj.e, inj.n = int(pos[3:]), getattr(_errno, en), 0
                try:
                    w = ob.schedule(h, d, recursive=True)
                except OSError as e:
                    err = "OSError:" + _errno.errorcode.get(e.errno, str(e.errno))
                else:
                    err = "built"
                    inj.k = None
                    ob.unschedule(w)
                finally:
                    inj.k = None
            elif kind == "inotify-close-unread":
                from watchdog.observers.inotify_c import Inotify
                d = tree(); ino = Inotify(os.fsencode(d), recursive=True); ino.close()
            elif kind == "buffer-create-close":
                from watchdog.observers.inotify_buffer import InotifyBuffer
                d = tree(); b = InotifyBuffer(os.fsencode(d), recursive=True); b.close()
            elif kind == "root-deleted":
                d = tree(); w = ob.schedule(h, d, recursive=True)
                em = next(e for e in ob.emitters if e.watch == w)
                shutil.rmtree(d)
                t_end = time.time() + 3.0
                while em.is_alive() and time.time() < t_end: time.sleep(0.005)
                own = {"emitter_alive": em.is_alive(), "fd_delta_after_own_shutdown": nfd() - f0}
                ob.unschedule(w)
                err = own
        except Exception as e:
            err = "UNEXPECTED " + repr(e)
        # a just-finished thread may need a moment to leave threading.enumerate()
        t_end = time.time() + 1.0
        while (nthr() != t0) and time.time() < t_end: time.sleep(0.002)
        out.append({"i": i, "kind": kind, "fd_delta": nfd() - f0, "threads_new": [t for t in nthr() if t not in t0], "err": err})
finally:
    ob.stop(); ob.join()
    shutil.rmtree(base, ignore_errors=True)
print(json.dumps(out))
'''


def run_real(ctx, res: Result, cycles, seed=None):
    env = dict(os.environ)
    p = subprocess.run([sys.executable, "-c", REAL_SCRIPT, str(cycles), str(ctx.seed if seed is None else seed)],
                       capture_output=True, text=True, timeout=600, env=env)
    if p.returncode != 0:
        raise RuntimeError("real-kernel cycle script failed: " + p.stderr[-800:])
    rows = json.loads(p.stdout.strip().splitlines()[-1])
    seen_fail = set()
    for r in rows:
        res.evaluations += 1
        res.hist("real_cycle_kind", r["kind"])
        res.nontrivial.add(core.digest(["real", r["kind"]]))
        own = r["err"] if isinstance(r["err"], dict) else None
        if isinstance(r["err"], str) and r["err"].startswith("UNEXPECTED"):
            res.notes.append(f"real cycle {r['i']} {r['kind']}: {r['err']}")
        bad = None
        if r["fd_delta"] != 0 or r["threads_new"]:
            bad = ("counts do not return to their previous values", {"fd_delta": r["fd_delta"], "threads_new": r["threads_new"]})
        elif own and (own["emitter_alive"] is False and own["fd_delta_after_own_shutdown"] != 0):
            bad = ("descriptors still open after the emitter's own shutdown completed", own)
        if bad and r["kind"] not in seen_fail:
            seen_fail.add(r["kind"])
            res.failures.append(Failure(
                what=f"real kernel, cycle '{r['kind']}': {bad[0]}", case={"part": "real", "kind": r["kind"], "cycles": cycles, "seed": ctx.seed},
                signature={"part": "real", "law": "counts", "kind": r["kind"]}, observed=bad[1],
                expected="/proc/self/fd count and threading.enumerate() as before the cycle"))
    if rows and len(res.samples) < 8:
        res.samples.append({"part": "real", "first_cycles": rows[:4]})
    return rows


# --------------------------------------------------------------------------- entry points
def make_root():
    base = tempfile.mkdtemp(prefix="wdc12", dir="/dev/shm" if os.path.isdir("/dev/shm") else None)
    root = os.path.join(base, "r")
    os.makedirs(os.path.join(root, "a", "b"))      # 3 directories: r, r/a, r/a/b
    return base, root


def run(ctx) -> Result:
    res = Result()
    res.rule = ("(a) scenarios x schedules of the real InotifyBuffer/InotifyEmitter on fake descriptors: close()/stop() placed "
                "after global step k = 0..39 (thorough: 0..59, plus every schedule with <= 2 pre-emptions) and random schedules; "
                "distinct = (scenario, operation log); non-trivial = the closing side takes the instance lock strictly between "
                "the buffer thread's first and last logged operation.  (b) every kernel call of the construction of a recursive "
                "watch on 3 directories x 4 errnos (+ double faults) at emitter / schedule() / start() level; non-trivial = at "
                "least one fault.  (c) real-kernel cycles (30 quick / 500 thorough) over 21 cycle kinds "
                "incl. an add_watch failure injected at each of the 3 positions x 4 errnos; distinct = cycle kind")
    setup()
    base, root = make_root()
    try:
        run_proto(ctx, res, root)
        run_faults(ctx, res, root)
    finally:
        shutil.rmtree(base, ignore_errors=True)
    run_real(ctx, res, 500 if ctx.thorough else 30)
    return res


def replay(ctx, obj) -> int:
    case = obj.get("case", obj)
    print("replay case:", json.dumps(case)[:600])
    res = Result()
    part = case.get("part")
    if part == "real":
        rows = run_real(ctx, res, case.get("cycles", 30), case.get("seed", 0))
        for r in rows:
            if r["fd_delta"] or r["threads_new"]:
                print("cycle", r)
    else:
        setup()
        from harness import detsched as ds
        base, root = make_root()
        try:
            if part == "proto":
                scen = next(sc for sc in SCENARIOS if sc[0] == case["scenario"])
                run = run_proto_once(ds.ReplayChooser(case["choices"]), scen, root)
                for line in show_ops(run["ops"]):
                    print("  op:", line)
                print("  violations:", run["kernel"].violations)
                print("  open descriptors at the end:", [f"{fd}:{run['kernel'].fds[fd]['kind']}" for fd in run["kernel"].open_fds()])
                print("  library threads alive:", run["lib_alive"], "reader finished:", run["reader_done"])
                for law, obs, exp in oracle_proto(run):
                    res.failures.append(Failure(law, case, observed=obs, expected=exp))
                check_lockstep(res, [(case, run)])
            elif part == "fault":
                o = run_fault_once(case["level"], [tuple(f) for f in case["faults"]], root)
                print("  raised:", repr(o["raised"]), "open right after:", [f"{fd}:{o['kinds'][fd]}" for fd in o["leaked_now"] or []],
                      "threads:", o["threads_now"], "open at the end:", o["after"], "violations:", o["violations"])
                if (o["raised"] is not None and (o["leaked_now"] or o["threads_now"])) or o["after"] or o["alive_after"] or o["violations"]:
                    res.failures.append(Failure("leak after failed construction / stop", case, observed=o["leaked_now"]))
        finally:
            shutil.rmtree(base, ignore_errors=True)
    for f in res.failures:
        print("FAIL:", f.what, "observed", f.observed, "expected", f.expected)
    for m in res.mismatches:
        print("MISMATCH:", m.pair, "model", m.model, "impl", m.impl)
    return 1 if res.failures or res.mismatches else 0
