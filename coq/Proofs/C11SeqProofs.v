(* C11, composition for the drained regime: one operation, one read of the whole kernel queue, grouping,
   emission - for an unfiltered watch and for a watch with event filter F on the same file system.
   Kernel (C11KernelProofs) + reader (C11ReaderProofs, C11TwinProofs) + buffer (C11GroupProofs) +
   emitter/table (C11Proofs, MaskTableProofs). *)
Require Import WD.Base.Prelude WD.Base.BStr WD.Model.SubEvents WD.Model.Emitter WD.Model.MaskTable
               WD.Model.Fs WD.Model.Reader WD.Model.DelayQueue WD.Model.Grouping WD.Model.Pipeline WD.Model.Contract.
Require Import WD.Gen.MaskTableGen WD.Proofs.MaskTableProofs WD.Proofs.C11Proofs WD.Proofs.ReaderFixProofs WD.Proofs.ContractProofs
               WD.Proofs.C11KernelProofs WD.Proofs.C11ReaderProofs WD.Proofs.C11TwinProofs WD.Proofs.C11GroupProofs.

Local Notation delivered := MaskTable.delivered.

(* ------------------------------------------------------------------ the kernel mask of a filtered watch *)
(* the event bits of the mask the emitter hands to inotify_add_watch (None: WATCHDOG_ALL_EVENTS) *)
Definition kmask (F : option (list evbase)) (recursive : bool) : N :=
  N.land (effective_mask (mask_of_filter recursive F)) IN_ALL_EVENTS.

Lemma kmask_none recursive : kmask None recursive = WATCHDOG_ALL.
Proof. reflexivity. Qed.

Lemma kmask_events F r : N.land (kmask F r) IN_ALL_EVENTS = kmask F r.
Proof. unfold kmask. now rewrite <- N.land_assoc, N.land_diag. Qed.

Lemma kmask_nodir F r : N.land IN_ISDIR (kmask F r) = 0%N.
Proof.
  unfold kmask. rewrite (N.land_comm (effective_mask _)), N.land_assoc.
  change (N.land IN_ISDIR IN_ALL_EVENTS) with 0%N. apply N.land_0_l.
Qed.

Lemma sub_lor W a b : N.land a W = a -> N.land b W = b -> N.land (N.lor a b) W = N.lor a b.
Proof. intros Ha Hb. now rewrite N.land_lor_distr_l, Ha, Hb. Qed.

Lemma gen_sub_sweep :
  forallb (fun c => N.eqb (N.land (N.land (Gen.mask1 c) IN_ALL_EVENTS) WATCHDOG_ALL) (N.land (Gen.mask1 c) IN_ALL_EVENTS)) all_bases
  && forallb (fun r => N.eqb (N.land (N.land (Gen.init_mask r) IN_ALL_EVENTS) WATCHDOG_ALL)
                             (N.land (Gen.init_mask r) IN_ALL_EVENTS)) [false; true] = true.
Proof. vm_compute. reflexivity. Qed.

(* the filtered watch asks for a part of what the unfiltered watch asks for *)
Lemma kmask_sub F r : N.land (kmask F r) WATCHDOG_ALL = kmask F r.
Proof.
  destruct F as [l|]; [|reflexivity].
  unfold kmask. rewrite mask_of_filter_eq_gen. cbn [Gen.mask_of_filter_gen effective_mask].
  pose proof gen_sub_sweep as S. apply andb_true_iff in S as [S1 S2]. rewrite forallb_forall in S1, S2.
  assert (I0 : N.land (N.land (Gen.init_mask r) IN_ALL_EVENTS) WATCHDOG_ALL = N.land (Gen.init_mask r) IN_ALL_EVENTS).
  { apply N.eqb_eq. apply S2. destruct r; simpl; tauto. }
  revert I0. generalize (Gen.init_mask r). induction l as [|c l IH]; intros m Hm; cbn [fold_left]; [exact Hm|].
  apply IH. rewrite N.land_lor_distr_l. apply sub_lor; [exact Hm|].
  apply N.eqb_eq. apply S1. apply all_bases_complete.
Qed.

Lemma flag_in_kmask b F r : flag_in b IN_ALL_EVENTS = true ->
  flag_in b (kmask F r) = flag_set b (mask_of_filter r F).
Proof.
  unfold flag_set, flag_in, kmask. intros H. apply N.eqb_eq in H.
  rewrite <- N.land_assoc, H. reflexivity.
Qed.

Lemma delivered_kmask F r m : delivered (kmask F r) m = delivered (effective_mask (mask_of_filter r F)) m.
Proof. unfold delivered. now rewrite kmask_events. Qed.

Lemma handed_over_kmask F r it :
  handed_over (kmask F r) it = handed_over (effective_mask (mask_of_filter r F)) it.
Proof.
  destruct it as [e|f t]; cbn [handed_over]; [now rewrite delivered_kmask|].
  rewrite !flag_in_kmask by reflexivity. reflexivity.
Qed.

(* ------------------------------------------------------------------ single bits *)
Lemma land_pow2 m k : N.land m (2 ^ k)%N = if N.testbit m k then (2 ^ k)%N else 0%N.
Proof.
  apply N.bits_inj. intros n. rewrite N.land_spec, N.pow2_bits_eqb.
  destruct (N.eqb k n) eqn:Ekn.
  - apply N.eqb_eq in Ekn. subst n. rewrite andb_true_r. destruct (N.testbit m k) eqn:T.
    + now rewrite N.pow2_bits_eqb, N.eqb_refl.
    + now rewrite N.bits_0.
  - rewrite andb_false_r. destruct (N.testbit m k).
    + now rewrite N.pow2_bits_eqb, Ekn.
    + now rewrite N.bits_0.
Qed.

Lemma lt0_neq0 x : N.ltb 0 x = negb (N.eqb x 0).
Proof. destruct x; reflexivity. Qed.

(* an event that carries a flag of the mask is sent *)
Lemma has_flag_kept M' m b : has m b = true -> flag_in b M' = true -> N.eqb (N.land m M') 0 = false.
Proof.
  unfold has, flag_in. rewrite lt0_neq0. intros H1 H2. apply N.eqb_eq in H2. apply negb_true_iff in H1.
  apply N.eqb_neq. intros E. apply N.eqb_neq in H1. apply H1.
  rewrite <- H2, N.land_assoc, E. apply N.land_0_l.
Qed.

(* ------------------------------------------------------------------ the shape of kernel records *)
Definition event_bits : list N :=
  [IN_ACCESS; IN_MODIFY; IN_ATTRIB; IN_CLOSE_WRITE; IN_CLOSE_NOWRITE; IN_OPEN; IN_MOVED_FROM; IN_MOVED_TO;
   IN_CREATE; IN_DELETE; IN_DELETE_SELF; IN_MOVE_SELF].

(* IN_IGNORED alone, or one user-space event bit with or without IN_ISDIR *)
Definition kshaped (m : N) : Prop :=
  m = IN_IGNORED \/ exists b (d : bool), In b event_bits /\ m = (if d then N.lor b IN_ISDIR else b).

Lemma kpush_in q e x : In x (kpush q e) -> In x q \/ x = e.
Proof.
  destruct (kpush_cases q e) as [[H _]|H]; rewrite H; [tauto|].
  intros Hx. apply in_app_or in Hx as [Hx|[<-|[]]]; tauto.
Qed.

Definition qshaped (k : kst) : Prop := forall e, In e (k_queue k) -> kshaped (k_mask e).

Lemma knotify_shaped k ino bit isdir c name : In bit event_bits -> qshaped k -> qshaped (knotify k ino bit isdir c name).
Proof.
  intros Hb Hq. unfold knotify. destruct (watch_of_ino k ino); [|exact Hq].
  destruct (N.eqb (N.land bit (kw_mask k0)) 0); [exact Hq|].
  intros e He. cbn [k_queue] in He. apply kpush_in in He as [He| ->]; [apply Hq; exact He|].
  right. exists bit, isdir. split; [exact Hb | reflexivity].
Qed.

Lemma kgone_shaped k ino af : qshaped k -> qshaped (kgone k ino af).
Proof.
  intros Hq. unfold kgone. destruct (watch_of_ino k ino); [|exact Hq].
  intros e He. cbn [k_queue] in He. apply kpush_in in He as [He| ->]; [|left; reflexivity].
  revert e He. apply knotify_shaped; [simpl; tauto|].
  destruct af; [apply knotify_shaped; [simpl; tauto | exact Hq] | exact Hq].
Qed.

Lemma kernel_op_shaped k t o : qshaped k -> qshaped (kernel_op k t o).
Proof.
  intros Hq. destruct o; cbn [kernel_op];
    repeat first [ apply knotify_shaped; [simpl; tauto|] | apply kgone_shaped | exact Hq ].
  - destruct (fisdir p t); repeat first [ apply knotify_shaped; [simpl; tauto|] | exact Hq ].
  - destruct (fisdir q t); repeat first [ apply kgone_shaped | apply knotify_shaped; [simpl; tauto|] | exact Hq ].
Qed.

(* what is kept of a shaped record, in both readings (kernel: kkeep, table: delivered) *)
Section Shapes.
  Variable M' : N.
  Hypothesis HE : N.land M' IN_ALL_EVENTS = M'.
  Hypothesis HD : N.land IN_ISDIR M' = 0%N.

  Lemma kkeep_delivered m : kshaped m -> Emitter.is_ignored m = false -> kkeep M' m = delivered M' m.
  Proof.
    intros [->|[b [d [Hb ->]]]] Hi; [discriminate|].
    unfold kkeep, delivered, has. rewrite Hi, HE, lt0_neq0. reflexivity.
  Qed.

  (* the bit test of a shaped mask only sees the event bit *)
  Lemma shaped_from m : kshaped m -> is_moved_from m = true ->
    Emitter.is_ignored m = false /\ delivered M' m = flag_in IN_MOVED_FROM M'.
  Proof.
    intros [->|[b [d [Hb ->]]]] H; [discriminate|].
    simpl in Hb. destruct Hb as [<-|[<-|[<-|[<-|[<-|[<-|[<-|[<-|[<-|[<-|[<-|[<-|[]]]]]]]]]]]]];
      destruct d; try discriminate; (split; [reflexivity|]).
    - unfold delivered, has. rewrite HE, N.land_lor_distr_l, HD, N.lor_0_r.
      change IN_MOVED_FROM with (2 ^ 6)%N. rewrite N.land_comm, land_pow2, flag_in_pow2.
      destruct (N.testbit M' 6); reflexivity.
    - unfold delivered, has. rewrite HE.
      change IN_MOVED_FROM with (2 ^ 6)%N. rewrite N.land_comm, land_pow2, flag_in_pow2.
      destruct (N.testbit M' 6); reflexivity.
  Qed.

  Lemma shaped_to m : kshaped m -> is_moved_to m = true ->
    Emitter.is_ignored m = false /\ delivered M' m = flag_in IN_MOVED_TO M'.
  Proof.
    intros [->|[b [d [Hb ->]]]] H; [discriminate|].
    simpl in Hb. destruct Hb as [<-|[<-|[<-|[<-|[<-|[<-|[<-|[<-|[<-|[<-|[<-|[<-|[]]]]]]]]]]]]];
      destruct d; try discriminate; (split; [reflexivity|]).
    - unfold delivered, has. rewrite HE, N.land_lor_distr_l, HD, N.lor_0_r.
      change IN_MOVED_TO with (2 ^ 7)%N. rewrite N.land_comm, land_pow2, flag_in_pow2.
      destruct (N.testbit M' 7); reflexivity.
    - unfold delivered, has. rewrite HE.
      change IN_MOVED_TO with (2 ^ 7)%N. rewrite N.land_comm, land_pow2, flag_in_pow2.
      destruct (N.testbit M' 7); reflexivity.
  Qed.
End Shapes.

(* ------------------------------------------------------------------ masks of the reader's output *)
Lemma read_batch_masks C t b : forall r k acc r' k' out,
  read_batch C t (r, k, acc) b = Done (r', k', out) ->
  exists new, out = acc ++ new /\
    Forall (fun x => (exists e, In e b /\ r_mask x = k_mask e) \/ sim_raw x) new.
Proof.
  induction b as [|e b IH]; intros r k acc r' k' out H; cbn [read_batch] in H.
  - inversion H; subst. exists []. split; [now rewrite app_nil_r | constructor].
  - destruct (read_one_acc C t r k e) as [[r1 [k1 [o [Ho H1]]]]|[s H1]]; rewrite H1 in H; [|discriminate].
    destruct (IH _ _ _ _ _ _ H) as [new [-> Hn]].
    exists (o ++ new). split; [now rewrite <- !app_assoc|].
    apply Forall_app. split.
    + destruct Ho as [->|[ev [sims [-> [Hm [Hs _]]]]]]; [constructor|].
      constructor; [left; exists e; split; [left; reflexivity | exact Hm]|].
      eapply Forall_impl; [|exact Hs]. intros x Hx. right. exact Hx.
    + eapply Forall_impl; [|exact Hn]. intros x [[e' [He' Hx]]|Hx]; [left; exists e'; split; [right|]; assumption | right; exact Hx].
Qed.

Lemma sim_raw_shaped x : sim_raw x -> kshaped (r_mask x).
Proof.
  intros [->| ->]; right; [exists IN_CREATE, false | exists IN_CREATE, true]; (split; [simpl; tauto | reflexivity]).
Qed.

(* ------------------------------------------------------------------ grouped items: kept = handed over *)
Lemma group_go_members C b : forall g it, In it (group_go C b g) ->
  In it g \/ (exists e, it = Single e /\ In e b) \/ (exists f t, it = Pair f t).
Proof.
  assert (P : forall c t g g' it, pair_in_batch C c t g = Some g' -> In it g' -> In it g \/ exists f t0, it = Pair f t0).
  { intros c t g. induction g as [|x g IH]; intros g' it H Hin; [discriminate|]. cbn [pair_in_batch] in H.
    destruct (is_from_raw C c x).
    - destruct x; [|discriminate]. inversion H; subst. destruct Hin as [<-|Hin]; [right; eauto | left; now right].
    - destruct (pair_in_batch C c t g) as [g2|]; [|discriminate]. inversion H; subst.
      destruct Hin as [<-|Hin]; [left; now left|]. destruct (IH g2 it eq_refl Hin) as [Hi|Hp]; [left; now right | now right]. }
  induction b as [|e b IH]; intros g it Hin; cbn [group_go] in Hin; [now left|].
  assert (Snoc : In it (group_go C b (g ++ [Single e])) ->
                 In it g \/ (exists e0, it = Single e0 /\ In e0 (e :: b)) \/ (exists f t, it = Pair f t)).
  { intros H. destruct (IH _ _ H) as [H1|[[e0 [-> H1]]|H1]].
    - apply in_app_or in H1 as [H1|[<-|[]]]; [now left | right; left; exists e; split; [reflexivity | now left]].
    - right; left. exists e0. split; [reflexivity | now right].
    - right; now right. }
  destruct (nkind_of C e); try (apply Snoc; exact Hin).
  destruct (pair_in_batch C cookie e g) as [g2|] eqn:Ep; [|apply Snoc; exact Hin].
  destruct (IH _ _ Hin) as [H1|[[e0 [-> H1]]|H1]].
  - destruct (P _ _ _ _ _ Ep H1) as [H2|H2]; [now left | right; now right].
  - right; left. exists e0. split; [reflexivity | now right].
  - right; now right.
Qed.

Lemma flat_map_ext_in' {A B} (f g : A -> list B) l : (forall a, In a l -> f a = g a) -> flat_map f l = flat_map g l.
Proof.
  induction l as [|a l IH]; intros H; [reflexivity|]. cbn [flat_map].
  rewrite (H a (or_introl eq_refl)), IH; [reflexivity|]. intros x Hx. apply H. now right.
Qed.

Section Items.
  Variable C : cfg.
  Variable M' : N.
  Hypothesis HE : N.land M' IN_ALL_EVENTS = M'.
  Hypothesis HD : N.land IN_ISDIR M' = 0%N.
  Hypothesis Hwhole : flag_in IN_MOVED_FROM M' = flag_in IN_MOVED_TO M'.
  Let mv := flag_in IN_MOVED_FROM M'.
  Let kp := fun x : raw => kkeep M' (r_mask x).

  Lemma shaped_mvok x : kshaped (r_mask x) -> mvok C mv kp x.
  Proof.
    intros Hs. unfold mvok, nkind_of.
    destruct (is_moved_from (r_mask x)) eqn:E1.
    - destruct (shaped_from M' HE HD _ Hs E1) as [Hi Hd]. unfold kp. rewrite (kkeep_delivered M' HE _ Hs Hi). exact Hd.
    - destruct (is_moved_to (r_mask x)) eqn:E2.
      + destruct (shaped_to M' HE HD _ Hs E2) as [Hi Hd]. unfold kp, mv.
        rewrite (kkeep_delivered M' HE _ Hs Hi), Hd. symmetry. exact Hwhole.
      + destruct (Emitter.is_ignored (r_mask x)); [exact I|]. destruct (is_delete_self (r_mask x)); exact I.
  Qed.

  Lemma hk_handed it :
    (forall e, it = Single e -> kshaped (r_mask e)) -> put_item C it = true ->
    hk mv kp it = handed_over M' it.
  Proof.
    destruct it as [e|f t]; intros Hs Hp; cbn [hk handed_over].
    - specialize (Hs e eq_refl). unfold kp.
      cbn [put_item] in Hp. unfold nkind_of in Hp.
      destruct (is_moved_from (r_mask e)) eqn:E1.
      { destruct (shaped_from M' HE HD _ Hs E1) as [Hi _]. now rewrite (kkeep_delivered M' HE _ Hs Hi). }
      destruct (is_moved_to (r_mask e)) eqn:E2.
      { destruct (shaped_to M' HE HD _ Hs E2) as [Hi _]. now rewrite (kkeep_delivered M' HE _ Hs Hi). }
      destruct (Emitter.is_ignored (r_mask e)) eqn:E3; [discriminate|].
      now rewrite (kkeep_delivered M' HE _ Hs E3).
    - unfold mv. rewrite <- Hwhole. destruct (flag_in IN_MOVED_FROM M'); reflexivity.
  Qed.

  Theorem group_batch_handed raws : Forall (fun x => kshaped (r_mask x)) raws ->
    group_batch C (filter kp raws) = flat_map (handed_over M') (group_batch C raws).
  Proof.
    intros Hs. rewrite (group_batch_hk C mv kp raws).
    2:{ eapply Forall_impl; [|exact Hs]. intros x Hx. apply shaped_mvok. exact Hx. }
    apply flat_map_ext_in'. intros it Hin. unfold group_batch in Hin. apply filter_In in Hin as [Hin Hp].
    apply hk_handed; [|exact Hp].
    intros e ->. destruct (group_go_members C raws [] _ Hin) as [[]|[[e0 [E He0]]|[f [t E]]]]; [|discriminate].
    inversion E; subst. rewrite Forall_forall in Hs. apply Hs. exact He0.
  Qed.
End Items.

(* ------------------------------------------------------------------ emission of a list of items *)
Fixpoint emit_all_f (F : option (list evbase)) (full_events recursive : bool) (root : bytes) (ct : bytes -> tree)
    (its : list Emitter.item) : list nevent :=
  match its with
  | [] => []
  | it :: rest =>
    let '(evs, stop) := emit_filtered F full_events recursive root ct it in
    evs ++ (if stop then [] else emit_all_f F full_events recursive root ct rest)
  end.

Lemma emit_all_f_none full recursive root ct its :
  emit_all_f None full recursive root ct its = emit_all full recursive root ct its.
Proof.
  induction its as [|it its IH]; [reflexivity|]. cbn [emit_all_f emit_all].
  rewrite emit_filtered_none. destruct (emit full recursive root ct it) as [evs stop]. now rewrite IH.
Qed.

Theorem emit_all_handed F full recursive root ct its :
  emit_all_f F full recursive root ct (flat_map (handed_over (kmask F recursive)) its)
  = filter (acc F) (emit_all full recursive root ct its).
Proof.
  induction its as [|it its IH]; [reflexivity|].
  cbn [flat_map emit_all]. rewrite handed_over_kmask.
  destruct (emit full recursive root ct it) as [evs stop] eqn:Ee.
  assert (Kept : emit_all_f F full recursive root ct
                   ([it] ++ flat_map (handed_over (kmask F recursive)) its)
                 = filter (acc F) (evs ++ (if stop then [] else emit_all full recursive root ct its))).
  { cbn [app emit_all_f]. rewrite emit_filtered_commutes, Ee. cbn [fst snd].
    rewrite filter_app. f_equal. destruct stop; [reflexivity | exact IH]. }
  assert (Dropped : filter (acc F) evs = [] -> stop = false ->
                    emit_all_f F full recursive root ct ([] ++ flat_map (handed_over (kmask F recursive)) its)
                    = filter (acc F) (evs ++ (if stop then [] else emit_all full recursive root ct its))).
  { intros H1 ->. cbn [app]. rewrite filter_app, H1. exact IH. }
  destruct it as [e|f t]; cbn [handed_over].
  - destruct (MaskTable.delivered (effective_mask (mask_of_filter recursive F)) (r_mask e)) eqn:Hd; [exact Kept|].
    apply Dropped.
    + pose proof (emit_transparent_single F full recursive root ct e Hd) as H. rewrite Ee in H. exact H.
    + destruct stop; [|reflexivity].
      pose proof (stop_preserved F full recursive root ct e) as H. rewrite Ee in H. cbn [snd] in H.
      rewrite (H eq_refl) in Hd. discriminate.
  - pose proof (mask_move_whole recursive F) as W. unfold flag_set in W.
    destruct (flag_in IN_MOVED_FROM (effective_mask (mask_of_filter recursive F))) eqn:H1; rewrite <- W; [exact Kept|].
    apply Dropped.
    + pose proof (emit_transparent_pair F full recursive root ct f t (or_introl H1)) as H. rewrite Ee in H. exact H.
    + cbn [emit] in Ee. unfold emit_pair in Ee. inversion Ee. reflexivity.
Qed.

(* ------------------------------------------------------------------ no coalescing within one operation *)
Lemma kpush_fresh q e : (forall x, In x q -> kraw_eqb x e = false) -> kpush q e = q ++ [e].
Proof.
  intros H. destruct (kpush_cases q e) as [[_ [q0 [l [-> Hl]]]]|H']; [|exact H'].
  rewrite (H l) in Hl; [discriminate|]. apply in_or_app. right. now left.
Qed.

(* records with pairwise different (descriptor, mask, name) are not coalesced *)
Lemma kcollapse_keys l : NoDup (map kkey l) -> kcollapse l = l.
Proof.
  induction l as [|e l IH] using rev_ind; intros H; [reflexivity|].
  rewrite kcollapse_snoc. rewrite map_app in H. cbn [map] in H.
  apply NoDup_remove in H as [H1 H2]. rewrite app_nil_r in *.
  rewrite (IH H1). apply kpush_fresh. intros x Hx.
  destruct (kraw_eqb x e) eqn:E; [|reflexivity]. apply kraw_eqb_key in E.
  exfalso. apply H2. rewrite <- E. now apply in_map.
Qed.

Lemma NoDup_key_filter {A B} (g : A -> B) (f : A -> bool) l : NoDup (map g l) -> NoDup (map g (filter f l)).
Proof.
  induction l as [|a l IH]; simpl; intros H; [constructor|]. inversion H as [|? ? Ha Hl]; subst.
  destruct (f a); [|exact (IH Hl)]. simpl. constructor; [|exact (IH Hl)].
  intros Hin. apply Ha. apply in_map_iff in Hin as [x [Hx Hin]]. apply filter_In in Hin as [Hin _].
  rewrite <- Hx. now apply in_map.
Qed.

(* the masks in the queue: pairwise different and drawn from S *)
Definition qinv (S : list N) (k : kst) : Prop :=
  NoDup (map k_mask (k_queue k)) /\ forall m, In m (map k_mask (k_queue k)) -> In m S.

Lemma NoDup_snoc {A} (l : list A) a : NoDup l -> ~ In a l -> NoDup (l ++ [a]).
Proof.
  induction 1 as [|x l Hx Hl IH]; intros Ha; simpl; [constructor; [tauto | constructor]|].
  constructor.
  - intros Hin. apply in_app_or in Hin as [Hin|[<-|[]]]; [tauto | apply Ha; now left].
  - apply IH. intros Hin. apply Ha. now right.
Qed.

Definition nmask (bit : N) (isdir : bool) : N := if isdir then N.lor bit IN_ISDIR else bit.

Lemma knotify_qinv S k ino bit (isdir : bool) c name :
  ~ In (nmask bit isdir) S -> qinv S k -> qinv (nmask bit isdir :: S) (knotify k ino bit isdir c name).
Proof.
  intros Hm [H1 H2]. unfold knotify.
  destruct (watch_of_ino k ino); [|split; [exact H1 | intros x Hx; right; now apply H2]].
  destruct (N.eqb (N.land bit (kw_mask k0)) 0); [split; [exact H1 | intros x Hx; right; now apply H2]|].
  unfold qinv. cbn [k_queue]. fold (nmask bit isdir).
  set (e := {| k_wd := kw_wd k0; k_mask := nmask bit isdir; k_cookie := c; k_name := name |}).
  assert (Hf : forall x, In x (k_queue k) -> kraw_eqb x e = false).
  { intros x Hin. destruct (kraw_eqb x e) eqn:E; [|reflexivity]. apply kraw_eqb_mask in E.
    exfalso. apply Hm. apply H2. cbn [e k_mask] in E. rewrite <- E. now apply in_map. }
  rewrite (kpush_fresh _ _ Hf), map_app. cbn [map k_mask e]. split.
  - apply NoDup_snoc; [exact H1|]. intros Hin. apply Hm. now apply H2.
  - intros x Hx. apply in_app_or in Hx as [Hx|[<-|[]]]; [right; now apply H2 | now left].
Qed.

Lemma qinv_weaken S S' k : qinv S k -> (forall m, In m S -> In m S') -> qinv S' k.
Proof. intros [H1 H2] H. split; [exact H1 | intros m Hm; apply H, H2, Hm]. Qed.

Lemma kgone_qinv S k ino af :
  ~ In (nmask IN_ATTRIB true) S -> ~ In IN_DELETE_SELF S -> ~ In IN_IGNORED S -> qinv S k ->
  qinv (IN_IGNORED :: IN_DELETE_SELF :: nmask IN_ATTRIB true :: S) (kgone k ino af).
Proof.
  intros Ha Hd Hi Q. unfold kgone.
  destruct (watch_of_ino k ino) as [w|]; [|eapply qinv_weaken; [exact Q | intros m Hm; simpl; tauto]].
  set (k1 := if af then knotify k ino IN_ATTRIB true 0 [] else k).
  assert (Q1 : qinv (nmask IN_ATTRIB true :: S) k1).
  { subst k1. destruct af; [apply knotify_qinv; assumption|].
    eapply qinv_weaken; [exact Q | intros m Hm; now right]. }
  assert (Q2 : qinv (nmask IN_DELETE_SELF false :: nmask IN_ATTRIB true :: S) (knotify k1 ino IN_DELETE_SELF false 0 [])).
  { apply knotify_qinv; [|exact Q1]. intros [H|H]; [discriminate H | exact (Hd H)]. }
  set (k2 := knotify k1 ino IN_DELETE_SELF false 0 []) in *. destruct Q2 as [N2 I2].
  unfold qinv. cbn [k_queue].
  set (e := {| k_wd := kw_wd w; k_mask := IN_IGNORED; k_cookie := 0; k_name := [] |}).
  assert (Hni : ~ In IN_IGNORED (map k_mask (k_queue k2))).
  { intros Hin. apply I2 in Hin. destruct Hin as [H|[H|H]]; [discriminate H | discriminate H | exact (Hi H)]. }
  assert (Hf : forall x, In x (k_queue k2) -> kraw_eqb x e = false).
  { intros x Hin. destruct (kraw_eqb x e) eqn:E; [|reflexivity]. apply kraw_eqb_mask in E.
    exfalso. apply Hni. cbn [e k_mask] in E. rewrite <- E. now apply in_map. }
  rewrite (kpush_fresh _ _ Hf), map_app. cbn [map k_mask e]. split.
  - apply NoDup_snoc; assumption.
  - intros x Hx. apply in_app_or in Hx as [Hx|[<-|[]]]; [right; apply I2; exact Hx | now left].
Qed.

Lemma kpush_nodup_small q e : (length q <= 1)%nat -> NoDup (map kkey (kpush q e)).
Proof.
  destruct q as [|a [|b q]]; intros H; [repeat constructor; simpl; tauto | | simpl in H; lia].
  unfold kpush. simpl. destruct (kraw_eqb a e) eqn:E; [repeat constructor; simpl; tauto|].
  simpl. constructor; [|repeat constructor; simpl; tauto].
  intros [K|[]]. symmetry in K. apply kraw_eqb_key in K. congruence.
Qed.

Lemma NoDup_map_proj {A B C} (f : A -> B) (g : B -> C) l : NoDup (map (fun x => g (f x)) l) -> NoDup (map f l).
Proof.
  induction l as [|a l IH]; simpl; intros H; [constructor|]. inversion H as [|? ? Ha Hl]; subst.
  constructor; [|exact (IH Hl)]. intros Hin. apply Ha. apply in_map_iff in Hin as [x [Hx Hin]].
  apply in_map_iff. exists x. split; [now rewrite Hx | exact Hin].
Qed.

Lemma qinv_nodup S k : qinv S k -> NoDup (map kkey (k_queue k)).
Proof.
  intros [H _]. apply (NoDup_map_proj kkey (fun x : N * N * bytes => snd (fst x))). exact H.
Qed.

Ltac qsolve Q :=
  eapply qinv_nodup;
  repeat first [ apply kgone_qinv; [shelve | shelve | shelve |] | apply knotify_qinv; [shelve |] ];
  exact Q.

(* starting from an empty queue, the records one operation queues differ pairwise in (descriptor, mask, name) -
   what the kernel compares: it coalesces nothing, whatever part of them a watch is sent *)
Theorem kernel_op_nodup k t o : k_queue k = [] -> NoDup (map kkey (k_queue (kernel_op k t o))).
Proof.
  intros Hq.
  assert (Q0 : qinv [] k) by (unfold qinv; rewrite Hq; split; [constructor | intros m []]).
  assert (NI : forall (m : N) (S : list N), (forallb (fun x => negb (N.eqb m x)) S = true) -> ~ In m S).
  { intros m S H Hin. rewrite forallb_forall in H. specialize (H m Hin). rewrite N.eqb_refl in H. discriminate. }
  destruct o as [p|p|p|p|p|p|p q]; cbn [kernel_op].
  - qsolve Q0.
  - qsolve Q0.
  - destruct (fisdir p t).
    + (* the same mask twice: at most two records *)
      set (k1 := knotify k (ino_of t (dirname p)) IN_ATTRIB true 0 (basename p)).
      assert (L1 : (length (k_queue k1) <= 1)%nat).
      { subst k1. unfold knotify. destruct (watch_of_ino k _); [|rewrite Hq; simpl; lia].
        destruct (N.eqb _ 0); [rewrite Hq; simpl; lia|]. cbn [k_queue]. rewrite Hq. simpl. lia. }
      unfold knotify at 1. destruct (watch_of_ino k1 (ino_of t p)).
      * destruct (N.eqb _ 0); cbn [k_queue]; [|apply kpush_nodup_small; exact L1].
        destruct (k_queue k1) as [|a [|b l]]; [constructor | repeat constructor; simpl; tauto | simpl in L1; lia].
      * destruct (k_queue k1) as [|a [|b l]]; [constructor | repeat constructor; simpl; tauto | simpl in L1; lia].
    + qsolve Q0.
  - qsolve Q0.
  - qsolve Q0.
  - qsolve Q0.
  - set (k0 := {| k_watches := k_watches k; k_next_wd := k_next_wd k; k_queue := k_queue k;
                  k_next_cookie := k_next_cookie k + 1 |}).
    assert (Q0' : qinv [] k0) by exact Q0.
    destruct (fisdir p t), (fisdir q t); qsolve Q0'.
  Unshelve. all: apply NI; reflexivity.
Qed.

(* ------------------------------------------------------------------ one operation, drained *)
(* [Contract.deliver_one] with the class filter of the watch and with the resulting state *)
Definition run_one (F : option (list evbase)) (C : cfg) (full_events : bool) (w : world) (k : kst) (r : rstate) (o : op)
  : option (world * kst * rstate * list nevent) :=
  match apply_op w o with
  | None => None
  | Some w' =>
    let k1 := kernel_op k (w_fs w) o in
    match read_batch C (w_fs w') (r, kdrained k1, []) (k_queue k1) with
    | Crash _ => None
    | Done (r', k', raws) =>
      Some (w', k', r', emit_all_f F full_events (c_recursive C) (c_root C) (content (w_fs w')) (group_batch C raws))
    end
  end.

Lemma run_one_deliver C full w k r o :
  option_map snd (run_one None C full w k r o) = deliver_one C full w k r o.
Proof.
  unfold run_one, deliver_one. destruct (apply_op w o) as [w'|]; [|reflexivity].
  destruct (read_batch C (w_fs w') (r, kdrained (kernel_op k (w_fs w) o), []) (k_queue (kernel_op k (w_fs w) o)))
    as [[[r' k'] raws]|]; [|reflexivity].
  cbn [option_map snd]. now rewrite emit_all_f_none.
Qed.

Lemma group_go_with_mask C M b : forall g, group_go (with_mask C M) b g = group_go C b g.
Proof.
  induction b as [|e b IH]; intros g; [reflexivity|]. cbn [group_go].
  change (nkind_of (with_mask C M) e) with (nkind_of C e).
  assert (P : forall c t g0, pair_in_batch (with_mask C M) c t g0 = pair_in_batch C c t g0).
  { intros c t g0. induction g0 as [|it g0 IHg]; [reflexivity|]. cbn [pair_in_batch].
    change (is_from_raw (with_mask C M) c it) with (is_from_raw C c it). now rewrite IHg. }
  destruct (nkind_of C e); rewrite ?P, ?IH; try reflexivity.
  destruct (pair_in_batch C cookie e g); rewrite ?IH; reflexivity.
Qed.

Lemma group_batch_with_mask C M b : group_batch (with_mask C M) b = group_batch C b.
Proof.
  unfold group_batch. rewrite group_go_with_mask. apply filter_ext. intros it.
  destruct it; reflexivity.
Qed.

(* the structural events reach the filtered watch *)
Definition visible (F : option (list evbase)) (recursive : bool) : Prop :=
  flag_in IN_MOVED_FROM (kmask F recursive) = true /\
  (recursive = true -> flag_in IN_CREATE (kmask F recursive) = true).

Lemma visible_recursive F : visible F true.
Proof.
  assert (H : forall b, In b [IN_CREATE; IN_MOVED_FROM; IN_MOVED_TO] -> In b (needed_for F true)).
  { intros b Hb. unfold needed_for. right. apply in_or_app. left. exact Hb. }
  split; [|intros _]; rewrite flag_in_kmask by reflexivity; apply table_lemma; apply H.
  - right. left. reflexivity.
  - left. reflexivity.
Qed.

(* ------------------------------------------------------------------ what the reader itself queues in the kernel *)
(* only IN_IGNORED records of the watches it removes (inotify_rm_watch in _forget_tree, repair F10) *)
Definition qjunk (k : kst) : Prop := forall e, In e (k_queue k) -> k_mask e = IN_IGNORED.

Lemma krm_watch_junk k wd : qjunk k -> qjunk (krm_watch k wd).
Proof.
  intros H. unfold krm_watch. destruct (find _ _); [|exact H].
  intros e He. cbn [k_queue] in He. apply kpush_in in He as [He| ->]; [now apply H | reflexivity].
Qed.

Lemma kadd_watch_queue k t p m k' wd : kadd_watch k t p m = Some (k', wd) -> k_queue k' = k_queue k.
Proof.
  unfold kadd_watch. destruct (flookup p t); [|discriminate].
  destruct (watch_of_ino k (f_ino f)); intros H; inversion H; reflexivity.
Qed.

Section RQ.
  Variable C : cfg.

  Lemma add_watch_queue r k t p r' k' wd : add_watch C r k t p = Some (r', k', wd) -> k_queue k' = k_queue k.
  Proof.
    unfold add_watch. destruct (mem_nat _ _); [discriminate|].
    destruct (kadd_watch k t p (c_mask C)) as [[k1 w]|] eqn:E; [|discriminate].
    intros H. inversion H; subst. eapply kadd_watch_queue. exact E.
  Qed.

  Lemma sim_dirs_queue t root ds : forall r k acc, k_queue (snd (fst (sim_dirs C r k t root ds acc))) = k_queue k.
  Proof.
    induction ds as [|d ds IH]; intros r k acc; cbn [sim_dirs]; [reflexivity|].
    destruct (add_watch C r k t (join root d)) as [[[r1 k1] wd]|] eqn:Ea; rewrite IH; [|reflexivity].
    eapply add_watch_queue. exact Ea.
  Qed.

  Lemma simulate_queue t w : forall r k acc r' k' out,
    simulate C r k t w acc = Done (r', k', out) -> k_queue k' = k_queue k.
  Proof.
    induction w as [|[[root ds] fls] w IH]; intros r k acc r' k' out H; cbn [simulate] in H.
    - inversion H; subst. reflexivity.
    - pose proof (sim_dirs_queue t root ds r k acc) as Hq.
      destruct (sim_dirs C r k t root ds acc) as [[r1 k1] a1]. cbn [fst snd] in Hq.
      destruct (sim_files C r1 root fls a1); [|discriminate]. rewrite (IH _ _ _ _ _ _ H). exact Hq.
  Qed.

  Lemma add_dirs_queue t ps : forall r k, k_queue (snd (add_dirs C r k t ps)) = k_queue k.
  Proof.
    induction ps as [|p ps IH]; intros r k; cbn [add_dirs]; [reflexivity|].
    destruct (add_watch C r k t p) as [[[r1 k1] wd]|] eqn:Ea; [|reflexivity].
    rewrite IH. eapply add_watch_queue. exact Ea.
  Qed.

  Lemma forget_tree_junk keys p : forall r k, qjunk k -> qjunk (snd (forget_tree keys p r k)).
  Proof.
    induction keys as [|[q x] keys IH]; intros r k H; cbn [forget_tree]; [exact H|].
    destruct (beqb q p || starts (p ++ [sep]) q); [|apply IH; exact H].
    destruct (alookup beqb q (wfp r)) as [wd|]; [|apply IH; exact H].
    destruct (alookup N.eqb wd (pfw r)) as [q'|]; [|apply IH; exact H].
    destruct (beqb q' q); apply IH; [apply krm_watch_junk|]; exact H.
  Qed.

  Lemma settle_junk r k e : qjunk k -> qjunk (snd (settle_pending C r k e)).
  Proof.
    intros H. unfold settle_pending. destruct (c_fix_moveout C); [|exact H].
    destruct (pend r) as [[c p]|]; [|exact H].
    destruct (is_moved_to (k_mask e) && N.eqb (k_cookie e) c && amem N.eqb (k_wd e) (pfw r)); [exact H|]. apply forget_tree_junk. exact H.
  Qed.

  Lemma ro_move_queue t r k e wdp : k_queue (snd (fst (ro_move C t r k e wdp))) = k_queue k.
  Proof.
    unfold ro_move. destruct (is_moved_from (k_mask e)); [reflexivity|].
    destruct (is_moved_to (k_mask e)); [|reflexivity].
    assert (A : forall (b : bool) ps (ev : raw),
      k_queue (snd (fst (if b then let '(r', k') := add_dirs C r k t ps in (r', k', ev) else (r, k, ev)))) = k_queue k).
    { intros b ps ev. destruct b; [|reflexivity]. pose proof (add_dirs_queue t ps r k) as H.
      destruct (add_dirs C r k t ps). exact H. }
    destruct (alookup N.eqb (k_cookie e) (mvf r)) as [msrc|]; [|apply A].
    destruct (alookup beqb msrc (wfp r)); [reflexivity | apply A].
  Qed.

  Lemma read_one_body_queue t r k acc e r' k' out :
    read_one_body C t (r, k, acc) e = Done (r', k', out) -> k_queue k' = k_queue k.
  Proof.
    rewrite read_one_body_factored. destruct (alookup N.eqb (k_wd e) (pfw r)) as [wdp|].
    2:{ destruct (c_fix_moveout C); [|discriminate]. intros H; inversion H; reflexivity. }
    pose proof (ro_move_queue t r k e wdp) as Hm.
    destruct (ro_move C t r k e wdp) as [[r1 k1] ev1]. cbn [fst snd] in Hm.
    destruct (ro_ignored C r1 e) as [r2|]; [|discriminate].
    destruct (c_recursive C && is_directory (k_mask e) && is_create (k_mask e)).
    - destruct (add_watch C r2 k1 t (r_path ev1)) as [[[r3 k3] wd]|] eqn:Ea.
      + intros H. apply simulate_queue in H. apply add_watch_queue in Ea. congruence.
      + intros H. inversion H; subst. exact Hm.
    - intros H. inversion H; subst. exact Hm.
  Qed.

  Lemma read_batch_junk t b : forall r k acc r' k' out,
    qjunk k -> read_batch C t (r, k, acc) b = Done (r', k', out) -> qjunk k'.
  Proof.
    induction b as [|e b IH]; intros r k acc r' k' out H Hrun; cbn [read_batch] in Hrun.
    - inversion Hrun; subst. exact H.
    - destruct (read_one C t (r, k, acc) e) as [[[r1 k1] a1]|] eqn:E1; [|discriminate].
      rewrite read_one_settle in E1. pose proof (settle_junk r k e H) as Hs.
      apply read_one_body_queue in E1. eapply IH; [|exact Hrun].
      intros x Hx. apply Hs. rewrite <- E1. exact Hx.
  Qed.
End RQ.

(* twins that start with the same unread records end with the same unread records: the readers queue the same IN_IGNORED
   records (inotify_rm_watch is not maskable) *)
Section TQ.
  Variable C : cfg.
  Variables M M' : N.
  Let C' := with_mask C M'.

  Lemma forget_tree_twin_queue keys p : forall r k k',
    kwt M M' k k' -> k_queue k = k_queue k' ->
    k_queue (snd (forget_tree keys p r k)) = k_queue (snd (forget_tree keys p r k')).
  Proof.
    induction keys as [|[q x] keys IH]; intros r k k' T Q; cbn [forget_tree]; [exact Q|].
    destruct (beqb q p || starts (p ++ [sep]) q); [|apply IH; assumption].
    destruct (alookup beqb q (wfp r)) as [wd|]; [|apply IH; assumption].
    destruct (alookup N.eqb wd (pfw r)) as [q'|]; [|apply IH; assumption].
    destruct (beqb q' q); [|apply IH; assumption].
    destruct (krm_watch_twin M M' k k' wd T Q) as [T1 Q1]. apply IH; assumption.
  Qed.

  Lemma settle_twin_queue r k k' e : kwt M M' k k' -> k_queue k = k_queue k' ->
    k_queue (snd (settle_pending C r k e)) = k_queue (snd (settle_pending C' r k' e)).
  Proof.
    intros T Q. unfold settle_pending. cbn [C' with_mask c_fix_moveout].
    destruct (c_fix_moveout C); [|exact Q]. destruct (pend r) as [[c p]|]; [|exact Q].
    destruct (is_moved_to (k_mask e) && N.eqb (k_cookie e) c && amem N.eqb (k_wd e) (pfw r)); [exact Q|].
    apply forget_tree_twin_queue; assumption.
  Qed.

  Lemma read_batch_twin_queue (HM : c_mask C = M) t b : forall r k k' acc r1 k1 o1 r2 k2 o2,
    kwt M M' k k' -> k_queue k = k_queue k' ->
    read_batch C t (r, k, acc) b = Done (r1, k1, o1) -> read_batch C' t (r, k', acc) b = Done (r2, k2, o2) ->
    k_queue k1 = k_queue k2.
  Proof.
    induction b as [|e b IH]; intros r k k' acc r1 k1 o1 r2 k2 o2 T Q H1 H2; cbn [read_batch] in *.
    - inversion H1; inversion H2; subst. exact Q.
    - destruct (read_one C t (r, k, acc) e) as [[[ra ka] oa]|] eqn:E1; [|discriminate].
      destruct (read_one C' t (r, k', acc) e) as [[[rb kb] ob]|] eqn:E2; [|discriminate].
      pose proof (read_one_twin C M M' HM t r k k' acc e T) as Tw. fold C' in Tw. rewrite E1, E2 in Tw.
      destruct Tw as [Ta [Tb Tc]]. cbn [fst snd] in *. subst rb ob.
      rewrite read_one_settle in E1, E2.
      apply read_one_body_queue in E1. apply read_one_body_queue in E2.
      eapply (IH ra ka kb oa); try eassumption.
      rewrite E1, E2. apply settle_twin_queue; assumption.
  Qed.
End TQ.

Section Step.
  Variable F : option (list evbase).
  Variable C : cfg.
  Let rec := c_recursive C.
  Let M' := kmask F rec.
  Let C' := with_mask C M'.
  Hypothesis HM : c_mask C = WATCHDOG_ALL.
  Hypothesis Hvis : visible F rec.

  Lemma whole_kmask : flag_in IN_MOVED_FROM M' = flag_in IN_MOVED_TO M'.
  Proof. unfold M'. rewrite !flag_in_kmask by reflexivity. apply mask_move_whole. Qed.

  Lemma structural_kept m : structural rec m = true -> kkeep M' m = true.
  Proof.
    unfold structural, kkeep. intros H. destruct Hvis as [V1 V2].
    destruct (Emitter.is_ignored m); [reflexivity|]. cbn [orb].
    apply orb_true_iff in H as [H|H].
    - rewrite orb_false_r in H. apply orb_true_iff in H as [H|H].
      + now rewrite (has_flag_kept M' m IN_MOVED_FROM H V1).
      + pose proof whole_kmask as W. unfold M' in W. rewrite W in V1.
        now rewrite (has_flag_kept M' m IN_MOVED_TO H V1).
    - apply andb_true_iff in H as [H H3]. apply andb_true_iff in H as [H1 _].
      now rewrite (has_flag_kept M' m IN_CREATE H3 (V2 H1)).
  Qed.

  Lemma sim_kept : rec = true -> kkeep M' IN_CREATE = true /\ kkeep M' (N.lor IN_CREATE IN_ISDIR) = true.
  Proof.
    intros Hr. destruct Hvis as [_ V2]. specialize (V2 Hr). unfold kkeep. split.
    - now rewrite (has_flag_kept M' IN_CREATE IN_CREATE eq_refl V2).
    - now rewrite (has_flag_kept M' (N.lor IN_CREATE IN_ISDIR) IN_CREATE eq_refl V2).
  Qed.

  (* the kernel queue of the unfiltered watch behaves regularly around this operation: no two records that the kernel
     would coalesce once the records in between are not sent (a fact about the unfiltered world only; proved from a
     drained queue: kernel_op_nodup), and no unsent record right after a remembered or fresh directory IN_MOVED_FROM
     (a dropped record there would make the unfiltered reader settle its move-out candidate earlier than the
     filtered one: the lag is harmless but is not covered by this theorem) *)
  Definition regular_step (w : world) (k : kst) (r : rstate) (o : op) : Prop :=
    NoDup (map kkey (k_queue k)) /\
    NoDup (map kkey (k_queue (kernel_op k (w_fs w) o))) /\
    guardedb C (kkeep M') (pending_of C r) (k_queue (kernel_op k (w_fs w) o)) = true.

  (* ONE OPERATION: the filtered watch queues the accepted part of what the unfiltered watch queues,
     and the two worlds stay twins *)
  Theorem transparent_step full w k k' r o w1 k1 r1 evs :
    kw0 WATCHDOG_ALL M' k k' -> k_queue k = k_queue k' -> qjunk k -> regular_step w k r o ->
    run_one None C full w k r o = Some (w1, k1, r1, evs) ->
    exists k1', run_one F C' full w k' r o = Some (w1, k1', r1, filter (acc F) evs) /\
                kw0 WATCHDOG_ALL M' k1 k1' /\ k_queue k1 = k_queue k1' /\ qjunk k1.
  Proof.
    intros T Q J [ND0 [ND1 G]] Hrun. unfold run_one in *.
    destruct (apply_op w o) as [w'|]; [|discriminate].
    set (kU := kernel_op k (w_fs w) o) in *. set (kF := kernel_op k' (w_fs w) o).
    assert (Q0 : kq M' k k').
    { unfold kq. rewrite <- Q.
      rewrite (filter_all (fun x : kraw => kkeep M' (k_mask x)) (k_queue k)).
      - symmetry. apply kcollapse_keys. exact ND0.
      - intros x Hx. rewrite (J x Hx). reflexivity. }
    destruct (kernel_op_twin WATCHDOG_ALL M' (kmask_sub F rec) (kmask_nodir F rec) k k' (w_fs w) o T Q0) as [T1 Q1].
    fold kU kF in T1, Q1. unfold kq in Q1.
    rewrite (kcollapse_keys _ (NoDup_key_filter kkey _ _ ND1)) in Q1.
    destruct (read_batch C (w_fs w') (r, kdrained kU, []) (k_queue kU)) as [[[r' kk] raws]|] eqn:Hrd; [|discriminate].
    inversion Hrun; subst w1 k1 r1 evs; clear Hrun.
    pose proof (reader_transparent C (w_fs w') (kkeep M') structural_kept sim_kept (k_queue kU) r (kdrained kU) []
                  r' kk raws (pending_of C r) (fun H => H) G Hrd) as Hrt.
    cbn [filter] in Hrt.
    assert (K0 : kw0 WATCHDOG_ALL M' (kdrained kU) (kdrained kF)).
    { destruct T1 as [a b c d]. constructor; assumption. }
    pose proof (read_batch_twin C WATCHDOG_ALL M' HM (w_fs w')
                  (filter (fun e => kkeep M' (k_mask e)) (k_queue kU)) r (kdrained kU) (kdrained kF) [] K0) as Htw.
    rewrite Hrt in Htw. fold C' in Htw. rewrite Q1.
    destruct (read_batch C' (w_fs w') (r, kdrained kF, []) (filter (fun e => kkeep M' (k_mask e)) (k_queue kU)))
      as [[[r2 k2] raws2]|] eqn:HrdF; [|contradiction].
    destruct Htw as [H1 [H2 H3]]. cbn [fst snd] in *. subst r2 raws2.
    exists k2. split; [|split; [exact H3|split]].
    2:{ eapply (read_batch_twin_queue C WATCHDOG_ALL M' HM); [exact K0 | reflexivity | exact Hrt | exact HrdF]. }
    2:{ eapply (read_batch_junk C); [|exact Hrd]. intros e []. }
    f_equal. f_equal.
    unfold C'. rewrite group_batch_with_mask. cbn [with_mask c_recursive c_root].
    (* the raws have kernel-shaped masks *)
    assert (Hsh : Forall (fun x => kshaped (r_mask x)) raws).
    { destruct (read_batch_masks _ _ _ _ _ _ _ _ _ Hrd) as [new [E Hn]]. cbn [app] in E. subst new.
      eapply Forall_impl; [|exact Hn]. intros x [[e [He ->]]|Hx]; [|apply sim_raw_shaped; exact Hx].
      assert (QS : qshaped kU).
      { apply kernel_op_shaped. intros e0 He0. left. apply J. exact He0. }
      apply QS. exact He. }
    rewrite (group_batch_handed C M' (kmask_events F rec) (kmask_nodir F rec) whole_kmask raws Hsh).
    rewrite emit_all_f_none. apply emit_all_handed.
  Qed.
End Step.

(* ------------------------------------------------------------------ histories, every operation drained *)
(* A history of operations, each followed by one read of the whole kernel queue, grouping and the emission of
   every item (the regime of the two-watch oracle).  An operation whose system call fails is skipped; a reader
   crash ends the run (None).  After the emitter has stopped (the root is gone) no watch is left in the kernel
   model, so nothing more is queued on either side. *)
Fixpoint run_seq (F : option (list evbase)) (C : cfg) (full_events : bool) (w : world) (k : kst) (r : rstate)
    (ops : list op) : option (list nevent) :=
  match ops with
  | [] => Some []
  | o :: rest =>
    match apply_op w o with
    | None => run_seq F C full_events w k r rest
    | Some _ =>
      match run_one F C full_events w k r o with
      | None => None
      | Some (w1, k1, r1, evs) => option_map (app evs) (run_seq F C full_events w1 k1 r1 rest)
      end
    end
  end.

(* from Inotify.__init__ on the initial file system *)
Definition run_from (F : option (list evbase)) (C : cfg) (full_events : bool) (w : world) (ops : list op)
  : option (list nevent) :=
  match construct C kinit (w_fs w) with
  | None => None
  | Some (r, k) => run_seq F C full_events w k r ops
  end.

(* [regular_step] at every operation of the UNFILTERED run (nothing here speaks about the filtered watch except the
   mask in the guard) *)
Fixpoint regular (F : option (list evbase)) (C : cfg) (full_events : bool) (w : world) (k : kst) (r : rstate)
    (ops : list op) : Prop :=
  match ops with
  | [] => True
  | o :: rest =>
    match apply_op w o with
    | None => regular F C full_events w k r rest
    | Some _ =>
      regular_step F C w k r o /\
      match run_one None C full_events w k r o with
      | Some (w1, k1, r1, _) => regular F C full_events w1 k1 r1 rest
      | None => True
      end
    end
  end.

Definition regular_from (F : option (list evbase)) (C : cfg) (full_events : bool) (w : world) (ops : list op) : Prop :=
  match construct C kinit (w_fs w) with
  | None => True
  | Some (r, k) => regular F C full_events w k r ops
  end.

(* ---- an executable check of [regular] (for concrete histories) *)
Fixpoint nodupb (l : list kraw) : bool :=
  match l with [] => true | a :: l' => negb (existsb (kraw_eqb a) l') && nodupb l' end.

Lemma nodupb_sound l : nodupb l = true -> NoDup (map kkey l).
Proof.
  induction l as [|a l IH]; simpl; intros H; [constructor|]. apply andb_true_iff in H as [H1 H2].
  constructor; [|exact (IH H2)]. intros Hin. apply in_map_iff in Hin as [x [Hx Hin]].
  apply negb_true_iff in H1. assert (E : existsb (kraw_eqb a) l = true); [|congruence].
  apply existsb_exists. exists x. split; [exact Hin|]. apply kraw_eqb_key. now symmetry.
Qed.

Definition regular_stepb (F : option (list evbase)) (C : cfg) (w : world) (k : kst) (r : rstate) (o : op) : bool :=
  nodupb (k_queue k) && nodupb (k_queue (kernel_op k (w_fs w) o)) &&
  guardedb C (kkeep (kmask F (c_recursive C))) (pending_of C r) (k_queue (kernel_op k (w_fs w) o)).

Fixpoint regularb (F : option (list evbase)) (C : cfg) (full_events : bool) (w : world) (k : kst) (r : rstate)
    (ops : list op) : bool :=
  match ops with
  | [] => true
  | o :: rest =>
    match apply_op w o with
    | None => regularb F C full_events w k r rest
    | Some _ =>
      regular_stepb F C w k r o &&
      match run_one None C full_events w k r o with
      | Some (w1, k1, r1, _) => regularb F C full_events w1 k1 r1 rest
      | None => true
      end
    end
  end.

Lemma regularb_sound F C full ops : forall w k r, regularb F C full w k r ops = true -> regular F C full w k r ops.
Proof.
  induction ops as [|o ops IH]; intros w k r H; cbn [regular regularb] in *; [exact I|].
  destruct (apply_op w o); [|apply IH; exact H].
  apply andb_true_iff in H as [H1 H2]. unfold regular_stepb in H1.
  apply andb_true_iff in H1 as [H1 H13]. apply andb_true_iff in H1 as [H11 H12]. split.
  - split; [apply nodupb_sound; exact H11|]. split; [apply nodupb_sound; exact H12 | exact H13].
  - destruct (run_one None C full w k r o) as [[[[w1 k1] r1] e1]|]; [apply IH; exact H2 | exact I].
Qed.

Definition regular_fromb (F : option (list evbase)) (C : cfg) (full_events : bool) (w : world) (ops : list op) : bool :=
  match construct C kinit (w_fs w) with
  | None => true
  | Some (r, k) => regularb F C full_events w k r ops
  end.

Lemma regular_fromb_sound F C full w ops : regular_fromb F C full w ops = true -> regular_from F C full w ops.
Proof.
  unfold regular_fromb, regular_from. destruct (construct C kinit (w_fs w)) as [[r k]|]; [apply regularb_sound | intros _; exact I].
Qed.

(* no candidate is ever remembered along the run (no directory leaves or moves inside the tree): regular for EVERY filter *)
Lemma guarded_never C keep b : forallb (fun e => negb (sets_pend C (k_mask e))) b = true -> guardedb C keep false b = true.
Proof.
  induction b as [|e b IH]; [reflexivity|]. cbn [forallb guardedb]. intros H. apply andb_true_iff in H as [H1 H2].
  apply negb_true_iff in H1. rewrite H1. exact (IH H2).
Qed.

Fixpoint calmb (C : cfg) (full_events : bool) (w : world) (k : kst) (r : rstate) (ops : list op) : bool :=
  match ops with
  | [] => true
  | o :: rest =>
    match apply_op w o with
    | None => calmb C full_events w k r rest
    | Some _ =>
      nodupb (k_queue k) && nodupb (k_queue (kernel_op k (w_fs w) o)) && negb (pending_of C r) &&
      forallb (fun e => negb (sets_pend C (k_mask e))) (k_queue (kernel_op k (w_fs w) o)) &&
      match run_one None C full_events w k r o with
      | Some (w1, k1, r1, _) => calmb C full_events w1 k1 r1 rest
      | None => true
      end
    end
  end.

Lemma calmb_sound F C full ops : forall w k r, calmb C full w k r ops = true -> regular F C full w k r ops.
Proof.
  induction ops as [|o ops IH]; intros w k r H; cbn [regular calmb] in *; [exact I|].
  destruct (apply_op w o); [|apply IH; exact H].
  apply andb_true_iff in H as [H H5]. apply andb_true_iff in H as [H H4]. apply andb_true_iff in H as [H H3].
  apply andb_true_iff in H as [H1 H2]. apply negb_true_iff in H3. split.
  - split; [apply nodupb_sound; exact H1|]. split; [apply nodupb_sound; exact H2|].
    rewrite H3. apply guarded_never. exact H4.
  - destruct (run_one None C full w k r o) as [[[[w1 k1] r1] e1]|]; [apply IH; exact H5 | exact I].
Qed.

Definition calm_fromb (C : cfg) (full_events : bool) (w : world) (ops : list op) : bool :=
  match construct C kinit (w_fs w) with
  | None => true
  | Some (r, k) => calmb C full_events w k r ops
  end.

Lemma calm_fromb_sound F C full w ops : calm_fromb C full w ops = true -> regular_from F C full w ops.
Proof.
  unfold calm_fromb, regular_from. destruct (construct C kinit (w_fs w)) as [[r k]|]; [apply calmb_sound | intros _; exact I].
Qed.

Theorem transparent_seq F C full (HM : c_mask C = WATCHDOG_ALL) (Hvis : visible F (c_recursive C)) ops :
  forall w k k' r evs,
    kw0 WATCHDOG_ALL (kmask F (c_recursive C)) k k' -> k_queue k = k_queue k' -> qjunk k -> regular F C full w k r ops ->
    run_seq None C full w k r ops = Some evs ->
    run_seq F (with_mask C (kmask F (c_recursive C))) full w k' r ops = Some (filter (acc F) evs).
Proof.
  induction ops as [|o ops IH]; intros w k k' r evs K Q J R H; cbn [run_seq regular] in *.
  - inversion H; subst. reflexivity.
  - destruct (apply_op w o) eqn:Ea; [|eapply IH; eassumption].
    destruct R as [R0 R].
    destruct (run_one None C full w k r o) as [[[[w1 k1] r1] e1]|] eqn:E1; [|discriminate].
    destruct (transparent_step F C HM Hvis full w k k' r o w1 k1 r1 e1 K Q J R0 E1) as [k1' [E2 [K1 [Q1 J1]]]].
    rewrite E2.
    destruct (run_seq None C full w1 k1 r1 ops) as [e2|] eqn:E3; [|discriminate].
    cbn [option_map] in H. inversion H; subst evs.
    rewrite (IH w1 k1 k1' r1 e2 K1 Q1 J1 R E3). cbn [option_map]. now rewrite filter_app.
Qed.

Lemma construct_queue C t r k : construct C kinit t = Some (r, k) -> k_queue k = [].
Proof.
  unfold construct. destruct (fisdir (c_root C) t); [|discriminate].
  destruct (add_watch C rinit0 kinit t (c_root C)) as [[[r1 k1] wd]|] eqn:Ea; [|discriminate].
  apply add_watch_queue in Ea. destruct (c_recursive C); [|intros H; inversion H; subst; exact Ea].
  generalize (walk_dirs t (c_root C)). intros ps. revert r1 k1 Ea.
  induction ps as [|p ps IH]; intros r1 k1 Ea H; [inversion H; subst; exact Ea|].
  destruct (add_watch C r1 k1 t p) as [[[r2 k2] wd2]|] eqn:Ea2; [|discriminate].
  apply (IH r2 k2); [|exact H]. apply add_watch_queue in Ea2. congruence.
Qed.

Theorem transparent_from F C full (HM : c_mask C = WATCHDOG_ALL) (Hvis : visible F (c_recursive C)) w ops evs :
  regular_from F C full w ops ->
  run_from None C full w ops = Some evs ->
  run_from F (with_mask C (kmask F (c_recursive C))) full w ops = Some (filter (acc F) evs).
Proof.
  unfold run_from, regular_from. intros R H.
  pose proof (construct_twin C WATCHDOG_ALL (kmask F (c_recursive C)) HM (w_fs w)) as T.
  destruct (construct C kinit (w_fs w)) as [[r k]|] eqn:Ec; [|discriminate].
  destruct (construct (with_mask C (kmask F (c_recursive C))) kinit (w_fs w)) as [[r' k']|] eqn:Ec'; [|contradiction].
  destruct T as [<- K]. eapply transparent_seq; try eassumption.
  - rewrite (construct_queue _ _ _ _ Ec), (construct_queue _ _ _ _ Ec'). reflexivity.
  - intros e He. rewrite (construct_queue _ _ _ _ Ec) in He. destruct He.
Qed.
