(* C11 on the histories of C02's sequential theorem: the hypothesis tidy_from of the C11 history theorems is discharged
   by the cover invariant (TidyCoverProofs.tidy_from_covered).  The cover invariant speaks about the UNFILTERED watch
   (mask WATCHDOG_ALL), which is the run tidy_from is about. *)
Require Import WD.Base.Prelude WD.Base.BStr WD.Model.SubEvents WD.Model.Emitter WD.Model.MaskTable WD.Model.Fs WD.Model.Reader
               WD.Model.Contract.
Require WD.Proofs.CoverProofs WD.Proofs.CoverOutProofs WD.Proofs.TidyCoverProofs.
Require Import WD.Proofs.C11Proofs WD.Proofs.C11TwinProofs WD.Proofs.C11SeqProofs WD.Proofs.C11FlatProofs WD.Proofs.C11LagProofs
               WD.Proofs.C11StutterProofs.
Local Open Scope N_scope.

(* a history of C02's sequential theorem (CoverOutProofs.cover_from_start_x): no injected fault, a well-formed initial
   file system in which the watched root is a directory, and only covered operations and directory move-outs, the
   operation after a move-out producing a record for the unfiltered watch (CoverOutProofs.ops_x) *)
Definition covered_hist (C : cfg) (w : world) (ops : list op) : Prop :=
  c_faults C = [] /\ CoverProofs.wf_fs w /\ fisdir (c_root C) (w_fs w) = true /\ CoverOutProofs.ops_x C w None ops.

Lemma covered_hist_def C w ops : covered_hist C w ops <->
  (c_faults C = [] /\ CoverProofs.wf_fs w /\ fisdir (c_root C) (w_fs w) = true /\ CoverOutProofs.ops_x C w None ops).
Proof. unfold covered_hist. tauto. Qed.

Lemma covered_tidy C full w ops : c_mask C = WATCHDOG_ALL -> c_fix_moveout C = true -> covered_hist C w ops ->
  tidy_from C full w ops.
Proof. intros HM Hfix (Hf & W & Hr & Hx). now apply TidyCoverProofs.tidy_from_covered. Qed.

Theorem transparent_from_covered F C full :
  c_mask C = WATCHDOG_ALL -> visible F (c_recursive C) ->
  forall w ops evs,
    (c_recursive C = true -> c_fix_moveout C = true -> covered_hist C w ops) ->
    run_from None C full w ops = Some evs ->
    run_from F (with_mask C (kmask F (c_recursive C))) full w ops = Some (filter (acc F) evs).
Proof.
  intros HM Hvis w ops evs Hc H. apply transparent_from_vis; try assumption.
  intros Hrec Hfix. apply covered_tidy; auto.
Qed.

Theorem transparent_from_all_covered F C full :
  c_mask C = WATCHDOG_ALL -> c_root C <> [] -> last_is_sep (c_root C) = false ->
  forall w ops evs, Forall op_ok ops ->
    (c_recursive C = true -> c_fix_moveout C = true -> covered_hist C w ops) ->
    run_from None C full w ops = Some evs ->
    run_from F (with_mask C (kmask F (c_recursive C))) full w ops = Some (filter (acc F) evs).
Proof.
  intros HM R1 R2 w ops evs Hops Hc H. apply transparent_from_all; try assumption.
  intros Hrec Hfix. apply covered_tidy; auto.
Qed.

Theorem handler_sequential_covered F C full :
  c_mask C = WATCHDOG_ALL -> c_root C <> [] -> last_is_sep (c_root C) = false ->
  forall w ops evsU, Forall op_ok ops ->
    (c_recursive C = true -> c_fix_moveout C = true -> covered_hist C w ops) ->
    run_from None C full w ops = Some evsU ->
    exists evsF, run_from F (with_mask C (kmask F (c_recursive C))) full w ops = Some evsF /\
      forall keptU keptF, skips None evsU keptU -> skips None evsF keptF ->
        stutter_eq keptF (filter (acc F) keptU).
Proof.
  intros HM R1 R2 w ops evsU Hops Hc H. apply handler_sequential; try assumption.
  intros Hrec Hfix. apply covered_tidy; auto.
Qed.

(* paced_drained with the tidy clause replaced by "the history is one of C02's" (for the recursive configuration) *)
Definition paced_covered (h : dhist) : Prop :=
  c_mask (dh_cfg h) = WATCHDOG_ALL /\ c_root (dh_cfg h) <> [] /\ last_is_sep (c_root (dh_cfg h)) = false /\
  Forall op_ok (dh_ops h) /\
  (forall full recursive, run_from None (with_rec (dh_cfg h) recursive) full (dh_world h) (dh_ops h) <> None) /\
  (c_fix_moveout (dh_cfg h) = true -> covered_hist (with_rec (dh_cfg h) true) (dh_world h) (dh_ops h)).

Lemma paced_covered_def h : paced_covered h <->
  (c_mask (dh_cfg h) = WATCHDOG_ALL /\ c_root (dh_cfg h) <> [] /\ last_is_sep (c_root (dh_cfg h)) = false /\
   Forall op_ok (dh_ops h) /\
   (forall full recursive, run_from None (with_rec (dh_cfg h) recursive) full (dh_world h) (dh_ops h) <> None) /\
   (c_fix_moveout (dh_cfg h) = true -> covered_hist (with_rec (dh_cfg h) true) (dh_world h) (dh_ops h))).
Proof. unfold paced_covered. tauto. Qed.

Lemma paced_covered_drained h : paced_covered h -> paced_drained h.
Proof.
  intros (HM & R1 & R2 & Hops & Hrun & Hc). repeat (split; [assumption|]).
  intros Hfix full. apply covered_tidy; [exact HM | exact Hfix | exact (Hc Hfix)].
Qed.

Theorem full_drained_covered (F : option (list evbase)) (full_events recursive : bool) (h : dhist) :
  paced_covered h ->
  stutter_eq (events_drained F full_events recursive h)
             (filter (fun e => accepts F (ev_cls e)) (events_drained None full_events recursive h)).
Proof. intros H. apply full_drained. now apply paced_covered_drained. Qed.

(* ------------------------------------------------------------------ a covered history that lags *)
(* CoverProofs.w0 = /s/R (watched, empty), /s/O/d/e; recursive watch of /s/R, current code (CoverOutProofs.cfgo true):
   mkdir R/b; touch R/f; mv R/b O/x (a directory leaves the tree); write R/f (IN_MODIFY: the unfiltered reader forgets
   R/b here, a watch whose mask has no IN_MODIFY is not sent the record and lags); mkdir R/b; rmdir R/b *)
Import CoverProofs CoverOutProofs.
Definition lag_ops : list op :=
  [Mkdir (sub pR 98); Touch (sub pR 102); Rename (sub pR 98) (sub pO 120); Write (sub pR 102); Mkdir (sub pR 98);
   Rmdir (sub pR 98)].

Lemma lag_ops_x : ops_x (cfgo true) w0 None lag_ops.
Proof.
  assert (GR : gpath pR) by (split; [discriminate | reflexivity]).
  assert (GO : gpath pO) by (split; [discriminate | reflexivity]).
  assert (Na : forall n, valid_name [n] = true -> npath (sub pR n)) by (intros; now apply npath_sub).
  assert (No : forall n, valid_name [n] = true -> npath (sub pO n)) by (intros; now apply npath_sub).
  assert (NS : forall p, ~ scope (cfgo true) (sub pO p)) by (intros p [H|H]; vm_compute in H; discriminate).
  unfold lag_ops.
  eapply ops_x_cons; [vm_compute; reflexivity | apply cx_op, co_mkdir; now apply Na |].
  eapply ops_x_cons; [vm_compute; reflexivity | apply cx_op, co_quiet; [exact I | now apply Na] |].
  eapply ops_x_cons; [vm_compute; reflexivity | |].
  { eapply cx_out; try (now apply Na); try (now apply No); try reflexivity; try (vm_compute; reflexivity);
      try (right; vm_compute; reflexivity); try (vm_compute; discriminate). apply NS. }
  vm_compute hot_next.
  eapply ops_x_cons; [vm_compute; reflexivity | |].
  { split; [apply co_quiet; [exact I | now apply Na]|]. split.
    - exists pR. split; [now left|]. split; [now left | reflexivity].
    - intros d [<-|[]]. vm_compute. reflexivity. }
  vm_compute hot_next.
  eapply ops_x_cons; [vm_compute; reflexivity | apply cx_op, co_mkdir; now apply Na |].
  eapply ops_x_cons; [vm_compute; reflexivity | apply cx_op, co_rmdir; [now apply Na | vm_compute; discriminate] |].
  exact I.
Qed.

Lemma lag_covered : covered_hist (cfgo true) w0 lag_ops.
Proof. split; [reflexivity|]. split; [exact w0_wf|]. split; [vm_compute; reflexivity | exact lag_ops_x]. Qed.

Lemma lag_paced_covered : paced_covered {| dh_cfg := cfgo true; dh_world := w0; dh_ops := lag_ops |}.
Proof.
  split; [reflexivity|]. split; [discriminate|]. split; [reflexivity|]. split; [repeat constructor|]. split.
  - intros full recursive. destruct full, recursive; vm_compute; discriminate.
  - intros _. exact lag_covered.
Qed.
