"""./check driver: proof build + audit, correspondence + oracle, verdict, evidence."""
from __future__ import annotations

import argparse
import importlib
import json
import os
import sys
import time
import traceback

from harness import core
from harness.core import Ctx, Failure, Result

COMMON_TRUSTED = [
    "Coq 8.16.1 kernel (coqc); coqchk as second checker in the thorough tier; no native_compute; vm_compute only in Examples, *_refuted witnesses and stated-bound finite sweeps",
    "extraction: Require ExtrOcamlBasic only (its Extract Inductive bool/option/unit/list/prod/sumbool/sumor and Extract Inlined Constant directives as shipped); nat/N/Z/positive stay Coq inductives; OCaml 4.13.1 compiler; ocaml/driver.ml, sexp.ml, conv.ml and the per-model m_*.ml glue (correspondence only, no theorem depends on them)",
    "correspondence harness in Python (generators, canonicalisation, diff): samples, does not prove",
]


def run_property(prop: str, tier: str, seed: int, replay: str | None) -> int:
    t0 = time.time()
    ctx = Ctx(prop=prop, tier=tier, seed=seed)
    mod = importlib.import_module(f"harness.props.{prop.lower()}")
    if replay:
        case = json.loads(open(replay).read())
        return mod.replay(ctx, case)
    build_ok, build_log = core.build_coq(clean=False)
    ps = core.audit(prop, build_ok, build_log, thorough=(tier == "thorough"))
    rok, rlog = core.build_runner()
    known = core.load_known()
    res = Result()
    runner_problem = None
    if not rok:
        runner_problem = "model runner does not build: " + rlog[-800:]
    else:
        try:
            res = mod.run(ctx)
        except Exception:
            runner_problem = "check crashed: " + traceback.format_exc()[-1500:]
    unknown, knowns = [], []
    for f in res.failures:
        k = core.match_known(prop, f, known)
        (knowns if k else unknown).append((f, k))
    need_search = (not ps.ok) or bool(res.mismatches) or bool(runner_problem)
    if not unknown and need_search and rok and not runner_problem:
        # failure search: deeper generators on the implementation, plus model witnesses
        try:
            sres = mod.run(Ctx(prop=prop, tier=tier, seed=seed, search=True))
            for f in sres.failures:
                k = core.match_known(prop, f, known)
                if not k:
                    unknown.append((f, None))
            res.notes.append(f"failure search ran: {sres.evaluations} evaluations, {len(sres.failures)} oracle failures")
        except Exception:
            res.notes.append("failure search crashed: " + traceback.format_exc()[-500:])
    rc = 0
    seen_known = set()
    for f, k in knowns:
        if k["id"] not in seen_known:
            seen_known.add(k["id"])
            print(f"KNOWN-FINDING: property={prop} {k['what']}")
    if unknown:
        f = unknown[0][0]
        path = core.write_replay(prop, {
            "property": prop, "kind": "failing-input", "what": f.what, "case": f.case,
            "observed": f.observed, "expected": f.expected, "signature": f.signature,
            "rerun": f"./check {prop} --replay <this file>", "others": len(unknown) - 1,
        })
        print(f"VIOLATION property={prop} replay={path}")
        rc = 1
    elif need_search:
        obj = {"property": prop, "kind": "no-failing-input-found"}
        if not ps.ok:
            obj["proof_problems"] = ps.problems
            obj["theorems_not_checked"] = ps.theorems or [f"Props/{prop}.v"]
            obj["build_log_tail"] = ps.log_tail
        if res.mismatches:
            m = res.mismatches[0]
            obj["correspondence_pair"] = m.pair
            obj["first_disagreement"] = {"case": m.case, "model": m.model, "impl": m.impl}
            obj["disagreements"] = len(res.mismatches)
        if runner_problem:
            obj["harness_problem"] = runner_problem
        path = core.write_replay(prop, obj)
        print(f"VIOLATION property={prop} replay={path} no-failing-input-found")
        rc = 1
    wall = time.time() - t0
    core.write_evidence(prop, ctx, ps, res, wall, len(unknown) + (1 if rc and not unknown else 0),
                        getattr(mod, "ASSUMPTIONS", []), COMMON_TRUSTED + getattr(mod, "TRUSTED", []))
    print(f"{prop} tier={tier} seed={seed} proof={'ok' if ps.ok else 'BROKEN'} obligations={ps.discharged}/{ps.obligations} "
          f"evaluations={res.evaluations} nontrivial={len(res.nontrivial)} mismatches={len(res.mismatches)} "
          f"failures={len(res.failures)} known={len(knowns)} wall={wall:.1f}s rc={rc}")
    return rc


def main() -> int:
    ap = argparse.ArgumentParser()
    ap.add_argument("prop", nargs="?")
    ap.add_argument("--tier", default=os.environ.get("VERIF_TIER", "quick"), choices=["quick", "thorough"])
    ap.add_argument("--replay")
    ap.add_argument("--setup", action="store_true")
    ap.add_argument("--clean", action="store_true")
    a = ap.parse_args()
    seed = int(os.environ.get("VERIF_SEED", "0") or 0)
    if a.setup:
        ok, log = core.build_coq(clean=a.clean)
        print(log[-3000:])
        rok, rlog = core.build_runner()
        print(rlog[-2000:])
        print("setup:", "coq ok" if ok else "COQ BUILD FAILED", "/", "runner ok" if rok else "RUNNER BUILD FAILED")
        return 0 if ok and rok else 1
    if not a.prop:
        ap.error("property id required")
    return run_property(a.prop.upper(), a.tier, seed, a.replay)


if __name__ == "__main__":
    sys.exit(main())
