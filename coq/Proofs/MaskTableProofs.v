(* C11: the mask table.  (1) the hand-written model of get_event_mask_from_filter equals the table
   regenerated from the source; (2) the TABLE LEMMA: every flag that matters for a filter is in the
   mask - a finite sweep (2 recursive settings x 13 classes x 16 flags) against the generated table,
   lifted to arbitrary filter lists; (3) the pinned table is refuted. *)
Require Import WD.Base.Prelude WD.Base.BStr WD.Model.SubEvents WD.Model.Emitter WD.Model.MaskTable.
Require Import WD.Gen.MaskTableGen.

(* ------------------------------------------------------------------ bit lemmas *)
Lemma flag_in_spec b m : flag_in b m = true <-> N.land m b = b.
Proof. unfold flag_in. apply N.eqb_eq. Qed.

Lemma land_lor_absorb b x : N.lor b (N.land x b) = b.
Proof.
  apply N.bits_inj. intros n. rewrite N.lor_spec, N.land_spec.
  destruct (N.testbit b n), (N.testbit x n); reflexivity.
Qed.

Lemma flag_in_lor_l b m x : flag_in b m = true -> flag_in b (N.lor m x) = true.
Proof.
  rewrite !flag_in_spec. intros H. rewrite N.land_lor_distr_l, H. apply land_lor_absorb.
Qed.

Lemma flag_in_lor_r b m x : flag_in b x = true -> flag_in b (N.lor m x) = true.
Proof. intros H. rewrite N.lor_comm. apply flag_in_lor_l. exact H. Qed.

(* a flag outside what was delivered is not carried by the event *)
Lemma not_has_of_flag_in M m b :
  flag_in b M = true -> flag_in b IN_ALL_EVENTS = true -> delivered M m = false -> has m b = false.
Proof.
  unfold delivered, has. rewrite !flag_in_spec. intros HM HA HD.
  apply N.ltb_ge in HD. apply N.le_0_r in HD.
  apply N.ltb_ge. apply N.le_0_r.
  assert (E : N.land (N.land m (N.land M IN_ALL_EVENTS)) b
              = N.land m (N.land (N.land M b) (N.land IN_ALL_EVENTS b))).
  { apply N.bits_inj. intros n. rewrite !N.land_spec.
    destruct (N.testbit m n), (N.testbit M n), (N.testbit IN_ALL_EVENTS n), (N.testbit b n); reflexivity. }
  rewrite HM, HA, N.land_diag in E. rewrite <- E, HD. apply N.land_0_l.
Qed.

(* ------------------------------------------------------------------ finite class list *)
Lemma all_classes_complete c : In c all_classes.
Proof. destruct c; simpl; tauto. Qed.

Lemma all_bases_complete c : In c all_bases.
Proof.
  destruct c as [| |c]; [left; reflexivity | right; left; reflexivity |].
  right; right. apply in_map. apply all_classes_complete.
Qed.

Lemma all_bases_length : length all_bases = 13 /\ length all_flags = 16.
Proof. split; reflexivity. Qed.

(* ------------------------------------------------------------------ (1) model = generated table *)
(* The constants of the model are those of InotifyConstants in the source. *)
Lemma gen_constants_agree :
  [Gen.IN_ACCESS; Gen.IN_MODIFY; Gen.IN_ATTRIB; Gen.IN_CLOSE_WRITE; Gen.IN_CLOSE_NOWRITE; Gen.IN_OPEN;
   Gen.IN_MOVED_FROM; Gen.IN_MOVED_TO; Gen.IN_CREATE; Gen.IN_DELETE; Gen.IN_DELETE_SELF; Gen.IN_MOVE_SELF;
   Gen.IN_UNMOUNT; Gen.IN_Q_OVERFLOW; Gen.IN_IGNORED; Gen.IN_ISDIR]
  = all_flags
  /\ Gen.IN_MOVE = IN_MOVE /\ Gen.IN_ALL_EVENTS = IN_ALL_EVENTS /\ Gen.IN_DONT_FOLLOW = IN_DONT_FOLLOW
  /\ Gen.WATCHDOG_ALL_EVENTS = WATCHDOG_ALL_EVENTS.
Proof. vm_compute. repeat split. Qed.

(* `event_mask |= X` only sets bits: one loop iteration ors a class-dependent constant into the mask *)
Lemma mask_step_lor m c : mask_step m c = N.lor m (mask_step 0 c).
Proof.
  unfold mask_step.
  repeat match goal with |- context [if ?t then _ else _] => destruct t end;
    rewrite ?N.lor_0_l, ?N.lor_0_r, <- ?N.lor_assoc; reflexivity.
Qed.

(* finite: 13 classes *)
Lemma mask1_sweep : forallb (fun c => N.eqb (mask_step 0 c) (Gen.mask1 c)) all_bases = true.
Proof. vm_compute. reflexivity. Qed.

Lemma mask1_gen c : mask_step 0 c = Gen.mask1 c.
Proof.
  apply N.eqb_eq. pose proof mask1_sweep as H. rewrite forallb_forall in H.
  apply H. apply all_bases_complete.
Qed.

Lemma init_gen recursive : mask_init recursive = Gen.init_mask recursive.
Proof. destruct recursive; vm_compute; reflexivity. Qed.

Lemma fold_step_gen l m :
  fold_left mask_step l m = fold_left (fun m cls => N.lor m (Gen.mask1 cls)) l m.
Proof.
  revert m; induction l as [|c l IH]; intros m; simpl; [reflexivity|].
  rewrite mask_step_lor, mask1_gen. apply IH.
Qed.

Lemma mask_of_filter_eq_gen recursive F : mask_of_filter recursive F = Gen.mask_of_filter_gen recursive F.
Proof.
  destruct F as [l|]; simpl; [|reflexivity].
  rewrite fold_step_gen, init_gen. reflexivity.
Qed.

(* ------------------------------------------------------------------ fold / lor lemmas *)
Section Fold.
  Variable g : evbase -> N.
  Let step := fun (m : N) (c : evbase) => N.lor m (g c).

  Lemma fold_lor_init l m : fold_left step l m = N.lor m (fold_left step l 0%N).
  Proof.
    revert m; induction l as [|c l IH]; intros m; cbn [fold_left].
    - now rewrite N.lor_0_r.
    - rewrite (IH (step m c)), (IH (step 0%N c)). unfold step. rewrite N.lor_0_l, N.lor_assoc. reflexivity.
  Qed.

  Lemma fold_lor_app l1 l2 m :
    fold_left step (l1 ++ l2) m = N.lor (fold_left step l1 m) (fold_left step l2 0%N).
  Proof. rewrite fold_left_app. apply fold_lor_init. Qed.

  Lemma fold_lor_keeps b l m : flag_in b m = true -> flag_in b (fold_left step l m) = true.
  Proof. intros H. rewrite fold_lor_init. apply flag_in_lor_l. exact H. Qed.

  Lemma fold_lor_member b c l m :
    In c l -> flag_in b (N.lor m (g c)) = true -> flag_in b (fold_left step l m) = true.
  Proof.
    revert m; induction l as [|x l IH]; intros m Hin Hb; [destruct Hin|].
    simpl. destruct Hin as [->|Hin].
    - apply fold_lor_keeps. exact Hb.
    - apply IH; [exact Hin|].
      unfold step. rewrite <- N.lor_assoc, (N.lor_comm (g x)), N.lor_assoc.
      apply flag_in_lor_l. exact Hb.
  Qed.
End Fold.

(* `mask_of_filter (F1 ++ F2) = lor ...` *)
Lemma mask_of_filter_app recursive l1 l2 :
  mask_of_filter recursive (Some (l1 ++ l2))
  = Some (N.lor (effective_mask (mask_of_filter recursive (Some l1)))
                (effective_mask (mask_of_filter false (Some l2)))).
Proof.
  rewrite !mask_of_filter_eq_gen. unfold Gen.mask_of_filter_gen, effective_mask. f_equal.
  rewrite (fold_lor_app Gen.mask1).
  rewrite (fold_lor_init Gen.mask1 l2 (Gen.init_mask false)).
  rewrite (fold_lor_init Gen.mask1 l1 (Gen.init_mask recursive)).
  assert (Hi : N.lor (Gen.init_mask recursive) (Gen.init_mask false) = Gen.init_mask recursive).
  { rewrite <- !init_gen. destruct recursive; vm_compute; reflexivity. }
  rewrite <- Hi at 1.
  apply N.bits_inj. intros n. rewrite !N.lor_spec.
  destruct (N.testbit (Gen.init_mask recursive) n), (N.testbit (Gen.init_mask false) n),
    (N.testbit (fold_left (fun m cls => N.lor m (Gen.mask1 cls)) l1 0%N) n),
    (N.testbit (fold_left (fun m cls => N.lor m (Gen.mask1 cls)) l2 0%N) n); reflexivity.
Qed.

(* ------------------------------------------------------------------ (2) the table lemma *)
(* which flags matter for a list = those that matter for the empty filter or for one of its classes *)
Lemma accepts_some_exists l c : accepts (Some l) c = true <-> exists f, In f l /\ subclass c f = true.
Proof. simpl. rewrite existsb_exists. reflexivity. Qed.

Lemma contributes_member l recursive b :
  contributes (Some l) recursive b = true -> exists f, In f l /\ contributes (Some [f]) recursive b = true.
Proof.
  unfold contributes. rewrite existsb_exists. intros [c [Hc H]].
  apply andb_true_iff in H as [Ha Hp]. apply accepts_some_exists in Ha as [f [Hf Hs]].
  exists f. split; [exact Hf|]. apply existsb_exists. exists c. split; [exact Hc|].
  apply andb_true_iff. split; [|exact Hp]. simpl. now rewrite Hs.
Qed.

Lemma needed_for_member l recursive b :
  In b (needed_for (Some l) recursive) ->
  In b (needed_for (Some []) recursive) \/ exists f, In f l /\ In b (needed_for (Some [f]) recursive).
Proof.
  unfold needed_for. intros [H|H]; [left; left; exact H|].
  apply in_app_or in H as [H|H]; [left; right; apply in_or_app; left; exact H|].
  apply filter_In in H as [Hb H].
  assert (K : forall f, In f l ->
              (if N.eqb b IN_MOVED_FROM || N.eqb b IN_MOVED_TO
               then contributes (Some [f]) recursive IN_MOVED_FROM || contributes (Some [f]) recursive IN_MOVED_TO
               else contributes (Some [f]) recursive b) = true ->
              exists f, In f l /\ In b (IN_DELETE_SELF
                :: (if recursive then [IN_CREATE; IN_MOVED_FROM; IN_MOVED_TO] else [])
                ++ filter (fun b => if N.eqb b IN_MOVED_FROM || N.eqb b IN_MOVED_TO
                                    then contributes (Some [f]) recursive IN_MOVED_FROM
                                         || contributes (Some [f]) recursive IN_MOVED_TO
                                    else contributes (Some [f]) recursive b) all_flags)).
  { intros f Hf Hc. exists f. split; [exact Hf|]. right. apply in_or_app. right.
    apply filter_In. split; assumption. }
  right. destruct (N.eqb b IN_MOVED_FROM || N.eqb b IN_MOVED_TO) eqn:E.
  - apply orb_true_iff in H as [H|H]; apply contributes_member in H as [f [Hf Hc]];
      apply (K f Hf); rewrite Hc; [reflexivity | apply orb_true_r].
  - apply contributes_member in H as [f [Hf Hc]]. apply (K f Hf). exact Hc.
Qed.

(* THE FINITE SWEEP, against the table generated from the source:
   2 recursive settings x (the empty filter + 13 classes) x the <= 16 flags that matter. *)
Definition table_ok_for (recursive : bool) (l : list evbase) : bool :=
  forallb (fun b => flag_set b (Gen.mask_of_filter_gen recursive (Some l))) (needed_for (Some l) recursive).

Lemma table_sweep :
  forallb (fun recursive =>
             table_ok_for recursive [] && forallb (fun c => table_ok_for recursive [c]) all_bases)
          [false; true] = true.
Proof. vm_compute. reflexivity. Qed.

Lemma table_sweep_nofilter :
  forallb (fun recursive => forallb (fun b => flag_set b None) (needed_for None recursive)) [false; true] = true.
Proof. vm_compute. reflexivity. Qed.

Lemma table_single recursive :
  (forall b, In b (needed_for (Some []) recursive) -> flag_in b (Gen.init_mask recursive) = true) /\
  (forall c b, In b (needed_for (Some [c]) recursive) ->
               flag_in b (N.lor (Gen.init_mask recursive) (Gen.mask1 c)) = true).
Proof.
  pose proof table_sweep as H. rewrite forallb_forall in H.
  assert (Hr : In recursive [false; true]) by (destruct recursive; simpl; tauto).
  specialize (H recursive Hr). apply andb_true_iff in H as [H0 H1]. split.
  - intros b Hb. unfold table_ok_for in H0. rewrite forallb_forall in H0. apply (H0 b Hb).
  - intros c b Hb. rewrite forallb_forall in H1. specialize (H1 c (all_bases_complete c)).
    unfold table_ok_for in H1. rewrite forallb_forall in H1. apply (H1 b Hb).
Qed.

(* TABLE LEMMA for the table in the source, arbitrary filter lists *)
Lemma table_lemma_gen F recursive b :
  In b (needed_for F recursive) -> flag_set b (Gen.mask_of_filter_gen recursive F) = true.
Proof.
  destruct F as [l|].
  - intros Hb. unfold flag_set. simpl.
    destruct (table_single recursive) as [T0 T1].
    apply needed_for_member in Hb as [Hb | [f [Hf Hb]]].
    + apply fold_lor_keeps. apply T0. exact Hb.
    + apply (fold_lor_member _ b f); [exact Hf|]. apply T1. exact Hb.
  - intros Hb. pose proof table_sweep_nofilter as H. rewrite forallb_forall in H.
    assert (Hr : In recursive [false; true]) by (destruct recursive; simpl; tauto).
    specialize (H recursive Hr). rewrite forallb_forall in H. apply (H b Hb).
Qed.

Lemma table_lemma F recursive b :
  In b (needed_for F recursive) -> flag_set b (mask_of_filter recursive F) = true.
Proof. rewrite mask_of_filter_eq_gen. apply table_lemma_gen. Qed.

(* every flag that matters is a user-space event bit (so `delivered` is decided by it) *)
Lemma needed_is_event_bit F recursive b : In b (needed_for F recursive) -> flag_in b IN_ALL_EVENTS = true.
Proof.
  unfold needed_for. intros [<-|H]; [reflexivity|].
  apply in_app_or in H as [H|H].
  - destruct recursive; simpl in H; [|contradiction].
    destruct H as [<-|[<-|[<-|[]]]]; reflexivity.
  - apply filter_In in H as [Hb H].
    (* contributing flags: finite check over the 16 flags with the filter that accepts everything *)
    assert (A : forall r b', In b' all_flags -> contributes None r b' = true -> flag_in b' IN_ALL_EVENTS = true).
    { intros r b' Hb' Hc.
      assert (S : forallb (fun r => forallb (fun x => implb (contributes None r x) (flag_in x IN_ALL_EVENTS))
                                            all_flags) [false; true] = true) by (vm_compute; reflexivity).
      rewrite forallb_forall in S.
      assert (Hr : In r [false; true]) by (destruct r; simpl; tauto).
      specialize (S r Hr). rewrite forallb_forall in S. specialize (S b' Hb'). rewrite Hc in S. exact S. }
    assert (Mono : forall r b', contributes F r b' = true -> contributes None r b' = true).
    { intros r b'. unfold contributes. rewrite !existsb_exists. intros [c [Hc Hx]].
      exists c. split; [exact Hc|]. apply andb_true_iff in Hx as [_ Hp]. simpl. exact Hp. }
    destruct (N.eqb b IN_MOVED_FROM || N.eqb b IN_MOVED_TO) eqn:E.
    + apply orb_true_iff in E as [E|E]; apply N.eqb_eq in E; subst b; reflexivity.
    + apply (A recursive b Hb). apply Mono. exact H.
Qed.

(* ------------------------------------------------------------------ (3) the pinned table *)
Lemma table_refuted_pinned_move_out :
  In IN_MOVED_FROM (needed_for (Some [Concrete FileDeleted]) false) /\
  flag_set IN_MOVED_FROM (mask_of_filter_pinned false (Some [Concrete FileDeleted])) = false.
Proof. vm_compute. split; [tauto | reflexivity]. Qed.

Lemma table_refuted_pinned_new_directory :
  In IN_CREATE (needed_for (Some [Concrete FileDeleted]) true) /\
  flag_set IN_CREATE (mask_of_filter_pinned true (Some [Concrete FileDeleted])) = false.
Proof. vm_compute. split; [tauto | reflexivity]. Qed.

Lemma table_refuted_pinned_base_class :
  In IN_MODIFY (needed_for (Some [AnyEvent]) false) /\
  flag_set IN_MODIFY (mask_of_filter_pinned false (Some [AnyEvent])) = false /\
  In IN_MOVED_TO (needed_for (Some [AnyMoved]) false) /\
  flag_set IN_MOVED_TO (mask_of_filter_pinned false (Some [AnyMoved])) = false /\
  mask_of_filter_pinned false (Some [AnyEvent]) = Some IN_DELETE_SELF.
Proof. vm_compute. repeat split; tauto. Qed.

Lemma table_refuted_pinned_dirmodified_delete :
  In IN_DELETE (needed_for (Some [Concrete DirModified]) false) /\
  flag_set IN_DELETE (mask_of_filter_pinned false (Some [Concrete DirModified])) = false.
Proof. vm_compute. split; [tauto | reflexivity]. Qed.

Lemma table_refuted_pinned :
  exists F recursive b, In b (needed_for F recursive) /\ flag_set b (mask_of_filter_pinned recursive F) = false.
Proof.
  exists (Some [Concrete FileDeleted]), false, IN_MOVED_FROM. apply table_refuted_pinned_move_out.
Qed.

(* ------------------------------------------------------------------ the two halves of a move *)
Lemma flag_in_pow2 k m : flag_in (2 ^ k)%N m = N.testbit m k.
Proof.
  unfold flag_in.
  assert (E : N.land m (2 ^ k)%N = if N.testbit m k then (2 ^ k)%N else 0%N).
  { apply N.bits_inj. intros n. rewrite N.land_spec, N.pow2_bits_eqb.
    destruct (N.eqb k n) eqn:Ekn.
    - apply N.eqb_eq in Ekn. subst n. rewrite andb_true_r. destruct (N.testbit m k) eqn:T.
      + now rewrite N.pow2_bits_eqb, N.eqb_refl.
      + now rewrite N.bits_0.
    - rewrite andb_false_r. destruct (N.testbit m k).
      + now rewrite N.pow2_bits_eqb, Ekn.
      + now rewrite N.bits_0. }
  rewrite E. destruct (N.testbit m k).
  - apply N.eqb_refl.
  - apply N.eqb_neq. intros H. symmetry in H. apply N.pow_nonzero in H; [exact H | discriminate].
Qed.

Lemma testbit_fold_lor g l m k :
  N.testbit (fold_left (fun m c => N.lor m (g c)) l m) k
  = N.testbit m k || existsb (fun c : evbase => N.testbit (g c) k) l.
Proof.
  revert m; induction l as [|c l IH]; intros m; simpl.
  - now rewrite orb_false_r.
  - rewrite IH, N.lor_spec, orb_assoc. reflexivity.
Qed.

(* finite: 13 classes, 2 initial masks, the no-filter mask *)
Lemma move_whole_sweep :
  forallb (fun c => Bool.eqb (N.testbit (Gen.mask1 c) 6%N) (N.testbit (Gen.mask1 c) 7%N)) all_bases
  && forallb (fun r => Bool.eqb (N.testbit (Gen.init_mask r) 6%N) (N.testbit (Gen.init_mask r) 7%N)) [false; true]
  && Bool.eqb (N.testbit WATCHDOG_ALL_EVENTS 6%N) (N.testbit WATCHDOG_ALL_EVENTS 7%N) = true.
Proof. vm_compute. reflexivity. Qed.

(* IN_MOVED_FROM is asked for exactly when IN_MOVED_TO is: a paired move is never split by the mask *)
Lemma mask_move_whole recursive F :
  flag_set IN_MOVED_FROM (mask_of_filter recursive F) = flag_set IN_MOVED_TO (mask_of_filter recursive F).
Proof.
  pose proof move_whole_sweep as S. apply andb_true_iff in S as [S S3]. apply andb_true_iff in S as [S1 S2].
  rewrite forallb_forall in S1, S2.
  unfold flag_set. change IN_MOVED_FROM with (2 ^ 6)%N. change IN_MOVED_TO with (2 ^ 7)%N.
  rewrite !flag_in_pow2. rewrite mask_of_filter_eq_gen.
  destruct F as [l|]; simpl.
  - rewrite !testbit_fold_lor. f_equal.
    + apply Bool.eqb_prop. apply S2. destruct recursive; simpl; tauto.
    + induction l as [|c l IH]; [reflexivity|]. simpl. rewrite IH. f_equal.
      apply Bool.eqb_prop. apply S1. apply all_bases_complete.
  - apply Bool.eqb_prop. exact S3.
Qed.

(* the pinned table splits moves for no class, but drops them where they matter *)
Lemma pinned_drops_needed_move :
  delivered (effective_mask (mask_of_filter_pinned false (Some [Concrete FileDeleted]))) IN_MOVED_FROM = false.
Proof. vm_compute. reflexivity. Qed.
