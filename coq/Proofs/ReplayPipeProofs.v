(* C01 on the Pipeline model: one block  AOp o; ARead (whole queue); ATick delay; AEmit ...  from an idle pipeline,
   through DelayQueue and Grouping, by C03's pipeline tie. *)
Require Import WD.Base.Prelude WD.Base.BStr WD.Model.SubEvents WD.Model.Emitter WD.Model.Fs WD.Model.Reader
               WD.Model.DelayQueue WD.Model.Grouping WD.Model.Pipeline WD.Model.Contract.
Require Import WD.Proofs.ContractProofs WD.Proofs.TieProofs WD.Proofs.CoverProofs WD.Proofs.ReplayProofs.

Theorem replay_block P s o w' t0 :
  let C := pc_reader P in
  c_faults C = [] -> c_mask C = WATCHDOG_ALL -> pc_filter P = None ->
  buffer_idle (p_buf s) -> p_stopped s = false -> (forall id, In id (map fst (p_tbl s)) -> (id < p_next s)%N) ->
  RSync C (p_world s) (p_k s) (p_r s) -> c01_op C (p_world s) o -> apply_op (p_world s) o = Some w' ->
  TInv (c_recursive C) (c_root C) (replay (c_recursive C) (c_root C) t0 (p_out s)) (p_world s) ->
  exists nit s' obs, prun P s (tie_history P s o nit) [] = Done (s', obs) /\
    TInv (c_recursive C) (c_root C) (replay (c_recursive C) (c_root C) t0 (p_out s')) w'.
Proof.
  intros C Hf Hm HF Hidle Hst Hfresh S Ho Ha T.
  destruct (replay_step C (pc_full P) (p_world s) (p_k s) (p_r s) o w' _ Hf Hm S Ho Ha T)
    as (r' & k' & raws & Hrd & S' & Hdel & T').
  destruct (pipeline_tie_holds P s o _ HF Hidle Hst (rs_queue _ _ _ _ S) Hfresh Hdel) as (nit & s' & obs & Hrun & Hout).
  exists nit, s', obs. split; [exact Hrun|]. rewrite Hout. unfold replay in *. now rewrite fold_left_app.
Qed.

(* ================================================================== sequences of blocks on the Pipeline model *)
Require Import WD.Proofs.TieStrongProofs.

Lemma prun_acc P h : forall s acc, prun P s h acc =
  match prun P s h [] with Done (s', o) => Done (s', acc ++ o) | Crash c => Crash c end.
Proof.
  induction h as [|a h IH]; intros s acc; cbn [prun]; [now rewrite app_nil_r|].
  destruct (pstep P s a) as [[s1 ob]|c]; [|reflexivity]. rewrite (IH s1 (acc ++ [ob])), (IH s1 ([] ++ [ob])).
  destruct (prun P s1 h []) as [[s' o]|c]; [|reflexivity]. now rewrite <- app_assoc.
Qed.

Lemma prun_app P h1 h2 : forall s acc, prun P s (h1 ++ h2) acc =
  match prun P s h1 acc with Done (s1, acc1) => prun P s1 h2 acc1 | Crash c => Crash c end.
Proof.
  induction h1 as [|a h1 IH]; intros s acc; cbn [app prun]; [reflexivity|].
  destruct (pstep P s a) as [[s1 ob]|c]; [apply IH | reflexivity].
Qed.

(* the pipeline is synchronised and idle: reader/kernel invariant of C02, nothing buffered, reader thread and emitter alive *)
Record PSync (P : pcfg) (s : pstate) : Prop := {
  ps_sync : RSync (pc_reader P) (p_world s) (p_k s) (p_r s);
  ps_idle : buffer_idle (p_buf s);
  ps_alive : p_stopped s = false;
  ps_tbl : forall id, In id (map fst (p_tbl s)) -> (id < p_next s)%N
}.

(* the history built from a list of operations: one block per applicable operation *)
Inductive block_hist (P : pcfg) : pstate -> list op -> list action -> Prop :=
| bh_nil s : block_hist P s [] []
| bh_skip s o ops h : apply_op (p_world s) o = None -> block_hist P s ops h -> block_hist P s (o :: ops) (AOp o :: h)
| bh_step s o ops h nit s1 obs1 w' : apply_op (p_world s) o = Some w' ->
    prun P s (tie_history P s o nit) [] = Done (s1, obs1) -> block_hist P s1 ops h ->
    block_hist P s (o :: ops) (tie_history P s o nit ++ h).

(* one block: C02 (covered_op) *)
Theorem block_sync P s o w' : let C := pc_reader P in
  c_faults C = [] -> mask_ok C -> pc_filter P = None -> PSync P s -> covered_op C (p_world s) o ->
  apply_op (p_world s) o = Some w' ->
  exists nit s' obs raws, prun P s (tie_history P s o nit) [] = Done (s', obs) /\ PSync P s' /\ p_world s' = w' /\
    p_out s' = p_out s ++ delivered C (pc_full P) w' raws /\
    deliver_one C (pc_full P) (p_world s) (p_k s) (p_r s) o = Some (delivered C (pc_full P) w' raws).
Proof.
  intros C Hf M HF [S Hidle Hal Htbl] Ho Ha.
  destruct (cover_step_safe C Hf (p_world s) (p_k s) (p_r s) o w' M S Ho Ha) as (r' & k' & raws & Hrd & S' & Hsafe).
  assert (Hrd' : read_batch (pc_reader P) (w_fs w') (p_r s, kdrained (kernel_op (p_k s) (w_fs (p_world s)) o), [])
                   (k_queue (kernel_op (p_k s) (w_fs (p_world s)) o)) = Done (r', k', raws)) by exact Hrd.
  destruct (tie_strong P s o w' r' k' raws HF Hidle Hal Htbl Ha Hrd' Hsafe)
    as (nit & s' & obs & Hrun & Hout & E1 & E2 & E3 & Hidle' & Hal' & Htbl').
  exists nit, s', obs, raws. split; [exact Hrun|]. split; [|split; [exact E1|split; [exact Hout|]]].
  - constructor; try assumption. now rewrite E1, E2, E3.
  - unfold deliver_one. rewrite Ha. fold C in Hrd'. now rewrite Hrd'.
Qed.

(* sequences of blocks: C02 *)
Theorem blocks_cover P : let C := pc_reader P in
  c_faults C = [] -> mask_ok C -> pc_filter P = None ->
  forall ops s, PSync P s -> ops_covered C (p_world s) ops ->
  exists h s' obs, block_hist P s ops h /\ prun P s h [] = Done (s', obs) /\ PSync P s' /\
    Cover C (w_fs (p_world s')) (p_k s') (p_r s').
Proof.
  intros C Hf M HF. induction ops as [|o ops IH]; intros s S Hc; cbn [ops_covered] in Hc.
  - exists [], s, []. split; [constructor|]. split; [reflexivity|]. split; [exact S|]. apply (ps_sync _ _ S).
  - destruct (apply_op (p_world s) o) as [w'|] eqn:Ea.
    + destruct Hc as [Ho Hc].
      destruct (block_sync P s o w' Hf M HF S Ho Ea) as (nit & s1 & obs1 & raws & Hrun & S1 & E1 & _).
      rewrite <- E1 in Hc. destruct (IH s1 S1 Hc) as (h & s' & obs & Hh & Hr & S' & Cv).
      exists (tie_history P s o nit ++ h), s', (obs1 ++ obs). split; [eapply bh_step; eassumption|].
      split; [|split; assumption]. rewrite prun_app, Hrun, prun_acc, Hr. reflexivity.
    + destruct (IH s S Hc) as (h & s' & obs & Hh & Hr & S' & Cv).
      exists (AOp o :: h), s', (OSkip :: obs). split; [now apply bh_skip|]. split; [|split; assumption].
      cbn [prun pstep]. rewrite Ea. rewrite prun_acc, Hr. reflexivity.
Qed.

(* sequences of blocks: C01 *)
Theorem blocks_replay P t0 : let C := pc_reader P in
  c_faults C = [] -> c_mask C = WATCHDOG_ALL -> pc_filter P = None ->
  forall ops s, PSync P s -> ops_c01 C (p_world s) ops ->
  TInv (c_recursive C) (c_root C) (replay (c_recursive C) (c_root C) t0 (p_out s)) (p_world s) ->
  exists h s' obs, block_hist P s ops h /\ prun P s h [] = Done (s', obs) /\ PSync P s' /\
    TInv (c_recursive C) (c_root C) (replay (c_recursive C) (c_root C) t0 (p_out s')) (p_world s').
Proof.
  intros C Hf Hm HF.
  assert (M : mask_ok C) by (unfold mask_ok; rewrite Hm; repeat split; vm_compute; discriminate).
  induction ops as [|o ops IH]; intros s S Hc T; cbn [ops_c01] in Hc.
  - exists [], s, []. split; [constructor|]. split; [reflexivity|]. split; assumption.
  - destruct (apply_op (p_world s) o) as [w'|] eqn:Ea.
    + destruct Hc as [Ho Hc].
      destruct (block_sync P s o w' Hf M HF S (c01_op_covered _ _ _ Ho) Ea) as (nit & s1 & obs1 & raws & Hrun & S1 & E1 & Hout & Hdel).
      destruct (replay_step C (pc_full P) (p_world s) (p_k s) (p_r s) o w' _ Hf Hm (ps_sync _ _ S) Ho Ea T)
        as (r' & k' & raws' & _ & _ & Hdel' & T').
      assert (Eev : delivered C (pc_full P) w' raws = delivered C (pc_full P) w' raws') by (unfold C in *; congruence).
      assert (T1 : TInv (c_recursive C) (c_root C) (replay (c_recursive C) (c_root C) t0 (p_out s1)) (p_world s1)).
      { rewrite E1, Hout. fold C. rewrite Eev. unfold replay in *. now rewrite fold_left_app. }
      rewrite <- E1 in Hc. destruct (IH s1 S1 Hc T1) as (h & s' & obs & Hh & Hr & S' & T2).
      exists (tie_history P s o nit ++ h), s', (obs1 ++ obs). split; [eapply bh_step; eassumption|].
      split; [|split; assumption]. rewrite prun_app, Hrun, prun_acc, Hr. reflexivity.
    + destruct (IH s S Hc T) as (h & s' & obs & Hh & Hr & S' & T').
      exists (AOp o :: h), s', (OSkip :: obs). split; [now apply bh_skip|]. split; [|split; assumption].
      cbn [prun pstep]. rewrite Ea. rewrite prun_acc, Hr. reflexivity.
Qed.

(* the state right after Inotify.__init__ is synchronised and idle *)
Lemma pinit_sync P w s0 : c_faults (pc_reader P) = [] -> wf_fs w -> fisdir (c_root (pc_reader P)) (w_fs w) = true ->
  pinit P w = Some s0 -> PSync P s0 /\ p_world s0 = w /\ p_out s0 = [].
Proof.
  intros Hf W Hroot Hi. unfold pinit in Hi.
  destruct (construct_cover (pc_reader P) Hf w W Hroot) as (r0 & k0 & Hc & I & Cv & Hq & _ & Hp0). rewrite Hc in Hi.
  injection Hi as <-. cbn. split; [|split; reflexivity]. constructor; cbn.
  - constructor; try assumption. now apply fisdir_in.
  - unfold buffer_idle, ginit, DelayQueue.init, rinit. cbn. repeat split. intros id [].
  - reflexivity.
  - intros id [].
Qed.

Theorem replay_pipeline_from_start P ops w s0 : let C := pc_reader P in
  c_faults C = [] -> c_mask C = WATCHDOG_ALL -> pc_filter P = None -> wf_fs w -> fisdir (c_root C) (w_fs w) = true ->
  pinit P w = Some s0 -> ops_c01 C w ops ->
  exists h s' obs, block_hist P s0 ops h /\ prun P s0 h [] = Done (s', obs) /\ PSync P s' /\
    forall x, alookup beqb x (replay (c_recursive C) (c_root C) (tree_of (c_recursive C) (c_root C) w) (p_out s'))
            = alookup beqb x (tree_of (c_recursive C) (c_root C) (p_world s')).
Proof.
  intros C Hf Hm HF W Hroot Hi Hc. destruct (pinit_sync P w s0 Hf W Hroot Hi) as (S0 & Ew & Eo).
  rewrite <- Ew in Hc.
  destruct (blocks_replay P (tree_of (c_recursive C) (c_root C) w) Hf Hm HF ops s0 S0 Hc) as (h & s' & obs & Hh & Hr & S' & T).
  { rewrite Eo, Ew. cbn. now apply TInv_init. }
  exists h, s', obs. split; [exact Hh|]. split; [exact Hr|]. split; [exact S'|]. now apply TInv_tree_eq.
Qed.

(* executable: run one block per operation with a fixed number of AEmit calls (for the computed examples) *)
Fixpoint run_blocks (P : pcfg) (nit : nat) (s : pstate) (ops : list op) : option pstate :=
  match ops with
  | [] => Some s
  | o :: ops' => match prun P s (tie_history P s o nit) [] with
                 | Done (s', _) => run_blocks P nit s' ops'
                 | Crash _ => None
                 end
  end.

(* ================================================================== blocks past directory move-outs (repair of F10) *)
Require Import WD.Proofs.CoverOutProofs.

(* the pipeline is idle and the reader is synchronised up to junk / has a move-out candidate pending (hot) *)
Record PSx (P : pcfg) (s : pstate) (hot : option bytes) : Prop := {
  px_sync : GS (pc_reader P) (p_world s) (p_k s) (p_r s) hot;
  px_idle : buffer_idle (p_buf s);
  px_alive : p_stopped s = false;
  px_tbl : forall id, In id (map fst (p_tbl s)) -> (id < p_next s)%N
}.

Theorem block_x P s hot o w' : let C := pc_reader P in
  c_faults C = [] -> c_fix_moveout C = true -> c_mask C = WATCHDOG_ALL -> pc_filter P = None ->
  PSx P s hot -> step_ok C (p_world s) hot o -> apply_op (p_world s) o = Some w' ->
  exists nit s' obs raws, prun P s (tie_history P s o nit) [] = Done (s', obs) /\
    PSx P s' (hot_next C (p_world s) hot o) /\ p_world s' = w' /\
    p_out s' = p_out s ++ delivered C (pc_full P) w' raws /\
    read_batch C (w_fs w') (p_r s, drainq (kernel_op (p_k s) (w_fs (p_world s)) o), [])
               (k_queue (kernel_op (p_k s) (w_fs (p_world s)) o)) = Done (p_r s', p_k s', raws).
Proof.
  intros C Hf Hmo Hm HF [G Hidle Hal Htbl] Hs Ha.
  destruct (gs_step C Hf Hmo (p_world s) (p_k s) (p_r s) hot o w' Hm G Hs Ha) as (r' & k' & raws & Hrd & G' & Hsafe).
  assert (Hrd' : read_batch (pc_reader P) (w_fs w') (p_r s, kdrained (kernel_op (p_k s) (w_fs (p_world s)) o), [])
                   (k_queue (kernel_op (p_k s) (w_fs (p_world s)) o)) = Done (r', k', raws)) by exact Hrd.
  destruct (tie_strong P s o w' r' k' raws HF Hidle Hal Htbl Ha Hrd' Hsafe)
    as (nit & s' & obs & Hrun & Hout & E1 & E2 & E3 & Hidle' & Hal' & Htbl').
  exists nit, s', obs, raws. split; [exact Hrun|]. split; [|split; [exact E1|split; [exact Hout|]]].
  - constructor; try assumption. now rewrite E1, E2, E3.
  - rewrite E2, E3. exact Hrd.
Qed.

Inductive block_hist_x (P : pcfg) : pstate -> list op -> list action -> Prop :=
| bx_nil s : block_hist_x P s [] []
| bx_skip s o ops h : apply_op (p_world s) o = None -> block_hist_x P s ops h -> block_hist_x P s (o :: ops) (AOp o :: h)
| bx_step s o ops h nit s1 obs1 w' : apply_op (p_world s) o = Some w' ->
    prun P s (tie_history P s o nit) [] = Done (s1, obs1) -> block_hist_x P s1 ops h ->
    block_hist_x P s (o :: ops) (tie_history P s o nit ++ h).

Theorem blocks_cover_x P : let C := pc_reader P in
  c_faults C = [] -> c_fix_moveout C = true -> c_mask C = WATCHDOG_ALL -> pc_filter P = None ->
  forall ops s hot, PSx P s hot -> ops_x C (p_world s) hot ops ->
  exists h s' obs hot', block_hist_x P s ops h /\ prun P s h [] = Done (s', obs) /\ PSx P s' hot' /\
    Cover C (w_fs (p_world s')) (p_k s') (p_r s').
Proof.
  intros C Hf Hmo Hm HF. induction ops as [|o ops IH]; intros s hot S Hc; cbn [ops_x] in Hc.
  - exists [], s, [], hot. split; [constructor|]. split; [reflexivity|]. split; [exact S|].
    eapply GS_cover. exact (px_sync _ _ _ S).
  - destruct (apply_op (p_world s) o) as [w'|] eqn:Ea.
    + destruct Hc as [Hs Hc].
      destruct (block_x P s hot o w' Hf Hmo Hm HF S Hs Ea) as (nit & s1 & obs1 & raws & Hrun & S1 & E1 & _).
      rewrite <- E1 in Hc. destruct (IH s1 _ S1 Hc) as (h & s' & obs & hot' & Hh & Hr & S' & Cv).
      exists (tie_history P s o nit ++ h), s', (obs1 ++ obs), hot'. split; [eapply bx_step; eassumption|].
      split; [|split; assumption]. rewrite prun_app, Hrun, prun_acc, Hr. reflexivity.
    + destruct (IH s hot S Hc) as (h & s' & obs & hot' & Hh & Hr & S' & Cv).
      exists (AOp o :: h), s', (OSkip :: obs), hot'. split; [now apply bx_skip|]. split; [|split; assumption].
      cbn [prun pstep]. rewrite Ea. rewrite prun_acc, Hr. reflexivity.
Qed.

Lemma pinit_psx P w s0 : c_faults (pc_reader P) = [] -> c_fix_moveout (pc_reader P) = true -> wf_fs w ->
  fisdir (c_root (pc_reader P)) (w_fs w) = true -> pinit P w = Some s0 -> PSx P s0 None /\ p_world s0 = w /\ p_out s0 = [].
Proof.
  intros Hf Hmo W Hroot Hi. destruct (pinit_sync P w s0 Hf W Hroot Hi) as ([S Hidle Hal Htbl] & Ew & Eo).
  split; [|now split]. constructor; try assumption. cbn [GS]. now apply RSync_JSync.
Qed.

(* ================================================================== C01 on blocks past directory move-outs *)
Require Import WD.Proofs.ReplayOutProofs.

Theorem blocks_replay_x P t0 : let C := pc_reader P in
  c_faults C = [] -> c_fix_moveout C = true -> c_mask C = WATCHDOG_ALL -> pc_filter P = None ->
  forall ops s hot, PSx P s hot -> ops_x1 C (p_world s) hot ops ->
  TInv (c_recursive C) (c_root C) (replay (c_recursive C) (c_root C) t0 (p_out s)) (p_world s) ->
  exists h s' obs hot', block_hist_x P s ops h /\ prun P s h [] = Done (s', obs) /\ PSx P s' hot' /\
    TInv (c_recursive C) (c_root C) (replay (c_recursive C) (c_root C) t0 (p_out s')) (p_world s').
Proof.
  intros C Hf Hmo Hm HF. induction ops as [|o ops IH]; intros s hot S Hc T; cbn [ops_x1] in Hc.
  - exists [], s, [], hot. split; [constructor|]. split; [reflexivity|]. split; assumption.
  - destruct (apply_op (p_world s) o) as [w'|] eqn:Ea.
    + destruct Hc as [Hs Hc].
      destruct (block_x P s hot o w' Hf Hmo Hm HF S (step_ok1_ok C _ _ _ Hs) Ea) as (nit & s1 & obs1 & raws & Hrun & S1 & E1 & Hout & Hrd).
      destruct (gs_replay_step C (pc_full P) Hf Hmo Hm (p_world s) (p_k s) (p_r s) hot o w' _ (px_sync _ _ _ S) Hs Ea T)
        as (r' & k' & raws' & Hrd' & _ & _ & T').
      fold C in Hrd. rewrite Hrd in Hrd'. injection Hrd' as _ _ <-.
      assert (T1 : TInv (c_recursive C) (c_root C) (replay (c_recursive C) (c_root C) t0 (p_out s1)) (p_world s1)).
      { rewrite E1, Hout. unfold replay in *. now rewrite fold_left_app. }
      rewrite <- E1 in Hc. destruct (IH s1 _ S1 Hc T1) as (h & s' & obs & hot' & Hh & Hr & S' & T2).
      exists (tie_history P s o nit ++ h), s', (obs1 ++ obs), hot'. split; [eapply bx_step; eassumption|].
      split; [|split; assumption]. rewrite prun_app, Hrun, prun_acc, Hr. reflexivity.
    + destruct (IH s hot S Hc T) as (h & s' & obs & hot' & Hh & Hr & S' & T').
      exists (AOp o :: h), s', (OSkip :: obs), hot'. split; [now apply bx_skip|]. split; [|split; assumption].
      cbn [prun pstep]. rewrite Ea. rewrite prun_acc, Hr. reflexivity.
Qed.

Theorem replay_pipeline_from_start_x P ops w s0 : let C := pc_reader P in
  c_faults C = [] -> c_fix_moveout C = true -> c_mask C = WATCHDOG_ALL -> pc_filter P = None -> wf_fs w ->
  fisdir (c_root C) (w_fs w) = true -> pinit P w = Some s0 -> ops_x1 C w None ops ->
  exists h s' obs hot', block_hist_x P s0 ops h /\ prun P s0 h [] = Done (s', obs) /\ PSx P s' hot' /\
    forall x, alookup beqb x (replay (c_recursive C) (c_root C) (tree_of (c_recursive C) (c_root C) w) (p_out s'))
            = alookup beqb x (tree_of (c_recursive C) (c_root C) (p_world s')).
Proof.
  intros C Hf Hmo Hm HF W Hroot Hi Hc. destruct (pinit_psx P w s0 Hf Hmo W Hroot Hi) as (S0 & Ew & Eo).
  rewrite <- Ew in Hc.
  destruct (blocks_replay_x P (tree_of (c_recursive C) (c_root C) w) Hf Hmo Hm HF ops s0 None S0 Hc) as (h & s' & obs & hot' & Hh & Hr & S' & T).
  { rewrite Eo, Ew. cbn. now apply TInv_init. }
  exists h, s', obs, hot'. split; [exact Hh|]. split; [exact Hr|]. split; [exact S'|]. now apply TInv_tree_eq.
Qed.

(* ================================================================== blocks: directory move-outs back to back (C02) *)
Record PSx2 (P : pcfg) (s : pstate) (hot : option bytes) : Prop := {
  px2_sync : GS2 (pc_reader P) (p_world s) (p_k s) (p_r s) hot;
  px2_idle : buffer_idle (p_buf s);
  px2_alive : p_stopped s = false;
  px2_tbl : forall id, In id (map fst (p_tbl s)) -> (id < p_next s)%N
}.

Lemma PSx_PSx2 P s hot : PSx P s hot -> PSx2 P s hot.
Proof. intros [G A B D]. constructor; try assumption. now apply GS_GS2. Qed.

Theorem block_x2 P s hot o w' : let C := pc_reader P in
  c_faults C = [] -> c_fix_moveout C = true -> c_mask C = WATCHDOG_ALL -> pc_filter P = None ->
  PSx2 P s hot -> step_ok2 C (p_world s) hot o -> apply_op (p_world s) o = Some w' ->
  exists nit s' obs raws, prun P s (tie_history P s o nit) [] = Done (s', obs) /\
    PSx2 P s' (is_dir_out C (p_world s) o) /\ p_world s' = w' /\
    p_out s' = p_out s ++ delivered C (pc_full P) w' raws /\
    read_batch C (w_fs w') (p_r s, drainq (kernel_op (p_k s) (w_fs (p_world s)) o), [])
               (k_queue (kernel_op (p_k s) (w_fs (p_world s)) o)) = Done (p_r s', p_k s', raws).
Proof.
  intros C Hf Hmo Hm HF [G Hidle Hal Htbl] Hs Ha.
  destruct (gs2_step C Hf Hmo (p_world s) (p_k s) (p_r s) hot o w' Hm G Hs Ha) as (r' & k' & raws & Hrd & G' & Hsafe).
  assert (Hrd' : read_batch (pc_reader P) (w_fs w') (p_r s, kdrained (kernel_op (p_k s) (w_fs (p_world s)) o), [])
                   (k_queue (kernel_op (p_k s) (w_fs (p_world s)) o)) = Done (r', k', raws)) by exact Hrd.
  destruct (tie_strong P s o w' r' k' raws HF Hidle Hal Htbl Ha Hrd' Hsafe)
    as (nit & s' & obs & Hrun & Hout & E1 & E2 & E3 & Hidle' & Hal' & Htbl').
  exists nit, s', obs, raws. split; [exact Hrun|]. split; [|split; [exact E1|split; [exact Hout|]]].
  - constructor; try assumption. now rewrite E1, E2, E3.
  - rewrite E2, E3. exact Hrd.
Qed.

Theorem blocks_cover_x2 P : let C := pc_reader P in
  c_faults C = [] -> c_fix_moveout C = true -> c_mask C = WATCHDOG_ALL -> pc_filter P = None ->
  forall ops s hot, PSx2 P s hot -> ops_x2 C (p_world s) hot ops ->
  exists h s' obs hot', block_hist_x P s ops h /\ prun P s h [] = Done (s', obs) /\ PSx2 P s' hot' /\
    Cover C (w_fs (p_world s')) (p_k s') (p_r s').
Proof.
  intros C Hf Hmo Hm HF. induction ops as [|o ops IH]; intros s hot S Hc; cbn [ops_x2] in Hc.
  - exists [], s, [], hot. split; [constructor|]. split; [reflexivity|]. split; [exact S|].
    eapply GS2_cover. exact (px2_sync _ _ _ S).
  - destruct (apply_op (p_world s) o) as [w'|] eqn:Ea.
    + destruct Hc as [Hs Hc].
      destruct (block_x2 P s hot o w' Hf Hmo Hm HF S Hs Ea) as (nit & s1 & obs1 & raws & Hrun & S1 & E1 & _).
      rewrite <- E1 in Hc. destruct (IH s1 _ S1 Hc) as (h & s' & obs & hot' & Hh & Hr & S' & Cv).
      exists (tie_history P s o nit ++ h), s', (obs1 ++ obs), hot'. split; [eapply bx_step; eassumption|].
      split; [|split; assumption]. rewrite prun_app, Hrun, prun_acc, Hr. reflexivity.
    + destruct (IH s hot S Hc) as (h & s' & obs & hot' & Hh & Hr & S' & Cv).
      exists (AOp o :: h), s', (OSkip :: obs), hot'. split; [now apply bx_skip|]. split; [|split; assumption].
      cbn [prun pstep]. rewrite Ea. rewrite prun_acc, Hr. reflexivity.
Qed.

Lemma pinit_psx2 P w s0 : c_faults (pc_reader P) = [] -> c_fix_moveout (pc_reader P) = true -> wf_fs w ->
  fisdir (c_root (pc_reader P)) (w_fs w) = true -> pinit P w = Some s0 -> PSx2 P s0 None /\ p_world s0 = w /\ p_out s0 = [].
Proof.
  intros Hf Hmo W Hroot Hi. destruct (pinit_psx P w s0 Hf Hmo W Hroot Hi) as (S & Ew & Eo). split; [now apply PSx_PSx2 | now split].
Qed.

Theorem blocks_replay_x2 P t0 : let C := pc_reader P in
  c_faults C = [] -> c_fix_moveout C = true -> c_mask C = WATCHDOG_ALL -> pc_filter P = None ->
  forall ops s hot, PSx2 P s hot -> ops_x12 C (p_world s) hot ops ->
  TInv (c_recursive C) (c_root C) (replay (c_recursive C) (c_root C) t0 (p_out s)) (p_world s) ->
  exists h s' obs hot', block_hist_x P s ops h /\ prun P s h [] = Done (s', obs) /\ PSx2 P s' hot' /\
    TInv (c_recursive C) (c_root C) (replay (c_recursive C) (c_root C) t0 (p_out s')) (p_world s').
Proof.
  intros C Hf Hmo Hm HF. induction ops as [|o ops IH]; intros s hot S Hc T; cbn [ops_x12] in Hc.
  - exists [], s, [], hot. split; [constructor|]. split; [reflexivity|]. split; assumption.
  - destruct (apply_op (p_world s) o) as [w'|] eqn:Ea.
    + destruct Hc as [Hs Hc].
      destruct (block_x2 P s hot o w' Hf Hmo Hm HF S (step_ok12_ok C _ _ _ Hs) Ea) as (nit & s1 & obs1 & raws & Hrun & S1 & E1 & Hout & Hrd).
      destruct (gs2_replay_step C (pc_full P) Hf Hmo Hm (p_world s) (p_k s) (p_r s) hot o w' _ (px2_sync _ _ _ S) Hs Ea T)
        as (r' & k' & raws' & Hrd' & _ & _ & T').
      fold C in Hrd. rewrite Hrd in Hrd'. injection Hrd' as _ _ <-.
      assert (T1 : TInv (c_recursive C) (c_root C) (replay (c_recursive C) (c_root C) t0 (p_out s1)) (p_world s1)).
      { rewrite E1, Hout. unfold replay in *. now rewrite fold_left_app. }
      rewrite <- E1 in Hc. destruct (IH s1 _ S1 Hc T1) as (h & s' & obs & hot' & Hh & Hr & S' & T2).
      exists (tie_history P s o nit ++ h), s', (obs1 ++ obs), hot'. split; [eapply bx_step; eassumption|].
      split; [|split; assumption]. rewrite prun_app, Hrun, prun_acc, Hr. reflexivity.
    + destruct (IH s hot S Hc T) as (h & s' & obs & hot' & Hh & Hr & S' & T').
      exists (AOp o :: h), s', (OSkip :: obs), hot'. split; [now apply bx_skip|]. split; [|split; assumption].
      cbn [prun pstep]. rewrite Ea. rewrite prun_acc, Hr. reflexivity.
Qed.

Theorem replay_pipeline_from_start_x2 P ops w s0 : let C := pc_reader P in
  c_faults C = [] -> c_fix_moveout C = true -> c_mask C = WATCHDOG_ALL -> pc_filter P = None -> wf_fs w ->
  fisdir (c_root C) (w_fs w) = true -> pinit P w = Some s0 -> ops_x12 C w None ops ->
  exists h s' obs hot', block_hist_x P s0 ops h /\ prun P s0 h [] = Done (s', obs) /\ PSx2 P s' hot' /\
    forall x, alookup beqb x (replay (c_recursive C) (c_root C) (tree_of (c_recursive C) (c_root C) w) (p_out s'))
            = alookup beqb x (tree_of (c_recursive C) (c_root C) (p_world s')).
Proof.
  intros C Hf Hmo Hm HF W Hroot Hi Hc. destruct (pinit_psx2 P w s0 Hf Hmo W Hroot Hi) as (S0 & Ew & Eo).
  rewrite <- Ew in Hc.
  destruct (blocks_replay_x2 P (tree_of (c_recursive C) (c_root C) w) Hf Hmo Hm HF ops s0 None S0 Hc) as (h & s' & obs & hot' & Hh & Hr & S' & T).
  { rewrite Eo, Ew. cbn. now apply TInv_init. }
  exists h, s', obs, hot'. split; [exact Hh|]. split; [exact Hr|]. split; [exact S'|]. now apply TInv_tree_eq.
Qed.
