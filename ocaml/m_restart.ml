open Sexp
open Conv
(* case: (serial restart_on_exit kill_after (label ...))
   label: G = Trigger, T, (W i), C = StopCall, M, (X i), (K d), Tstar = run T to completion, Mstar, (Wstar i)
   result: (ok spawns alive max_alive returned (children...)) | (stuck i) *)
let run = function
  | L [se; roe; ka; L items] ->
    let se = bool_of se and roe = bool_of roe and ka = n_of ka in
    let step s l = Restart.rs_step se roe ka s l in
    let rec star s l n = if n = 0 then s else match step s l with Some s' -> star s' l (n - 1) | None -> s in
    let rec go i s = function
      | [] -> L [A "ok"; sx_nat s.Restart.spawns; sx_nat (Restart.alive_children s); sx_nat s.Restart.max_alive;
                 sx_bool (s.Restart.mpcs = Restart.MReturned); sx_list sx_bool s.Restart.children]
      | it :: rest ->
        let r = match it with
          | A "G" -> step s Restart.Trigger | A "T" -> step s Restart.TStep
          | L [A "W"; i] -> step s (Restart.WStep (nat_of i)) | A "C" -> step s Restart.StopCall
          | A "M" -> step s Restart.MStep | L [A "X"; i] -> step s (Restart.Exit (nat_of i))
          | L [A "K"; d] -> step s (Restart.Tick (n_of d))
          | A "Tstar" -> Some (star s Restart.TStep 40) | A "Mstar" -> Some (star s Restart.MStep 40)
          | L [A "Wstar"; i] -> Some (star s (Restart.WStep (nat_of i)) 40)
          | _ -> failwith "restart: bad label" in
        (match r with None -> L [A "stuck"; sx_int i] | Some s' -> go (i + 1) s' rest) in
    go 0 (Restart.init_state roe) items
  | _ -> failwith "restart: bad case"
