(* Proofs about the model of PollingEmitter (Model/Poll.v). *)
Require Import WD.Base.Prelude WD.Base.BStr WD.Model.Snapshot WD.Model.Walk WD.Model.Poll.
Require Import WD.Proofs.SnapshotProofs WD.Proofs.WalkProofs.
Require Import Coq.Sorting.Sorted.

(* ---------------------------------------------------------------- list lemmas *)

Lemma NoDup_app_disj {A} (l1 l2 : list A) :
  NoDup l1 -> NoDup l2 -> (forall x, In x l1 -> In x l2 -> False) -> NoDup (l1 ++ l2).
Proof.
  induction l1 as [|a l1 IH]; intros H1 H2 Hd; [exact H2|].
  inversion H1 as [|a' l' Hn H1']; subst. cbn [app]. constructor.
  - rewrite in_app_iff. intros [H | H]; [contradiction|].
    apply (Hd a); [left; reflexivity | exact H].
  - apply IH; [exact H1' | exact H2|]. intros x Hx. apply Hd. right. exact Hx.
Qed.

Lemma NoDup_map_inj {A B} (g : A -> B) (l : list A) :
  (forall x y, g x = g y -> x = y) -> NoDup l -> NoDup (map g l).
Proof.
  intros Hinj. induction 1 as [|a l Hn Hl IH]; cbn [map]; constructor; [|exact IH].
  intros H. apply in_map_iff in H as (y & E & Hy). apply Hinj in E. subst. contradiction.
Qed.

Lemma SS_app {A} (R : A -> A -> Prop) (l1 l2 : list A) :
  StronglySorted R l1 -> StronglySorted R l2 ->
  (forall x y, In x l1 -> In y l2 -> R x y) -> StronglySorted R (l1 ++ l2).
Proof.
  induction l1 as [|a l1 IH]; intros H1 H2 Hc; [exact H2|].
  apply StronglySorted_inv in H1 as [H1 Ha]. cbn [app]. constructor.
  - apply IH; [exact H1 | exact H2|]. intros x y Hx. apply Hc. right. exact Hx.
  - rewrite Forall_forall in *. intros y Hy. apply in_app_iff in Hy as [Hy | Hy].
    + apply Ha. exact Hy.
    + apply Hc; [left; reflexivity | exact Hy].
Qed.

Lemma SS_app_r {A} (R : A -> A -> Prop) (l1 l2 : list A) :
  StronglySorted R (l1 ++ l2) -> StronglySorted R l2.
Proof.
  induction l1 as [|a l1 IH]; intros H; [exact H|].
  cbn [app] in H. apply StronglySorted_inv in H as [H _]. apply IH. exact H.
Qed.

Lemma SS_mid {A} (R : A -> A -> Prop) l1 e1 l2 e2 l3 :
  StronglySorted R (l1 ++ e1 :: l2 ++ e2 :: l3) -> R e1 e2.
Proof.
  intros H. apply SS_app_r in H. apply StronglySorted_inv in H as [_ H].
  rewrite Forall_forall in H. apply H. rewrite in_app_iff. right. left. reflexivity.
Qed.

(* ---------------------------------------------------------------- the blocks *)

Lemma in_ev1 k k' p o l :
  In (Ev k p o) (map (ev1 k') l) <-> k = k' /\ o = None /\ In p l.
Proof.
  rewrite in_map_iff. unfold ev1. split.
  - intros (x & E & H). inversion E; subst. auto.
  - intros (-> & -> & H). exists p. auto.
Qed.

Lemma in_ev2 k k' a o l :
  In (Ev k a o) (map (ev2 k') l) <-> k = k' /\ exists b, o = Some b /\ In (a, b) l.
Proof.
  rewrite in_map_iff. unfold ev2. split.
  - intros ([x y] & E & H). cbn [fst snd] in E. inversion E; subst. eauto.
  - intros (-> & b & -> & H). exists (a, b). auto.
Qed.

Lemma kind_ev1 k l e : In e (map (ev1 k) l) -> ev_kind e = k.
Proof. intros H. apply in_map_iff in H as (x & <- & _). reflexivity. Qed.

Lemma kind_ev2 k l e : In e (map (ev2 k) l) -> ev_kind e = k.
Proof. intros H. apply in_map_iff in H as (x & <- & _). reflexivity. Qed.

Lemma ev1_inj k x y : ev1 k x = ev1 k y -> x = y.
Proof. unfold ev1. intros E. inversion E. reflexivity. Qed.

Lemma ev2_inj k x y : ev2 k x = ev2 k y -> x = y.
Proof.
  unfold ev2. destruct x, y. cbn [fst snd]. intros E. inversion E. reflexivity.
Qed.

Lemma SS_block {A} (g : A -> event) k l :
  (forall x, ev_kind (g x) = k) -> StronglySorted ev_le (map g l).
Proof.
  intros Hk. induction l as [|a l IH]; cbn [map]; constructor; [exact IH|].
  rewrite Forall_forall. intros y Hy. apply in_map_iff in Hy as (x & <- & _).
  unfold ev_le. rewrite !Hk. apply le_n.
Qed.

(* the kind of an element of a tail of the eight blocks *)
Ltac kinds_of H :=
  repeat rewrite in_app_iff in H;
  repeat (destruct H as [H | H]);
  (apply kind_ev1 in H || apply kind_ev2 in H).

Lemma SS_block1 k l : StronglySorted ev_le (map (ev1 k) l).
Proof. apply SS_block with (k := k). intros x. reflexivity. Qed.

Lemma SS_block2 k l : StronglySorted ev_le (map (ev2 k) l).
Proof. apply SS_block with (k := k). intros x. reflexivity. Qed.

Lemma events_sorted : forall d, StronglySorted ev_le (events_of d).
Proof.
  intros d. unfold events_of.
  repeat (apply SS_app;
          [ apply SS_block1 || apply SS_block2
          | | intros x y Hx Hy; (apply kind_ev1 in Hx || apply kind_ev2 in Hx);
              kinds_of Hy; unfold ev_le; rewrite Hx, Hy; cbn [krank]; lia ]).
  apply SS_block2.
Qed.

Lemma events_nodup d :
  NoDup (files_deleted d) -> NoDup (files_modified d) -> NoDup (files_created d) ->
  NoDup (files_moved d) -> NoDup (dirs_deleted d) -> NoDup (dirs_modified d) ->
  NoDup (dirs_created d) -> NoDup (dirs_moved d) -> NoDup (events_of d).
Proof.
  intros N1 N2 N3 N4 N5 N6 N7 N8. unfold events_of.
  repeat (apply NoDup_app_disj;
          [ (apply NoDup_map_inj; [apply ev1_inj | assumption])
            || (apply NoDup_map_inj; [apply ev2_inj | assumption])
          | | intros x Hx Hy; apply kind_ev1 in Hx || apply kind_ev2 in Hx;
              kinds_of Hy; rewrite Hx in Hy; discriminate ]).
  apply NoDup_map_inj; [apply ev2_inj | assumption].
Qed.

Lemma in_events d k p o :
  In (Ev k p o) (events_of d) <->
  (k = FileDeleted /\ o = None /\ In p (files_deleted d)) \/
  (k = FileModified /\ o = None /\ In p (files_modified d)) \/
  (k = FileCreated /\ o = None /\ In p (files_created d)) \/
  (k = FileMoved /\ exists b, o = Some b /\ In (p, b) (files_moved d)) \/
  (k = DirDeleted /\ o = None /\ In p (dirs_deleted d)) \/
  (k = DirModified /\ o = None /\ In p (dirs_modified d)) \/
  (k = DirCreated /\ o = None /\ In p (dirs_created d)) \/
  (k = DirMoved /\ exists b, o = Some b /\ In (p, b) (dirs_moved d)).
Proof.
  unfold events_of. rewrite !in_app_iff, !in_ev1, !in_ev2. reflexivity.
Qed.

Lemma events_ok ign r s d : diff ign r s = Some d ->
  forall e, In e (events_of d) <-> event_ok r s d e.
Proof.
  intros Hd.
  destruct (diff_kinds ign r s d Hd) as (Kdc & Kfc & Kdd & Kfd & Kdm & Kfm & Kdv & Kfv).
  intros [k p o]. rewrite in_events. split.
  - intros H.
    repeat (destruct H as [H | H]);
      (destruct H as (-> & -> & H) || destruct H as (-> & b & -> & H)); cbn [event_ok].
    + apply Kfd; exact H.
    + apply Kfm; exact H.
    + apply Kfc; exact H.
    + apply Kfv; exact H.
    + apply Kdd; exact H.
    + apply Kdm; exact H.
    + apply Kdc; exact H.
    + apply Kdv; exact H.
  - destruct k, o as [q|]; cbn [event_ok]; intros H; try contradiction.
    + apply Kfd in H. left. auto.
    + apply Kfm in H. right; left. auto.
    + apply Kfc in H. do 2 right; left. auto.
    + apply Kfv in H. do 3 right; left. eauto.
    + apply Kdd in H. do 4 right; left. auto.
    + apply Kdm in H. do 5 right; left. auto.
    + apply Kdc in H. do 6 right; left. auto.
    + apply Kdv in H. do 7 right. eauto.
Qed.

(* ---------------------------------------------------------------- one poll *)

Lemma poll_events : forall rec f root ot st new,
  stopped st = false -> snapshot_of rec f root ot = Snap new ->
  exists d, diff false (prev st) new = Some d /\
    poll rec f root ot st = PStep (events_of d) (mkE new false) /\
    NoDup (events_of d) /\
    (forall e, In e (events_of d) <-> event_ok (prev st) new d e) /\
    StronglySorted ev_le (events_of d).
Proof.
  intros rec f root ot st new Hs Hn.
  destruct (diff_total false (prev st) new) as [d Hd]. exists d.
  split; [exact Hd|]. split; [unfold poll; rewrite Hs, Hn, Hd; reflexivity|].
  split.
  - destruct (diff_nodup false _ _ d Hd) as (Ndc & Nfc & Ndd & Nfd & Ndm & Nfm & Ndv & Nfv).
    apply events_nodup; assumption.
  - split; [apply (events_ok false); exact Hd | apply events_sorted].
Qed.

Lemma events_complete : forall r s d, diff false r s = Some d ->
  (forall p, In p (d_deleted d) -> In (ev1 FileDeleted p) (events_of d) \/ In (ev1 DirDeleted p) (events_of d)) /\
  (forall p, In p (d_modified d) -> In (ev1 FileModified p) (events_of d) \/ In (ev1 DirModified p) (events_of d)) /\
  (forall p, In p (d_created d) -> In (ev1 FileCreated p) (events_of d) \/ In (ev1 DirCreated p) (events_of d)) /\
  (forall m, In m (d_moved d) -> In (ev2 FileMoved m) (events_of d) \/ In (ev2 DirMoved m) (events_of d)).
Proof.
  intros r s d Hd.
  destruct (diff_kinds_partition false r s d Hd) as (Pc & Pd & Pm & Pv & _).
  unfold ev1, ev2. repeat split.
  - intros p H. apply Pd in H. rewrite !in_events. destruct H as [H | H].
    + right. do 4 right; left. auto.
    + left. left. auto.
  - intros p H. apply Pm in H. rewrite !in_events. destruct H as [H | H].
    + right. do 5 right; left. auto.
    + left. right; left. auto.
  - intros p H. apply Pc in H. rewrite !in_events. destruct H as [H | H].
    + right. do 6 right; left. auto.
    + left. do 2 right; left. auto.
  - intros [a b] H. apply Pv in H. cbn [fst snd]. rewrite !in_events. destruct H as [H | H].
    + right. do 7 right. eauto.
    + left. do 3 right; left. eauto.
Qed.

Lemma deleted_before_created : forall d l1 e1 l2 e2 l3,
  events_of d = l1 ++ e1 :: l2 ++ e2 :: l3 ->
  ~ (ev_kind e1 = FileCreated /\ ev_kind e2 = FileDeleted) /\
  ~ (ev_kind e1 = DirCreated /\ ev_kind e2 = DirDeleted).
Proof.
  intros d l1 e1 l2 e2 l3 E.
  pose proof (events_sorted d) as H. rewrite E in H. apply SS_mid in H.
  unfold ev_le in H.
  split; intros [H1 H2]; rewrite H1, H2 in H; cbn [krank] in H; lia.
Qed.

Lemma events_empty : events_of empty_diff = [].
Proof. reflexivity. Qed.

Lemma poll_quiet : forall rec f root ot st,
  stopped st = false -> snapshot_of rec f root ot = Snap (prev st) ->
  poll rec f root ot st = PStep [] (mkE (prev st) false).
Proof.
  intros rec f root ot st Hs Hn. unfold poll. rewrite Hs, Hn, diff_self, events_empty.
  reflexivity.
Qed.

Lemma start_then_quiet : forall rec root t st,
  start rec [] root (Some t) = Some st ->
  prev st = (root, stat_of t) :: reach rec root t /\ stopped st = false /\
  poll rec [] root (Some t) st = PStep [] st.
Proof.
  intros rec root t st. unfold start. rewrite snapshot_nofault. intros E.
  inversion E; subst. cbn [prev stopped]. split; [reflexivity|]. split; [reflexivity|].
  unfold poll. cbn [prev stopped]. rewrite snapshot_nofault, diff_self, events_empty.
  reflexivity.
Qed.

Lemma poll_root_gone : forall rec f root ot st,
  stopped st = false ->
  (ot = None \/ fault_at f CStat root <> None \/
   exists e, fault_at f CList root = Some e /\ tolerated e = false) ->
  poll rec f root ot st = PStep [Ev DirDeleted root None] (mkE (prev st) true).
Proof.
  intros rec f root ot st Hs H. unfold poll. rewrite Hs.
  assert (Hr : exists e, snapshot_of rec f root ot = Raised e).
  { destruct ot as [t|]; [|exists ENOENT; reflexivity].
    unfold snapshot_of. destruct (fault_at f CStat root) as [e|] eqn:Hst; [exists e; reflexivity|].
    destruct H as [H | [H | (e & He & Ht)]]; [discriminate | contradiction|].
    destruct t as [s ch]. rewrite walk_eq, He, Ht. exists e. reflexivity. }
  destruct Hr as [e ->]. reflexivity.
Qed.

Lemma poll_stopped : forall rec f root ot st,
  stopped st = true -> poll rec f root ot st = PStep [] st.
Proof. intros rec f root ot st H. unfold poll. rewrite H. reflexivity. Qed.
