(* C11, buffer level (one batch, nothing older in the delay queue): grouping the kept part of a batch of
   InotifyEvents gives what [handed_over] makes of the groups of the whole batch, provided the two halves
   of a move are kept or dropped together. *)
Require Import WD.Base.Prelude WD.Base.BStr WD.Model.SubEvents WD.Model.Emitter WD.Model.MaskTable
               WD.Model.Fs WD.Model.Reader WD.Model.DelayQueue WD.Model.Grouping WD.Model.Pipeline WD.Model.Contract.

Section G.
  Variable C : cfg.
  Variable mv : bool.                 (* the halves of a move are visible *)
  Variable kp : raw -> bool.          (* which InotifyEvents the filtered watch's reader produces *)

  Definition hk (it : Emitter.item) : list Emitter.item :=
    match it with
    | Single e => if kp e then [Single e] else []
    | Pair f t => if mv then [Pair f t] else []
    end.

  (* a half of a move is kept exactly when moves are visible *)
  Definition mvok (x : raw) : Prop :=
    match nkind_of C x with KFrom _ | KTo _ => kp x = mv | _ => True end.
  Definition imv (it : Emitter.item) : Prop := match it with Single e => mvok e | Pair _ _ => True end.

  Lemma from_mvok c e : is_from_raw C c (Single e) = true -> mvok e -> kp e = mv.
  Proof. unfold is_from_raw, mvok. destruct (nkind_of C e); try discriminate. tauto. Qed.

  Lemma pair_in_batch_imv c t g g' : Forall imv g -> pair_in_batch C c t g = Some g' -> Forall imv g'.
  Proof.
    revert g'. induction g as [|it g IH]; intros g' Hg H; [discriminate|]. cbn [pair_in_batch] in H.
    inversion Hg as [|? ? Hi Hg']; subst.
    destruct (is_from_raw C c it).
    - destruct it; [|discriminate]. inversion H; subst. constructor; [exact I | exact Hg'].
    - destruct (pair_in_batch C c t g) as [g2|]; [|discriminate]. inversion H; subst.
      constructor; [exact Hi | apply IH; [exact Hg' | reflexivity]].
  Qed.

  (* moves visible: searching the kept part = the kept part of the search *)
  Lemma pair_in_batch_hk c t g : mv = true -> Forall imv g ->
    pair_in_batch C c t (flat_map hk g) = option_map (flat_map hk) (pair_in_batch C c t g).
  Proof.
    intros Hmv. induction g as [|it g IH]; intros Hg; [reflexivity|].
    inversion Hg as [|? ? Hi Hg']; subst. cbn [flat_map pair_in_batch].
    destruct it as [e|f t0].
    - destruct (is_from_raw C c (Single e)) eqn:Ef.
      + cbn [hk]. rewrite (from_mvok c e Ef Hi), Hmv. cbn [app pair_in_batch]. rewrite Ef.
        cbn [option_map flat_map hk]. rewrite Hmv. reflexivity.
      + destruct (kp e) eqn:K.
        * cbn [hk]. rewrite K. cbn [app pair_in_batch]. rewrite Ef, (IH Hg').
          destruct (pair_in_batch C c t g); cbn [option_map flat_map hk]; rewrite ?K; reflexivity.
        * cbn [hk]. rewrite K. cbn [app]. rewrite (IH Hg').
          destruct (pair_in_batch C c t g); cbn [option_map flat_map hk]; rewrite ?K; reflexivity.
    - cbn [hk is_from_raw]. rewrite Hmv. cbn [app pair_in_batch is_from_raw]. rewrite (IH Hg').
      destruct (pair_in_batch C c t g); cbn [option_map flat_map hk]; [rewrite Hmv|]; reflexivity.
  Qed.

  (* moves invisible: pairing changes nothing that is kept *)
  Lemma pair_in_batch_gone c t g g' : mv = false -> Forall imv g ->
    pair_in_batch C c t g = Some g' -> flat_map hk g' = flat_map hk g.
  Proof.
    intros Hmv. revert g'. induction g as [|it g IH]; intros g' Hg H; [discriminate|].
    inversion Hg as [|? ? Hi Hg']; subst. cbn [pair_in_batch] in H.
    destruct (is_from_raw C c it) eqn:Ef.
    - destruct it as [e|]; [|discriminate]. inversion H; subst. cbn [flat_map hk].
      rewrite (from_mvok c e Ef Hi), Hmv. reflexivity.
    - destruct (pair_in_batch C c t g) as [g2|]; [|discriminate]. inversion H; subst.
      cbn [flat_map]. f_equal. apply IH; [exact Hg' | reflexivity].
  Qed.

  Lemma flat_map_hk_snoc g e : flat_map hk (g ++ [Single e]) = flat_map hk g ++ (if kp e then [Single e] else []).
  Proof. rewrite flat_map_app. cbn [flat_map hk]. now rewrite app_nil_r. Qed.

  Theorem group_go_hk b : forall g, Forall mvok b -> Forall imv g ->
    group_go C (filter kp b) (flat_map hk g) = flat_map hk (group_go C b g).
  Proof.
    induction b as [|e b IH]; intros g Hb Hg; [reflexivity|].
    inversion Hb as [|? ? He Hb']; subst. cbn [filter group_go].
    assert (Hsn : Forall imv (g ++ [Single e])).
    { apply Forall_app. split; [exact Hg | constructor; [exact He | constructor]]. }
    destruct (kp e) eqn:K.
    - cbn [group_go]. destruct (nkind_of C e) eqn:Ek;
        try (rewrite <- (IH _ Hb' Hsn), flat_map_hk_snoc, K; reflexivity).
      (* KTo *)
      assert (Hmv : mv = true) by (unfold mvok in He; rewrite Ek in He; congruence).
      rewrite (pair_in_batch_hk cookie e g Hmv Hg).
      destruct (pair_in_batch C cookie e g) as [g2|] eqn:Ep; cbn [option_map].
      + apply IH; [exact Hb' | exact (pair_in_batch_imv _ _ _ _ Hg Ep)].
      + rewrite <- (IH _ Hb' Hsn), flat_map_hk_snoc, K. reflexivity.
    - destruct (nkind_of C e) eqn:Ek;
        try (rewrite <- (IH _ Hb' Hsn), flat_map_hk_snoc, K, app_nil_r; reflexivity).
      assert (Hmv : mv = false) by (unfold mvok in He; rewrite Ek in He; congruence).
      destruct (pair_in_batch C cookie e g) as [g2|] eqn:Ep.
      + rewrite <- (IH _ Hb' (pair_in_batch_imv _ _ _ _ Hg Ep)), (pair_in_batch_gone _ _ _ _ Hmv Hg Ep). reflexivity.
      + rewrite <- (IH _ Hb' Hsn), flat_map_hk_snoc, K, app_nil_r. reflexivity.
  Qed.

  Lemma filter_put_hk g : filter (put_item C) (flat_map hk g) = flat_map hk (filter (put_item C) g).
  Proof.
    induction g as [|it g IH]; [reflexivity|]. cbn [flat_map filter]. rewrite filter_app, IH.
    destruct it as [e|f t]; cbn [hk put_item].
    - destruct (kp e) eqn:K; destruct (nkind_of C e) eqn:Ek;
        cbn [filter put_item]; rewrite ?Ek; cbn [flat_map hk app]; rewrite ?K; reflexivity.
    - destruct mv eqn:Hm; cbn [filter put_item flat_map hk app]; rewrite ?Hm; reflexivity.
  Qed.

  Theorem group_batch_hk b : Forall mvok b -> group_batch C (filter kp b) = flat_map hk (group_batch C b).
  Proof.
    intros Hb. unfold group_batch. rewrite <- filter_put_hk. f_equal.
    apply (group_go_hk b [] Hb). constructor.
  Qed.
End G.
