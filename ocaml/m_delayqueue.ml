(* wire:  (delay (label ...))  ->  (ok (pc ...) (got (id t) ...) (removed ...) ends (q ...))  |  (stuck k (pc ...)) *)
open Sexp
open Conv
open DelayQueue

let label_of = function
  | L [A "put"; id; d] -> Put (n_of id, bool_of d)
  | L [A "remove"; L ids] -> Remove (Stdlib.List.map n_of ids)
  | A "close1" -> Close1 | A "close2" -> Close2
  | A "enter" -> GetEnter | A "delay" -> GetDelay | A "pop" -> GetPop
  | L [A "tick"; d] -> Tick (n_of d)
  | _ -> failwith "dq label"

let pc_tag = function CIdle -> A "idle" | CWait -> A "wait" | CWoken -> A "woken"
  | CHead h -> L [A "head"; sx_n h.e_id] | CPop h -> L [A "pop"; sx_n h.e_id]

let show s pcs =
  L [A "ok"; L (Stdlib.List.rev pcs);
     L (Stdlib.List.map (fun (i, t) -> L [sx_n i; sx_n t]) s.got);
     L (Stdlib.List.map sx_n s.removed); sx_nat s.ends;
     L (Stdlib.List.map (fun e -> sx_n e.e_id) s.q)]

let run = function
  | L [delay; L labels] ->
    let delay = n_of delay in
    let rec go s k pcs = function
      | [] -> show s pcs
      | l :: rest ->
        (match step delay s (label_of l) with
         | Some s' -> go s' (k + 1) (pc_tag s'.pc :: pcs) rest
         | None -> L [A "stuck"; sx_int k; L (Stdlib.List.rev pcs)]) in
    go init 0 [] labels
  | _ -> failwith "delayqueue: bad case"
