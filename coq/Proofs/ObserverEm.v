(* C05, emitter half: an emitter that unschedule() took out of the registry is never (re)started and, once
   joined, never puts an event again. *)
Require Import WD.Base.Prelude WD.Model.Observer WD.Proofs.ObserverProofs WD.Proofs.ObserverInv WD.Proofs.ObserverRet
  WD.Proofs.ObserverDisp WD.Proofs.ObserverLive.

(* instructions that start an emitter thread or put an emitter into the registry *)
Definition startref (e : emid) (i : instr) : bool :=
  match i with IEmStartS e' | IRegEm e' | IStartEm e' => Nat.eqb e e' | _ => false end.
Definition has_sref (e : emid) (k : list instr) : bool := existsb (startref e) k.
Definition any_sref (i : instr) : bool := match i with IEmStartS _ | IRegEm _ | IStartEm _ => true | _ => false end.
Definition has_any_sref (k : list instr) : bool := existsb any_sref k.

Lemma has_sref_any e k : has_any_sref k = false -> has_sref e k = false.
Proof.
  unfold has_sref, has_any_sref. induction k as [|i k IH]; simpl; auto. intros H. apply orb_false_iff in H as [H1 H2].
  rewrite IH by auto. destruct i; simpl in *; try discriminate; auto.
Qed.
Lemma has_sref_app e a b : has_sref e (a ++ b) = has_sref e a || has_sref e b.
Proof. apply existsb_app. Qed.
Lemma has_any_sref_app a b : has_any_sref (a ++ b) = has_any_sref a || has_any_sref b.
Proof. apply existsb_app. Qed.
Lemma has_sref_unwind e k : has_sref e k = false -> has_sref e (unwind k) = false.
Proof.
  unfold has_sref. induction k as [|i k IH]; simpl; auto. intros H. apply orb_false_iff in H as [H1 H2].
  destruct i; simpl in *; auto.
Qed.

(* ------------------------------------------------------------------ "unregistered" is stable *)
Definition Unreg (s : state) (e : emid) : Prop :=
  Nat.ltb e (length (ems s)) = true /\ memE e (emitters s) = false /\ forall t, has_sref e (cont s t) = false.

Lemma memE_app_one x l y : memE x (l ++ [y]) = memE x l || Nat.eqb x y.
Proof. rewrite memE_app. simpl. rewrite orb_false_r. reflexivity. Qed.

Lemma exec_sref s t i k inp s' e : exec s t i k inp = Some s' ->
  Nat.ltb e (length (ems s)) = true -> memE e (emitters s) = false -> has_sref e (i :: k) = false ->
  has_sref e (cont s' t) = false /\ memE e (emitters s') = false.
Proof.
  intros H Hlt Hm Hr. unfold has_sref in Hr. simpl in Hr. apply orb_false_iff in Hr as [Hi Hk]. fold (has_sref e k) in Hk.
  apply Nat.ltb_lt in Hlt.
  assert (Hne : Nat.eqb e (length (ems s)) = false) by (apply Nat.eqb_neq; lia).
  destruct i; crush_exec H; rewrite cont_set_cont_same, emitters_set_cont;
    cbn [ems emitters efw say set_handlers set_watches set_emitters set_efw set_ems set_queue set_lock set_dstarted
         set_dstop set_dexited set_dcur set_dtodo set_dcont set_aconts set_glog set_qlast upd_em];
    try (split; [first [exact Hk | apply has_sref_unwind; exact Hk] | first [exact Hm | rewrite memE_remE, Hm; apply andb_false_r | reflexivity]]).
  all: try (split; [|exact Hm]).
  all: try reflexivity.
  - rewrite has_sref_app, Hk, orb_false_r. destruct (fixed s), c; reflexivity.
  - unfold has_sref in *. simpl. rewrite Hne, Hk. reflexivity.
  - unfold has_sref in *. simpl. rewrite Hne, Hk. reflexivity.
  - split; [exact Hk|]. rewrite memE_app_one, Hm. simpl in Hi. simpl. exact Hi.
  - repeat (rewrite has_sref_app; simpl). unfold has_sref at 1 2.
    rewrite !existsb_flat_false by (intros; reflexivity). simpl. exact Hk.
  - rewrite has_sref_app. simpl. rewrite Hk, orb_false_r. unfold has_sref.
    assert (Ho : forall e', In e' order -> Nat.eqb e e' = false).
    { intros e' Hin. destruct (Nat.eqb e e') eqn:E; auto. apply Nat.eqb_eq in E. subst e'.
      match goal with Hp : perm_ok order _ = true |- _ => rewrite (perm_ok_in _ _ _ Hp Hin) in Hm end. discriminate. }
    clear - Ho. induction order as [|a order IH]; simpl; auto. rewrite Ho by (left; auto). apply IH. intros; apply Ho; right; auto.
  - rewrite has_sref_app. simpl. rewrite Hk, orb_false_r. unfold has_sref. apply existsb_map_false. reflexivity.
Qed.

Lemma Unreg_exec e s t i k inp s' : Unreg s e -> cont s t = i :: k -> exec s t i k inp = Some s' -> Unreg s' e.
Proof.
  intros [Hlt [Hm Hr]] Ec H.
  pose proof (Hr t) as Hrt. rewrite Ec in Hrt.
  destruct (exec_sref _ _ _ _ _ _ e H Hlt Hm Hrt) as [H1 H2].
  pose proof (exec_ems_len _ _ _ _ _ _ H) as Hlen.
  split; [|split; auto].
  - apply Nat.ltb_lt in Hlt. apply Nat.ltb_lt. lia.
  - intros t'. destruct (tid_eq_dec t' t) as [->|Hne]; auto.
    destruct (exec_others _ _ _ _ _ _ H t' Hne) as [E | [_ [_ [_ E]]]]; rewrite E; [apply Hr | reflexivity].
Qed.

Lemma Unreg_call e s n c : Unreg s e -> cont s (TA n) = [] -> Unreg (set_cont (TA n) (body (fixed s) c) (say (GCall (TA n) c) s)) e.
Proof.
  intros [Hlt [Hm Hr]] Ec. split; [|split].
  - rewrite ems_set_cont. exact Hlt.
  - rewrite emitters_set_cont. exact Hm.
  - intros t'. destruct (tid_eq_dec t' (TA n)) as [->|Hne].
    + rewrite cont_set_cont_same. destruct (fixed s), c; reflexivity.
    + rewrite cont_set_cont_other by congruence. destruct t'; [apply (Hr TD) | apply (Hr (TA n0))].
Qed.

Lemma Unreg_em e s l s' : Unreg s e -> em_label l = true -> step s l = Some s' -> Unreg s' e.
Proof.
  intros [Hlt [Hm Hr]] Hl H.
  destruct (em_step_frame _ _ _ Hl H) as [Ec [_ [_ [_ [_ [_ [_ [Eem _]]]]]]]].
  destruct (em_step_ems _ _ _ Hl H) as [El _].
  split; [rewrite El; exact Hlt|]. split; [rewrite Eem; exact Hm|]. intros t. rewrite Ec. apply Hr.
Qed.

(* a removed emitter stays out of the registry and nobody holds an instruction that would start it *)
Theorem unregistered_stable e s l s' : Unreg s e -> step s l = Some s' -> Unreg s' e.
Proof.
  intros Hx H. refine (step_P (fun s => Unreg s e) _ _ _ s l s' Hx H).
  - intros s0 t i k inp s1 H0 Ec H1. eapply Unreg_exec; eauto.
  - intros s0 n c H0 Ec. apply Unreg_call; auto.
  - intros s0 l0 s1 H0 Hl H1. eapply Unreg_em; eauto.
Qed.

(* ------------------------------------------------------------------ ... and, if not running, never runs again *)
Definition dead_em (m : em) : bool := negb (em_started m) || em_exited m.
Definition Retired (s : state) (e : emid) : Prop := Unreg s e /\ exists m, get_em s e = Some m /\ dead_em m = true.

Lemma dead_frame e s s1 m : ems s1 = ems s -> get_em s e = Some m -> get_em s1 e = Some m.
Proof. unfold get_em. intros ->. auto. Qed.

Lemma Retired_exec e s t i k inp s' : Retired s e -> cont s t = i :: k -> exec s t i k inp = Some s' -> Retired s' e.
Proof.
  intros [HU [m [Hm Hd]]] Ec H. split; [eapply Unreg_exec; eauto|].
  destruct HU as [_ [_ Hr]]. specialize (Hr t). rewrite Ec in Hr. unfold has_sref in Hr. simpl in Hr.
  apply orb_false_iff in Hr as [Hi _].
  destruct i; crush_exec H; unfold get_em in *; rewrite ems_set_cont;
    cbn [ems emitters efw say set_handlers set_watches set_emitters set_efw set_ems set_queue set_lock set_dstarted
         set_dstop set_dexited set_dcur set_dtodo set_dcont set_aconts set_glog set_qlast upd_em];
    try (exists m; split; [exact Hm | exact Hd]).
  - exists m. split; [|exact Hd]. rewrite nth_error_app1; auto. apply nth_error_Some. congruence.
  - exists m. split; [|exact Hd]. rewrite nth_error_app1; auto. apply nth_error_Some. congruence.
  - (* IEmStartS e0 : e0 <> e *) simpl in Hi. exists m. split; [|exact Hd].
    rewrite nth_upd_nth_other; auto. intros ->. rewrite Nat.eqb_refl in Hi. discriminate.
  - (* IEmStop e0 *) destruct (Nat.eq_dec e0 e) as [->|Hne].
    + eexists. split; [apply nth_upd_nth; exact Hm|]. unfold dead_em, em_started, em_exited in *. simpl. exact Hd.
    + exists m. split; [|exact Hd]. rewrite nth_upd_nth_other; auto.
  - (* IStartEm e0 : e0 <> e *) simpl in Hi. exists m. split; [|exact Hd].
    rewrite nth_upd_nth_other; auto. intros ->. rewrite Nat.eqb_refl in Hi. discriminate.
Qed.

Lemma Retired_em e s l s' : Retired s e -> em_label l = true -> step s l = Some s' -> Retired s' e.
Proof.
  intros [HU [m [Hm Hd]]] Hl H. split; [eapply Unreg_em; eauto|].
  assert (Hpc : epcs m = ENew \/ epcs m = EExited).
  { unfold dead_em, em_started, em_exited in Hd. destruct (epcs m); simpl in Hd; auto; discriminate. }
  destruct l; try discriminate; simpl in H;
    destruct (get_em s e0) as [m0|] eqn:E0; try discriminate;
    destruct (epcs m0) eqn:Ep; try discriminate;
    repeat match type of H with context [if ?x then _ else _] => destruct x end; try discriminate;
    inversion H; subst; clear H;
    (destruct (Nat.eq_dec e0 e) as [->|Hne]; [rewrite Hm in E0; inversion E0; subst; destruct Hpc; congruence|]);
    exists m; (split; [|exact Hd]); unfold get_em, set_epc, upd_em in *; cbn; rewrite nth_upd_nth_other; auto.
Qed.

(* an unregistered emitter that is not running (never started, or exited) stays so for ever *)
Theorem retired_stable e s l s' : Retired s e -> step s l = Some s' -> Retired s' e.
Proof.
  intros Hx H. refine (step_P (fun s => Retired s e) _ _ _ s l s' Hx H).
  - intros s0 t i k inp s1 H0 Ec H1. eapply Retired_exec; eauto.
  - intros s0 n c [HU [m [Hm Hd]]] Ec. split; [apply Unreg_call; auto|]. exists m. split; auto.
  - intros s0 l0 s1 H0 Hl H1. eapply Retired_em; eauto.
Qed.

(* a retired emitter cannot take a step: in particular it never puts an event *)
Lemma retired_silent e s l : Retired s e -> em_of l = Some e -> step s l = None.
Proof.
  intros [_ [m [Hm Hd]]] Hl.
  assert (Hpc : epcs m = ENew \/ epcs m = EExited).
  { unfold dead_em, em_started, em_exited in Hd. destruct (epcs m); simpl in Hd; auto; discriminate. }
  destruct l; simpl in Hl; inversion Hl; subst; simpl; rewrite Hm; destruct Hpc as [E|E]; rewrite E; reflexivity.
Qed.


(* ------------------------------------------------------------------ start / registration instructions are only
   pending in the lock owner's continuation, in a block at its head *)
Definition SB (i : instr) : bool :=
  match i with IEmStartS _ | IYield | IRegEm _ | IStartEm _ | IEmStop _ | IEmJoin _ | IFailStart _ => true | _ => false end.
Fixpoint sref_ok (k : list instr) : bool :=
  match k with
  | [] => true
  | i :: k' => if SB i then sref_ok k' else negb (has_any_sref k)
  end.

Lemma no_sref_ok k : has_any_sref k = false -> sref_ok k = true.
Proof.
  induction k as [|i k IH]; simpl; auto. intros H. unfold has_any_sref in H. simpl in H. apply orb_false_iff in H as [H1 H2].
  destruct (SB i); auto. unfold has_any_sref. simpl. rewrite H1, H2. reflexivity.
Qed.
Lemma sref_ok_tail i k : sref_ok (i :: k) = true -> sref_ok k = true.
Proof.
  simpl. destruct (SB i); auto. intros H. apply negb_true_iff in H. unfold has_any_sref in H. simpl in H.
  apply orb_false_iff in H as [_ H]. apply no_sref_ok. exact H.
Qed.
Lemma sref_ok_nonSB i k : SB i = false -> sref_ok (i :: k) = true -> has_any_sref (i :: k) = false.
Proof. simpl. intros Hb H. rewrite Hb in H. apply negb_true_iff in H. exact H. Qed.
Lemma sref_ok_SB_app new k : forallb SB new = true -> sref_ok (new ++ k) = sref_ok k.
Proof. induction new as [|i new IH]; simpl; auto. intros H. apply andb_true_iff in H as [H1 H2]. rewrite H1. auto. Qed.
Lemma any_sref_unwind_false k : sref_ok k = true -> has_any_sref (unwind k) = false.
Proof.
  induction k as [|i k IH]; simpl; auto. intros H.
  destruct (SB i) eqn:Eb.
  - destruct i; simpl in Eb; try discriminate; simpl; auto.
  - apply negb_true_iff in H. unfold has_any_sref in H. simpl in H. apply orb_false_iff in H as [H1 H2].
    assert (Hu : has_any_sref (unwind k) = false).
    { clear - H2. induction k as [|j k IH]; simpl in *; auto. apply orb_false_iff in H2 as [Ha Hb].
      destruct j; simpl in *; auto; unfold has_any_sref; simpl; auto. }
    destruct i; simpl in *; auto; unfold has_any_sref in *; simpl; auto.
Qed.

Definition SrB (k : list instr) : Prop := (has_any_sref k = true -> noacq k = true) /\ sref_ok k = true.
Lemma SrB_none k : has_any_sref k = false -> SrB k.
Proof. intros H. split; [rewrite H; discriminate | apply no_sref_ok; auto]. Qed.

Lemma norets_no_sref k : norets k = true -> raise_ok k = true -> has_any_sref k = false.
Proof.
  induction k as [|i k IH]; simpl; auto. intros H1 H2. apply andb_true_iff in H1 as [Ha Hb].
  apply andb_true_iff in H2 as [Hc Hd]. unfold has_any_sref. simpl. fold (has_any_sref k). rewrite IH by auto.
  destruct i; simpl in *; auto; rewrite (norets_ret_ahead k Hb) in Hc; discriminate.
Qed.

Lemma exec_SrB s t i k inp s' : exec s t i k inp = Some s' -> SrB (i :: k) -> acq_pos (i :: k) = true ->
  rets_first (i :: k) = true -> raise_ok (i :: k) = true -> SrB (cont s' t).
Proof.
  intros H [Hn Hok] Hap Hrf Hro.
  pose proof (sref_ok_tail _ _ Hok) as Hokk.
  destruct (SB i) eqn:Eb.
  - assert (HBk : SrB k).
    { split; auto. intros Hk. assert (Hik : has_any_sref (i :: k) = true) by (unfold has_any_sref in *; simpl; rewrite Hk; apply orb_true_r).
      specialize (Hn Hik). simpl in Hn. apply andb_true_iff in Hn. tauto. }
    destruct i; simpl in Eb; try discriminate; crush_exec H; rewrite cont_set_cont_same; auto;
      try (apply SrB_none; apply any_sref_unwind_false; auto; fail).
  - pose proof (sref_ok_nonSB _ _ Eb Hok) as Hik. assert (Hk : has_any_sref k = false).
    { unfold has_any_sref in *. simpl in Hik. apply orb_false_iff in Hik. tauto. }
    destruct i; simpl in Eb; try discriminate; crush_exec H; rewrite cont_set_cont_same;
      try (apply SrB_none; apply any_sref_unwind_false; auto; fail);
      try (apply SrB_none; exact Hk);
      try (apply SrB_none; unfold has_any_sref in *; simpl; exact Hk).
    all: try (apply SrB_none; rewrite has_any_sref_app, Hk, orb_false_r; destruct (fixed s), c; reflexivity).
    all: try (apply SrB_none; reflexivity).
    + (* ISched, alive *) simpl in Hap. split.
      * intros _. simpl. exact Hap.
      * simpl. unfold has_any_sref in *. simpl. rewrite Hk. reflexivity.
    + (* ISched, not alive *) simpl in Hap. split.
      * intros _. simpl. exact Hap.
      * simpl. unfold has_any_sref in *. simpl. rewrite Hk. reflexivity.
    + (* IClear *) apply SrB_none. repeat (rewrite has_any_sref_app; simpl). unfold has_any_sref at 1 2.
      rewrite !existsb_flat_false by (intros; reflexivity). simpl. exact Hk.
    + (* IStartCopy *) simpl in Hap. split.
      * intros _. rewrite noacq_app. simpl. rewrite Hap, andb_true_r. unfold noacq. apply forallb_map_gen. reflexivity.
      * rewrite sref_ok_SB_app by (apply forallb_map_gen; reflexivity). simpl.
        unfold has_any_sref in *. simpl. rewrite Hk. reflexivity.
    + (* callback *) apply SrB_none. rewrite has_any_sref_app. unfold has_any_sref at 1.
      rewrite existsb_map_false by reflexivity. unfold has_any_sref in *. simpl. exact Hk.
Qed.

Lemma wfd_noacq_sref k : forall d, noacq k = true -> has_any_sref k = true -> wfd d k = true -> d <> 0.
Proof.
  induction k as [|i k IH]; simpl; intros d Hn Hi Hw; try discriminate.
  apply andb_true_iff in Hn as [Hn1 Hn2]. unfold has_any_sref in Hi. simpl in Hi.
  destruct i; simpl in *; try discriminate;
    try (apply andb_true_iff in Hw as [Hw1 Hw2]);
    try (eapply IH; eauto; fail);
    try (destruct d; simpl in *; [discriminate | congruence]).
Qed.

Definition SrInv (s : state) : Prop := forall t, SrB (cont s t).

Definition Q4 (s : state) : Prop := LockInv s /\ SegInv s /\ RetInv s /\ SrInv s.
Lemma Q4_exec s t i k inp s' : Q4 s -> cont s t = i :: k -> exec s t i k inp = Some s' -> Q4 s'.
Proof.
  intros [HL [HS [HRt HSr]]] Ec H.
    assert (HS' : SegInv s').
    { destruct HS as [HR HN]. split.
      + intros t'. destruct (tid_eq_dec t' t) as [->|Hne].
        * eapply exec_raise_ok; eauto. rewrite <- Ec. apply HR.
        * destruct (exec_others _ _ _ _ _ _ H t' Hne) as [E | [_ [_ [_ E]]]]; rewrite E; auto.
      + intros n. destruct (tid_eq_dec (TA n) t) as [<-|Hne].
        * eapply exec_nobarrier; eauto. rewrite <- Ec. apply HN.
        * destruct (exec_others _ _ _ _ _ _ H (TA n) Hne) as [E | [_ [Ht _]]]; [rewrite E; auto | discriminate]. }
    split; [eapply LockInv_exec; eauto|]. split; [exact HS'|]. split; [eapply RetInv_exec; eauto|].
    intros t'. destruct (tid_eq_dec t' t) as [->|Hne].
    + destruct HL as [_ [HLB _]]. pose proof (HLB t) as [_ [Hap _]]. rewrite Ec in Hap.
      destruct HRt as [HT _]. destruct (HT t) as [_ Hrf]. rewrite Ec in Hrf.
      destruct HS as [HR _]. pose proof (HR t) as Hro. rewrite Ec in Hro.
      eapply exec_SrB; eauto. rewrite <- Ec. apply HSr.
    + destruct (exec_others _ _ _ _ _ _ H t' Hne) as [E | [_ [_ [_ E]]]]; rewrite E; [apply HSr | apply SrB_none; reflexivity].
Qed.
Lemma Q4_call s n c : Q4 s -> cont s (TA n) = [] -> Q4 (set_cont (TA n) (body (fixed s) c) (say (GCall (TA n) c) s)).
Proof.
  intros [HL [HS [HRt HSr]]] Ec.
    split; [apply LockInv_call; auto|]. split.
    { destruct HS as [HR HN]. split.
      + intros t'. destruct (tid_eq_dec t' (TA n)) as [->|Hne].
        * rewrite cont_set_cont_same. destruct (fixed s), c; reflexivity.
        * rewrite cont_set_cont_other by congruence. destruct t'; [apply (HR TD) | apply (HR (TA n0))].
      + intros n'. destruct (tid_eq_dec (TA n') (TA n)) as [E|Hne].
        * rewrite E. rewrite cont_set_cont_same. destruct (fixed s), c; reflexivity.
        * rewrite cont_set_cont_other by congruence. apply (HN n'). }
    split; [apply RetInv_call; auto|].
    intros t'. destruct (tid_eq_dec t' (TA n)) as [->|Hne].
    + rewrite cont_set_cont_same. apply SrB_none. destruct (fixed s), c; reflexivity.
    + rewrite cont_set_cont_other by congruence. destruct t'; [apply (HSr TD) | apply (HSr (TA n0))].
Qed.
Lemma Q4_em s l s' : Q4 s -> em_label l = true -> step s l = Some s' -> Q4 s'.
Proof.
  intros [HL [HS [HRt HSr]]] Hl H. destruct (em_step_frame _ _ _ Hl H) as [Ec _].
    split; [eapply LockInv_em; eauto|]. split.
    { destruct HS as [HR HN]. split; intros; rewrite Ec; auto. }
    split; [eapply RetInv_em; eauto|]. intros t. rewrite Ec. apply HSr.
Qed.
Lemma Q4_init : Q4 init.
Proof.
  split; [apply LockInv_reachable; exists []; reflexivity|]. split; [apply SegInv_reachable; exists []; reflexivity|].
    split; [apply RetInv_reachable; exists []; reflexivity|]. intros t; destruct t; apply SrB_none; reflexivity.
Qed.
Lemma SrInv_reachable s : reachable s -> SrInv s.
Proof.
  intros Hs. assert (G : Q4 s); [|unfold Q4 in G; tauto]. revert s Hs.
  apply reach_P; [apply Q4_exec | apply Q4_call | apply Q4_em | apply Q4_init].
Qed.


(* ------------------------------------------------------------------ the log: removed, joined, never puts again *)
Definition is_unsched_of (e : emid) (x : gev) : bool := match x with GUnsched _ _ e' => Nat.eqb e e' | _ => false end.
Definition unsched_in (g : list gev) (e : emid) : bool := existsb (is_unsched_of e) g.
(* newest first: e was joined after (= newer than) an unschedule that removed it *)
Fixpoint retired_log (g : list gev) (e : emid) : bool :=
  match g with
  | [] => false
  | GEmJoin _ e' _ :: l => if Nat.eqb e e' then unsched_in l e else retired_log l e
  | _ :: l => retired_log l e
  end.
Fixpoint put_ok (g : list gev) : bool :=
  match g with
  | [] => true
  | GPut e _ _ :: l => negb (retired_log l e) && put_ok l
  | _ :: l => put_ok l
  end.
Definition plainev (x : gev) : bool := match x with GEmJoin _ _ _ | GUnsched _ _ _ | GPut _ _ _ => false | _ => true end.

Lemma unsched_in_plain new g e : forallb plainev new = true -> unsched_in (new ++ g) e = unsched_in g e.
Proof.
  unfold unsched_in. induction new as [|x new IH]; simpl; auto. intros H. apply andb_true_iff in H as [H1 H2].
  rewrite IH by auto. destruct x; simpl in *; try discriminate; auto.
Qed.
Lemma retired_log_plain new g e : forallb plainev new = true -> retired_log (new ++ g) e = retired_log g e.
Proof.
  induction new as [|x new IH]; simpl; auto. intros H. apply andb_true_iff in H as [H1 H2].
  rewrite <- IH by auto. destruct x; simpl in *; try discriminate; auto.
Qed.
Lemma put_ok_plain new g : forallb plainev new = true -> put_ok (new ++ g) = put_ok g.
Proof.
  induction new as [|x new IH]; simpl; auto. intros H. apply andb_true_iff in H as [H1 H2].
  rewrite <- IH by auto. destruct x; simpl in *; try discriminate; auto.
Qed.

Lemma exec_log_kind s t i k inp s' : exec s t i k inp = Some s' ->
  (exists e ok, i = IEmJoin e /\ glog s' = GEmJoin t e ok :: glog s /\ exists m, get_em s' e = Some m /\ dead_em m = true) \/
  (exists w e, i = IUnsched w /\ glog s' = GUnsched t w e :: GRemovedW w :: glog s /\ alookup N.eqb w (efw s) = Some e /\
               cont s' t = IEmStop e :: IEmJoin e :: IDelWatch w :: k /\ emitters s' = remE e (emitters s) /\ ems s' = ems s) \/
  (exists new, glog s' = new ++ glog s /\ forallb plainev new = true).
Proof.
  intros H. destruct i; crush_exec H; rewrite ?glog_set_cont;
    try (right; right;
         first [ exists []; split; reflexivity | eexists [_]; split; reflexivity | eexists [_; _]; split; reflexivity ]).
  - (* IUnsched *) right; left. exists w, e. rewrite cont_set_cont_same, emitters_set_cont, ems_set_cont. repeat split; auto.
  - (* IEmJoin, exited *) left. exists e, true. split; auto. split; [reflexivity|]. exists e0.
    unfold get_em in *. rewrite ems_set_cont. cbn. split; auto. unfold dead_em. rewrite Heqb0. apply orb_true_r.
  - (* IEmJoin, never started *) left. exists e, false. split; auto. split; [reflexivity|]. exists e0.
    unfold get_em in *. rewrite ems_set_cont. cbn. split; auto. unfold dead_em. rewrite Heqb. reflexivity.
Qed.

Definition GI (s : state) : Prop :=
  (forall e, unsched_in (glog s) e = true -> Unreg s e) /\
  (forall e, retired_log (glog s) e = true -> Retired s e) /\
  put_ok (glog s) = true.

(* at the moment unschedule takes e out of the registry, nobody holds an instruction that would start it *)
Lemma unsched_unreg s t w k inp s' e : Q4 s -> EmRef s -> cont s t = IUnsched w :: k -> exec s t (IUnsched w) k inp = Some s' ->
  alookup N.eqb w (efw s) = Some e -> cont s' t = IEmStop e :: IEmJoin e :: IDelWatch w :: k ->
  emitters s' = remE e (emitters s) -> ems s' = ems s -> Unreg s' e.
Proof.
  intros [HL [_ [_ HSr]]] [_ [_ Hefw]] Ec H Hlk Ec' Eem Eems.
  destruct HL as [_ [HLB _]].
  split; [|split].
  - rewrite Eems. eapply alookup_efw_lt; eauto.
  - rewrite Eem. rewrite memE_remE, Nat.eqb_refl. reflexivity.
  - (* t holds the lock *)
    pose proof (HLB t) as [Hw _]. rewrite Ec in Hw.
    assert (Hheld : held s t <> 0) by (destruct (held s t); [simpl in Hw; discriminate | congruence]).
    destruct (held_pos_owner s t Hheld) as [n [Hlock _]].
    intros t'. destruct (tid_eq_dec t' t) as [->|Hne].
    + rewrite Ec'. destruct (HSr t) as [_ Hok]. rewrite Ec in Hok.
      pose proof (sref_ok_nonSB (IUnsched w) k eq_refl Hok) as Hno. unfold has_any_sref in Hno. simpl in Hno.
      unfold has_sref. simpl. apply (has_sref_any e k). exact Hno.
    + destruct (exec_others _ _ _ _ _ _ H t' Hne) as [E | [Ei _]]; [|discriminate]. rewrite E.
      apply has_sref_any. destruct (has_any_sref (cont s t')) eqn:Ea; auto. exfalso.
      destruct (HSr t') as [Hn _]. specialize (Hn Ea). pose proof (HLB t') as [Hw' _].
      apply (wfd_noacq_sref _ _ Hn Ea Hw'). eapply held_other_zero; eauto.
Qed.

Lemma GI_exec s t i k inp s' : Q4 s -> EmRef s -> GI s -> cont s t = i :: k -> exec s t i k inp = Some s' -> GI s'.
Proof.
  intros HQ HE [HU [HRl HP]] Ec H.
  assert (HUs : forall e, Unreg s e -> Unreg s' e) by (intros e Hx; eapply Unreg_exec; eauto).
  assert (HRs : forall e, Retired s e -> Retired s' e) by (intros e Hx; eapply Retired_exec; eauto).
  destruct (exec_log_kind _ _ _ _ _ _ H) as [[e0 [ok [Ei [Eg [m [Hm Hd]]]]]] | [[w [e0 [Ei [Eg [Hlk [Ec' [Eem Eems]]]]]]] | [new [Eg Hpl]]]].
  - (* a join *) unfold GI. rewrite Eg. split; [|split].
    + intros e Hx. apply HUs. apply HU. exact Hx.
    + intros e. simpl. destruct (Nat.eqb e e0) eqn:Ee.
      * apply Nat.eqb_eq in Ee. subst e0. intros Hx. split; [apply HUs; apply HU; exact Hx|]. exists m. auto.
      * intros Hx. apply HRs. apply HRl. exact Hx.
    + simpl. exact HP.
  - (* an unschedule *) subst i. unfold GI. rewrite Eg. split; [|split].
    + intros e. unfold unsched_in. simpl. destruct (Nat.eqb e e0) eqn:Ee.
      * apply Nat.eqb_eq in Ee. subst e0. intros _. eapply unsched_unreg; eauto.
      * simpl. intros Hx. apply HUs. apply HU. exact Hx.
    + intros e. simpl. intros Hx. apply HRs. apply HRl. exact Hx.
    + simpl. exact HP.
  - unfold GI. rewrite Eg. split; [|split].
    + intros e. rewrite unsched_in_plain by auto. intros Hx. apply HUs. apply HU. exact Hx.
    + intros e. rewrite retired_log_plain by auto. intros Hx. apply HRs. apply HRl. exact Hx.
    + rewrite put_ok_plain by auto. exact HP.
Qed.

Lemma GI_em s l s' : GI s -> em_label l = true -> step s l = Some s' -> GI s'.
Proof.
  intros [HU [HRl HP]] Hl H.
  assert (HUs : forall e, Unreg s e -> Unreg s' e) by (intros e Hx; eapply Unreg_em; eauto).
  assert (HRs : forall e, Retired s e -> Retired s' e) by (intros e Hx; eapply Retired_em; eauto).
  destruct l; try discriminate.
  - (* LECheck *) simpl in H. destruct (get_em s e) as [m|]; try discriminate. destruct (epcs m); try discriminate.
    destruct (estop m); inversion H; subst; (split; [|split]); cbn; auto.
  - (* LEPut *) pose proof H as H'. simpl in H. destruct (get_em s e) as [m|] eqn:Em; try discriminate.
    destruct (epcs m) eqn:Ep; try discriminate. inversion H; subst. split; [|split]; cbn; auto.
    rewrite HP, andb_true_r. destruct (retired_log (glog s) e) eqn:Er; auto. exfalso.
    rewrite (retired_silent e s (LEPut e ev) (HRl e Er) eq_refl) in H'. discriminate.
  - simpl in H. destruct (get_em s e) as [m|]; try discriminate. destruct (epcs m); try discriminate.
    destruct (qlast_is s (QEv ev (ew m))); inversion H; subst; (split; [|split]); cbn; auto.
  - simpl in H. destruct (get_em s e) as [m|]; try discriminate. destruct (epcs m); try discriminate.
    inversion H; subst; (split; [|split]); cbn; auto.
  - simpl in H. destruct (get_em s e) as [m|]; try discriminate. destruct (epcs m); try discriminate.
    inversion H; subst; (split; [|split]); cbn; auto.
Qed.

Lemma EmRef_call s n c : EmRef s -> cont s (TA n) = [] -> EmRef (set_cont (TA n) (body (fixed s) c) (say (GCall (TA n) c) s)).
Proof.
  intros [HT [He Hf]] Ec. split; [|split; auto]. intros t'.
  destruct (tid_eq_dec t' (TA n)) as [->|Hne].
  - rewrite cont_set_cont_same. destruct (fixed s), c; reflexivity.
  - rewrite cont_set_cont_other by congruence. destruct t'; [apply (HT TD) | apply (HT (TA n0))].
Qed.
Lemma EmRef_em s l s' : EmRef s -> em_label l = true -> step s l = Some s' -> EmRef s'.
Proof.
  intros [HT [He Hf]] Hl H.
  destruct (em_step_frame _ _ _ Hl H) as [Ec [_ [_ [_ [_ [_ [_ [Eem _]]]]]]]].
  destruct (em_step_ems _ _ _ Hl H) as [El Eefw].
  split; [|split]; rewrite El, ?Eem, ?Eefw; auto. intros t. rewrite Ec. apply HT.
Qed.

Definition Q6 (s : state) : Prop := Q4 s /\ EmRef s /\ GI s.

Lemma Q6_reachable s : reachable s -> Q6 s.
Proof.
  apply reach_P.
  - intros s0 t i k inp s' [HQ [HE HG]] Ec H. split; [eapply Q4_exec; eauto|]. split; [eapply EmRef_exec; eauto|].
    eapply GI_exec; eauto.
  - intros s0 n c [HQ [HE [HU [HRl HP]]]] Ec. split; [apply Q4_call; auto|]. split.
    + apply EmRef_call; auto.
    + split; [|split]; cbn.
      * intros e Hx. apply Unreg_call; auto.
      * intros e Hx. destruct (HRl e Hx) as [Hu [m [Hm Hd]]]. split; [apply Unreg_call; auto|]. exists m. auto.
      * exact HP.
  - intros s0 l s' [HQ [HE HG]] Hl H. split; [eapply Q4_em; eauto|]. split; [eapply EmRef_em; eauto | eapply GI_em; eauto].
  - split; [apply Q4_init|]. split; [apply EmRef_reachable; exists []; reflexivity|].
    split; [|split]; cbn; auto; intros e Hx; discriminate.
Qed.

Lemma put_ok_split g : put_ok g = true -> forall a e w ev b, g = a ++ GPut e w ev :: b -> retired_log b e = false.
Proof.
  induction g as [|x g IH]; intros H a e w ev b E.
  - destruct a; discriminate.
  - destruct a as [|y a]; simpl in E; inversion E; subst.
    + simpl in H. apply andb_true_iff in H as [H _]. apply negb_true_iff in H. exact H.
    + eapply IH; eauto. destruct y; simpl in H; auto. apply andb_true_iff in H. tauto.
Qed.

Lemma retired_log_intro b2 : forall t w0 e b1 t' ok, In (GEmJoin t' e ok) b2 ->
  retired_log (b2 ++ GUnsched t w0 e :: b1) e = true.
Proof.
  induction b2 as [|x b2 IH]; intros t w0 e b1 t' ok Hin; [destruct Hin|].
  simpl. destruct x; try (destruct Hin as [Hx|Hin]; [discriminate | eapply IH; eauto]).
  destruct (Nat.eqb e e0) eqn:Ee.
  - unfold unsched_in. rewrite existsb_app. simpl. rewrite Nat.eqb_refl. apply orb_true_r.
  - destruct Hin as [Hx|Hin]; [inversion Hx; subst; rewrite Nat.eqb_refl in Ee; discriminate | eapply IH; eauto].
Qed.

(* C05, emitter half: once unschedule() has taken emitter e out of the registry (GUnsched) and joined it
   (GEmJoin, ok or "never started"), e never puts an event again - in particular a removed, never started
   emitter is never started later. *)
Theorem removed_joined_never_puts s : reachable s ->
  forall a e w ev b2 t w0 b1 t' ok, glog s = a ++ GPut e w ev :: b2 ++ GUnsched t w0 e :: b1 ->
    In (GEmJoin t' e ok) b2 -> False.
Proof.
  intros Hs a e w ev b2 t w0 b1 t' ok Hg Hin.
  destruct (Q6_reachable s Hs) as [_ [_ [_ [_ HP]]]].
  pose proof (put_ok_split _ HP _ _ _ _ _ Hg) as Hf.
  rewrite (retired_log_intro b2 t w0 e b1 t' ok Hin) in Hf. discriminate.
Qed.

(* state form: the emitter removed by an unschedule is unregistered from then on, and retired once joined *)
Theorem unscheduled_emitter_unregistered s : reachable s -> forall t w e, In (GUnsched t w e) (glog s) -> Unreg s e.
Proof.
  intros Hs t w e Hin. destruct (Q6_reachable s Hs) as [_ [_ [HU _]]]. apply HU.
  unfold unsched_in. apply existsb_exists. exists (GUnsched t w e). split; auto. simpl. apply Nat.eqb_refl.
Qed.
