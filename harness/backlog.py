"""Shutdown with a large backlog (C06), on the real kernel with the real threads:
a lone MOVED_FROM holds the emitter back (pairing delay), thousands of further events are read by the reader thread
while the emitter does not consume, then stop()+join() must return and every library thread must be gone.
Prints one JSON object.  Run in its own process (real threading, no scheduler twins)."""
from __future__ import annotations

import json
import os
import sys
import threading
import time


def main():
    n = int(sys.argv[1]) if len(sys.argv) > 1 else 2500
    from harness import gated, pipe
    out = {"events_target": 3 * n, "problems": []}
    run = pipe.Run(recursive=True)
    try:
        run.op("touch", ["R", "held"])
        run.drain()
        run.op("rename", ["R", "held"], ["O", "held"])     # a lone MOVED_FROM: delayed at the head of the buffer
        run.read()
        root = run.rootp
        for i in range(n):
            with open(os.path.join(root, "f%d" % (i % 50)), "w"):
                pass
        t0 = time.time()
        try:
            recs = run.g.read()
            out["records_read"] = len(recs)
        except gated.Hang as e:
            out["problems"].append(f"the reader thread did not finish reading a backlog of {3 * n} events: {e}")
        out["read_s"] = round(time.time() - t0, 2)
    finally:
        done = {}

        def closer():
            done["ok"] = run.close()
        th = threading.Thread(target=closer, daemon=True)
        th.start()
        th.join(25)
        if th.is_alive():
            out["problems"].append("stop()+join() did not return within 25 s with a backlog of unconsumed events")
        elif not done.get("ok"):
            out["problems"].append("the observer thread is still alive after stop()+join()")
    time.sleep(0.2)
    alive = [type(t).__name__ for t in threading.enumerate()
             if type(t).__name__ in ("InotifyBuffer", "InotifyEmitter", "InotifyFullEmitter", "InotifyObserver") and t.is_alive()]
    if alive:
        out["problems"].append(f"library threads still alive after stop()+join(): {alive}")
    print(json.dumps(out))
    sys.stdout.flush()
    os._exit(0)


if __name__ == "__main__":
    main()
