(* Model of watchdog.utils.dirsnapshot: the two dictionaries of a DirectorySnapshot and the
   algorithm of DirectorySnapshotDiff.__init__, step by step.  Definitions only.

   A snapshot is the *sequence of insertions* the constructor performs (root first, then the
   entries in walk order): each insertion does `_stat_info[p] = st` and
   `_inode_to_path[(st.st_ino, st.st_dev)] = p`, so both dictionaries are "last insertion wins"
   views of the same sequence.  EmptyDirectorySnapshot is the empty sequence.
   Python sets are lists treated as sets (iteration order of a set is not modelled; every loop
   of the algorithm handles its elements independently of each other).
   A KeyError of `_stat_info[path]` is the outcome None of [diff]. *)
Require Import WD.Base.Prelude.

Definition path := bytes.

Record stat := mkStat { st_ino : N; st_dev : N; st_isdir : bool; st_mtime : N; st_size : N }.

Definition inode := (N * N)%type.                    (* (st_ino, st_dev) *)
Definition inode_of (st : stat) : inode := (st_ino st, st_dev st).
Definition ieqb (a b : inode) : bool := N.eqb (fst a) (fst b) && N.eqb (snd a) (snd b).

Definition snap := list (path * stat).

(* A Python set built from a list / by union: duplicates merge (the last occurrence is kept;
   the order of a set is not modelled anyway). *)
Fixpoint dedup {A} (eqb : A -> A -> bool) (l : list A) : list A :=
  match l with
  | [] => []
  | x :: l' => if existsb (eqb x) l' then dedup eqb l' else x :: dedup eqb l'
  end.

(* set(self._stat_info.keys()) *)
Definition keys (s : snap) : list path := map fst s.
Definition paths (s : snap) : list path := dedup beqb (keys s).
Definition inodes (s : snap) : list inode := map (fun e => inode_of (snd e)) s.

(* self._stat_info[p]  (None = KeyError); the last insertion wins *)
Fixpoint lookup (p : path) (s : snap) : option stat :=
  match s with
  | [] => None
  | (q, st) :: s' =>
    match lookup p s' with
    | Some x => Some x
    | None => if beqb p q then Some st else None
    end
  end.

(* self._inode_to_path.get(i); the last insertion wins *)
Fixpoint path_of (i : inode) (s : snap) : option path :=
  match s with
  | [] => None
  | (q, st) :: s' =>
    match path_of i s' with
    | Some x => Some x
    | None => if ieqb i (inode_of st) then Some q else None
    end
  end.

(* `if new_path:` - None and the empty string are both falsy *)
Definition truthy (o : option path) : option path :=
  match o with Some (c :: p) => Some (c :: p) | _ => None end.

Definition pmem (p : path) (l : list path) : bool := existsb (beqb p) l.
Definition ppeqb (a b : path * path) : bool := beqb (fst a) (fst b) && beqb (snd a) (snd b).
Definition ppmem (x : path * path) (l : list (path * path)) : bool := existsb (ppeqb x) l.

Definition bind {A B} (o : option A) (f : A -> option B) : option B :=
  match o with Some a => f a | None => None end.
Notation "'do' x <- o ; k" := (bind o (fun x => k)) (at level 200, x pattern, o at level 100, k at level 200).

Fixpoint mapM {A B} (f : A -> option B) (l : list A) : option (list B) :=
  match l with
  | [] => Some []
  | x :: l' =>
    match f x, mapM f l' with
    | Some y, Some ys => Some (y :: ys)
    | _, _ => None
    end
  end.

Fixpoint filterM {A} (f : A -> option bool) (l : list A) : option (list A) :=
  match l with
  | [] => Some []
  | x :: l' =>
    match f x, filterM f l' with
    | Some b, Some ys => Some (if b then x :: ys else ys)
    | _, _ => None
    end
  end.

(* snapshot.inode(path) *)
Definition inode_at (s : snap) (p : path) : option inode := option_map inode_of (lookup p s).
Definition isdir_at (s : snap) (p : path) : option bool := option_map st_isdir (lookup p s).

(* get_inode: inode(path)[0] when ignore_device, the pair otherwise *)
Definition gkey (ign : bool) (st : stat) : N * option N :=
  (st_ino st, if ign then None else Some (st_dev st)).
Definition gkeqb (a b : N * option N) : bool :=
  N.eqb (fst a) (fst b) &&
  match snd a, snd b with
  | None, None => true
  | Some x, Some y => N.eqb x y
  | _, _ => false
  end.
Definition get_inode (ign : bool) (s : snap) (p : path) : option (N * option N) :=
  option_map (gkey ign) (lookup p s).

(* ref.mtime(a) != snapshot.mtime(b) or ref.size(a) != snapshot.size(b) *)
Definition ms_differ (a b : stat) : bool :=
  negb (N.eqb (st_mtime a) (st_mtime b)) || negb (N.eqb (st_size a) (st_size b)).

(* the two tagged passes of the move loops: (path, Some other_path) = moved, (path, None) = stays *)
Definition stays (t : list (path * option path)) : list path :=
  flat_map (fun e => match snd e with None => [fst e] | Some _ => [] end) t.
Definition moves_fwd (t : list (path * option path)) : list (path * path) :=
  flat_map (fun e => match snd e with None => [] | Some q => [(fst e, q)] end) t.
Definition moves_bwd (t : list (path * option path)) : list (path * path) :=
  flat_map (fun e => match snd e with None => [] | Some q => [(q, fst e)] end) t.

Record dresult := mkD {
  d_created : list path; d_deleted : list path; d_modified : list path; d_moved : list (path * path);
  dirs_created : list path; dirs_deleted : list path; dirs_modified : list path;
  dirs_moved : list (path * path);
  files_created : list path; files_deleted : list path; files_modified : list path;
  files_moved : list (path * path) }.

Definition empty_diff : dresult := mkD [] [] [] [] [] [] [] [] [] [] [] [].

(* ref.paths & snapshot.paths, snapshot.paths - ref.paths *)
Definition common (r s : snap) : list path := filter (fun p => pmem p (paths s)) (paths r).
Definition minus (a b : list path) : list path := filter (fun p => negb (pmem p b)) a.

(* l.90-94: common paths whose (possibly device-less) inode differs *)
Definition changed (ign : bool) (r s : snap) : option (list path) :=
  filterM (fun p => do a <- get_inode ign r p; do b <- get_inode ign s p; Some (negb (gkeqb a b)))
          (common r s).

(* l.98-104 / l.106-111: full inode of the path in [from], looked up in [other]._inode_to_path *)
Definition tag_moves (from other : snap) (l : list path) : option (list (path * option path)) :=
  mapM (fun p => do i <- inode_at from p; Some (p, truthy (path_of i other))) l.

Definition diff (ign : bool) (r s : snap) : option dresult :=
  let created0 := minus (paths s) (paths r) in
  let deleted0 := minus (paths r) (paths s) in
  do ch <- changed ign r s;
  let created1 := dedup beqb (created0 ++ ch) in
  let deleted1 := dedup beqb (deleted0 ++ ch) in
  do t1 <- tag_moves r s deleted1;
  let deleted2 := stays t1 in
  do t2 <- tag_moves s r created1;
  let created2 := stays t2 in
  let moved := dedup ppeqb (moves_fwd t1 ++ moves_bwd t2) in
  (* l.116-120 *)
  do mod1 <- filterM (fun p => do a <- lookup p r; do b <- lookup p s;
                               Some (gkeqb (gkey ign a) (gkey ign b) && ms_differ a b)) (common r s);
  (* l.122-124 *)
  do mod2 <- filterM (fun m => do a <- lookup (fst m) r; do b <- lookup (snd m) s;
                               Some (ms_differ a b)) moved;
  let modified := dedup beqb (mod1 ++ map fst mod2) in
  (* l.126-134 *)
  do dc <- filterM (isdir_at s) created2;
  do dd <- filterM (isdir_at r) deleted2;
  do dm <- filterM (isdir_at r) modified;
  do dv <- filterM (fun m => isdir_at r (fst m)) moved;
  Some (mkD created2 deleted2 modified moved dc dd dm dv
            (minus created2 dc) (minus deleted2 dd) (minus modified dm)
            (filter (fun m => negb (ppmem m dv)) moved)).

(* "every inode has one path": the well-formedness under which C09 is stated *)
Definition wf (s : snap) : Prop :=
  NoDup (keys s) /\ NoDup (inodes s) /\ ~ In [] (keys s).

(* executable version, for the harness *)
Fixpoint nodupb {A} (eqb : A -> A -> bool) (l : list A) : bool :=
  match l with
  | [] => true
  | x :: l' => negb (existsb (eqb x) l') && nodupb eqb l'
  end.
Definition wfb (s : snap) : bool :=
  nodupb beqb (keys s) && nodupb ieqb (inodes s) && negb (pmem [] (keys s)).
