(* AutoRestartTrick, repaired protocol (serial = true): mutual exclusion of the writers of
   process / process_watcher under the stopping lock, for an unbounded family of watcher threads. *)
Require Import WD.Base.Prelude WD.Base.Lts WD.Model.Restart.

(* ------------------------------------------------------------------ list helpers *)
Lemma nth_error_set_nth {A} (x : A) : forall i l j,
  nth_error (set_nth i x l) j =
  if Nat.eqb i j then match nth_error l i with Some _ => Some x | None => None end else nth_error l j.
Proof.
  induction i as [|i IH]; intros [|y l] [|j]; simpl; try reflexivity.
  - destruct (Nat.eqb i j); reflexivity.
  - apply IH.
Qed.

Lemma nth_set_nth_false : forall i (l : list bool) j,
  nth j (set_nth i false l) false = if Nat.eqb i j then false else nth j l false.
Proof.
  induction i as [|i IH]; intros [|y l] [|j]; simpl; try reflexivity;
    try (destruct (Nat.eqb _ _); reflexivity); try apply IH; try (destruct j; reflexivity).
Qed.

Lemma count_alive_snoc l : count_alive (l ++ [true]) = S (count_alive l).
Proof. unfold count_alive. rewrite filter_app, app_length. simpl. lia. Qed.

Lemma count_alive_kill : forall i l, nth i l false = true ->
  S (count_alive (set_nth i false l)) = count_alive l.
Proof.
  unfold count_alive. induction i as [|i IH]; intros [|b l] H; simpl in *; try discriminate.
  - subst. simpl. reflexivity.
  - destruct b; simpl; rewrite <- (IH l H); reflexivity.
Qed.

Lemma nth_snoc_new (l : list bool) : nth (length l) (l ++ [true]) false = true.
Proof. rewrite app_nth2, Nat.sub_diag; [reflexivity | lia]. Qed.

Lemma length_set_nth {A} (x : A) : forall i l, length (set_nth i x l) = length l.
Proof. induction i; intros [|y l]; simpl; auto. Qed.

(* ------------------------------------------------------------------ thread views *)
Definition is_tm (t : tid) : bool := match t with TM => true | _ => false end.
Definition inside (r : rpc) : bool := match r with RLock | RDone => false | _ => true end.
Definition deep (r : rpc) : bool := match r with RLock | RDone | RCheck | RUnlock => false | _ => true end.
Definition pregion (r : rpc) : bool :=
  match r with PWatcher | PSignal | PWait _ _ | PClear | PLeave => true | _ => false end.
Definition postw (r : rpc) : bool :=
  match r with PSignal | PWait _ _ | PClear | PLeave | SCheck | SSpawn | SWatcher _ => true | _ => false end.
Definition postc (r : rpc) : bool := match r with PLeave | SCheck | SSpawn => true | _ => false end.
Definition mrange (r : rpc) : bool :=
  match r with PEnter | PWatcher | PSignal | PWait _ _ | PClear | PLeave | SCheck => true | _ => false end.
Definition past_flag (m : mpc) : bool := match m with MIdle | MFlag => false | _ => true end.
Definition m_after (m : mpc) : bool := match m with MJoin _ | MReturned => true | _ => false end.

Lemma tid_eqb_eq a b : tid_eqb a b = true <-> a = b.
Proof.
  destruct a, b; simpl; split; intros H; try reflexivity; try discriminate; try congruence.
  - apply Nat.eqb_eq in H. congruence.
  - inversion H. apply Nat.eqb_refl.
Qed.

Lemma tid_dec (a b : tid) : {a = b} + {a <> b}.
Proof. decide equality. apply Nat.eq_dec. Defined.

Record Inv (s : state) : Prop := {
  K1 : forall t r, rp s t = Some r -> is_tm t = false -> inside r = true -> lock s = Some t;
  K2 : forall t, lock s = Some t -> is_tm t = false /\ exists r, rp s t = Some r /\ inside r = true;
  K3 : trick_stopping s = past_flag (mpcs s);
  K4 : forall t r, rp s t = Some r -> is_tm t = false -> deep r = true -> trick_stopping s = false;
  K5 : proc_stopping s = true -> exists t r, rp s t = Some r /\ pregion r = true;
  K6 : forall t r, rp s t = Some r -> postw r = true -> process_watcher s = None;
  K6m : m_after (mpcs s) = true -> process_watcher s = None /\ process s = None;
  K7a : forall t r, rp s t = Some r -> postc r = true -> process s = None;
  K7b : forall t p kt, rp s t = Some (PWait p kt) -> process s = Some p;
  K7c : forall t, rp s t = Some PClear -> forall p, process s = Some p -> child_alive s p = false;
  K8 : alive_children s = 0%nat \/
       (alive_children s = 1%nat /\ exists p, process s = Some p /\ child_alive s p = true);
  K9 : forall r, rp s TM = Some r -> mrange r = true;
  K10 : forall i w, nth_error (watchers s) i = Some w -> w_stopped w = false -> process_watcher s = Some i;
  K11 : (spawns s + pending s = S (admitted s))%nat /\ length (children s) = spawns s /\ (max_alive s <= 1)%nat
}.

(* two threads that may write process / process_watcher are the same thread *)
Definition writer (t : tid) (r : rpc) : bool := if is_tm t then true else deep r.

Lemma deep_inside r : deep r = true -> inside r = true.
Proof. destruct r; simpl; congruence. Qed.

Lemma mutex s t1 r1 t2 r2 : Inv s ->
  rp s t1 = Some r1 -> rp s t2 = Some r2 -> writer t1 r1 = true -> writer t2 r2 = true -> t1 = t2.
Proof.
  intros I H1 H2 W1 W2. unfold writer in *.
  destruct (is_tm t1) eqn:E1, (is_tm t2) eqn:E2.
  - destruct t1, t2; try discriminate; reflexivity.
  - pose proof (K4 s I t2 r2 H2 E2 W2) as F. rewrite (K3 s I) in F.
    destruct t1; try discriminate. simpl in H1. destruct (mpcs s); try discriminate.
  - pose proof (K4 s I t1 r1 H1 E1 W1) as F. rewrite (K3 s I) in F.
    destruct t2; try discriminate. simpl in H2. destruct (mpcs s); try discriminate.
  - pose proof (K1 s I t1 r1 H1 E1 (deep_inside _ W1)). pose proof (K1 s I t2 r2 H2 E2 (deep_inside _ W2)). congruence.
Qed.

(* ------------------------------------------------------------------ frames *)
Definition same_shared (a b : state) : Prop :=
  children b = children a /\ process b = process a /\ process_watcher b = process_watcher a /\
  proc_stopping b = proc_stopping a /\ trick_stopping b = trick_stopping a /\ lock b = lock a /\
  spawns b = spawns a /\ admitted b = admitted a /\ max_alive b = max_alive a.

Definition stopped_at (s : state) (i : nat) : option bool := option_map w_stopped (nth_error (watchers s) i).

(* thread t0 moves to o; everything else as in a *)
Definition moved (t0 : tid) (o : option rpc) (a b : state) : Prop :=
  same_shared a b /\ (forall i, stopped_at b i = stopped_at a i) /\
  rp b t0 = o /\ forall t, t <> t0 -> rp b t = rp a t.

Lemma moved_set_tpc s o : moved TT o s (set_tpc s o).
Proof.
  unfold moved, same_shared, stopped_at; simpl. repeat split; try reflexivity.
  intros t H. destruct t; try reflexivity. congruence.
Qed.

Lemma moved_set_wpc s i w p : nth_error (watchers s) i = Some w ->
  moved (TW i) (match p with WRestart r => Some r | _ => None end) s (set_wpc s i p).
Proof.
  intros H. unfold moved, same_shared, stopped_at, set_wpc. rewrite H. simpl. repeat split; try reflexivity.
  - intros j. rewrite nth_error_set_nth. destruct (Nat.eqb i j) eqn:E; [|reflexivity].
    apply Nat.eqb_eq in E. subst. rewrite H. reflexivity.
  - rewrite nth_error_set_nth, Nat.eqb_refl, H. reflexivity.
  - intros t Ht. destruct t; try reflexivity. simpl. rewrite nth_error_set_nth.
    destruct (Nat.eqb i i0) eqn:E; [|reflexivity]. apply Nat.eqb_eq in E. congruence.
Qed.

Lemma moved_set_mpc s m : moved TM (match m with MStop _ r => Some r | _ => None end) s (set_mpc s m).
Proof.
  unfold moved, same_shared, stopped_at; simpl. repeat split; try reflexivity.
  intros t H. destruct t; try reflexivity. congruence.
Qed.

Lemma nth_error_stop_watcher ws k j :
  nth_error (stop_watcher ws k) j =
  match nth_error ws j with
  | Some x => Some (if Nat.eqb k j then mkw (w_child x) (w_pc x) true else x)
  | None => None
  end.
Proof.
  unfold stop_watcher. destruct (nth_error ws k) as [x|] eqn:E.
  - rewrite nth_error_set_nth. destruct (Nat.eqb k j) eqn:E2.
    + apply Nat.eqb_eq in E2. subst. rewrite E. reflexivity.
    + destruct (nth_error ws j); reflexivity.
  - destruct (Nat.eqb k j) eqn:E2.
    + apply Nat.eqb_eq in E2. subst. rewrite E. reflexivity.
    + destruct (nth_error ws j); reflexivity.
Qed.

Lemma nth_error_snoc {A} (l : list A) x j :
  nth_error (l ++ [x]) j = if Nat.ltb j (length l) then nth_error l j else if Nat.eqb j (length l) then Some x else None.
Proof.
  destruct (Nat.ltb j (length l)) eqn:E.
  - apply Nat.ltb_lt in E. apply nth_error_app1. exact E.
  - apply Nat.ltb_ge in E. rewrite nth_error_app2 by exact E.
    destruct (Nat.eqb j (length l)) eqn:E2.
    + apply Nat.eqb_eq in E2. subst. rewrite Nat.sub_diag. reflexivity.
    + apply Nat.eqb_neq in E2. destruct (j - length l)%nat eqn:D; [lia|]. simpl. destruct n; reflexivity.
Qed.

Section Serial.
  Variable roe : bool.
  Variable ka : N.
  Notation rstep' := (rstep true roe ka).
  Notation M := (restart_lts true roe ka).

  Lemma rstep_frame t0 s r s1 r' : rstep' t0 s r = Some (s1, r') ->
    (forall t, rp s1 t = rp s t) /\ mpcs s1 = mpcs s.
  Proof.
    intros H. destruct r; simpl in H;
      repeat match type of H with
             | context [if ?b then _ else _] => destruct b eqn:?
             | context [match ?x with _ => _ end] => destruct x eqn:?
             end; try discriminate H; inversion H; subst; clear H;
      (split; [intros t; destruct t; try reflexivity | reflexivity]).
    - (* PWatcher *) simpl. rewrite nth_error_stop_watcher. destruct (nth_error (watchers s) i) as [x|]; [|reflexivity].
      destruct (Nat.eqb n i); reflexivity.
    - (* SWatcher *) simpl. rewrite nth_error_snoc. destruct (Nat.ltb i (length (watchers s))) eqn:E; [reflexivity|].
      apply Nat.ltb_ge in E. rewrite (proj2 (nth_error_None _ _) E).
      destruct (Nat.eqb i (length (watchers s))); reflexivity.
  Qed.

  Ltac bsplit H :=
    repeat match type of H with
           | context [if ?b then _ else _] => let E := fresh "E" in destruct b eqn:E
           | context [match ?x with _ => _ end] => let E := fresh "E" in destruct x eqn:E
           end.

  (* rewrite every projection of the moved state into the pre-state's *)
  Ltac shared Hsh :=
    destruct Hsh as (Hch & Hpr & Hpw & Hps & Hts & Hlk & Hsp & Had & Hma).

  Definition move_hyp s t0 r s1 r' s' : Prop :=
    Inv s /\ rp s t0 = Some r /\ rstep' t0 s r = Some (s1, r') /\
    (is_tm t0 = true -> r <> SCheck) /\
    moved t0 (Some r') s1 s' /\ past_flag (mpcs s') = past_flag (mpcs s) /\
    (m_after (mpcs s') = true -> m_after (mpcs s) = true).

  Ltac prep :=
    intros (I & Hr & Hs & Htm & (Hsh & Hst & Hself & Hfr) & Hpf & Hma'); shared Hsh;
    match type of Hs with rstep' ?t0 ?s ?r = Some (?s1, ?r') =>
      destruct (rstep_frame t0 s r s1 r' Hs) as [Hrp1 Hm1];
      match type of Hself with rp ?s2 _ = _ =>
        assert (FR : forall t, t <> t0 -> rp s2 t = rp s t) by (intros; rewrite Hfr, Hrp1; auto) end;
      clear Hfr Hrp1;
      destruct r; simpl in Hs; bsplit Hs; try discriminate Hs; inversion Hs; subst s1 r'; clear Hs;
      unfold stopped_at in Hst; simpl in *;
      try (assert (Hnm : is_tm t0 = false)
             by (destruct t0; try reflexivity; exfalso;
                 first [ pose proof (K9 s I _ Hr) as X; simpl in X; discriminate X
                       | exact (Htm eq_refl eq_refl) ]))
    end.

  Lemma lff_other s t t0 : lock s = Some t -> t <> t0 -> lock_free_for s t0 = false.
  Proof.
    intros L N. unfold lock_free_for. rewrite L. destruct (tid_eqb t t0) eqn:E; [|reflexivity].
    apply tid_eqb_eq in E. contradiction.
  Qed.

  Lemma lff_self s t0 : lock s = Some t0 -> lock_free_for s t0 = true.
  Proof. intros L. unfold lock_free_for. rewrite L. apply tid_eqb_eq. reflexivity. Qed.

  Lemma move_K1 s t0 r s1 r' s' : move_hyp s t0 r s1 r' s' ->
    forall t r2, rp s' t = Some r2 -> is_tm t = false -> inside r2 = true -> lock s' = Some t.
  Proof.
    prep; intros t r2 H Ht Hin; rewrite Hlk;
      (destruct (tid_dec t t0) as [->|Hne];
       [ rewrite Hself in H; inversion H; subst r2; try discriminate Hin;
         try (pose proof (K1 s I t0 _ Hr Ht eq_refl) as L)
       | rewrite (FR t Hne) in H; pose proof (K1 s I t r2 H Ht Hin) as L ]);
      try congruence; try reflexivity.
    all: try (rewrite (lff_other s t t0 L Hne); exact L).
    all: try (rewrite (lff_other s t t0 L Hne) in *; discriminate).
  Qed.

  Lemma move_K2 s t0 r s1 r' s' : move_hyp s t0 r s1 r' s' ->
    forall t, lock s' = Some t -> is_tm t = false /\ exists r2, rp s' t = Some r2 /\ inside r2 = true.
  Proof.
    prep; intros t L; rewrite Hlk in L; try discriminate L.
    all: try (inversion L; subst t; split; [exact Hnm|]; rewrite Hself; eexists; split; reflexivity).
    all: try (exfalso; pose proof (K1 s I t0 _ Hr Hnm eq_refl) as L0; rewrite (lff_self s t0 L0) in *; discriminate).
    all: try (destruct (K2 s I t L) as (A & r2 & B & C); split; [exact A|];
              destruct (tid_dec t t0) as [->|Hne];
              [ rewrite Hself; eexists; split; [reflexivity | reflexivity]
              | rewrite (FR t Hne); eauto ]).
  Qed.

  Lemma move_K3 s t0 r s1 r' s' : move_hyp s t0 r s1 r' s' -> trick_stopping s' = past_flag (mpcs s').
  Proof. prep; rewrite Hpf, <- (K3 s I); congruence. Qed.

  Lemma move_K4 s t0 r s1 r' s' : move_hyp s t0 r s1 r' s' ->
    forall t r2, rp s' t = Some r2 -> is_tm t = false -> deep r2 = true -> trick_stopping s' = false.
  Proof.
    prep; intros t r2 H Ht Hd; rewrite Hts;
      (destruct (tid_dec t t0) as [->|Hne];
       [ rewrite Hself in H; inversion H; subst r2; try discriminate Hd;
         try reflexivity; try exact E; try (apply (K4 s I t0 _ Hr Ht eq_refl))
       | rewrite (FR t Hne) in H; first [reflexivity | apply (K4 s I t r2 H Ht Hd)] ]).
  Qed.

  Lemma move_K5 s t0 r s1 r' s' : move_hyp s t0 r s1 r' s' ->
    proc_stopping s' = true -> exists t r2, rp s' t = Some r2 /\ pregion r2 = true.
  Proof.
    prep; intros P; rewrite Hps in P; try discriminate P.
    all: try (exists t0; eexists; split; [exact Hself | reflexivity]).
    all: destruct (K5 s I P) as (t & r2 & A & B);
      (destruct (tid_dec t t0) as [->|Hne];
       [ rewrite Hr in A; inversion A; subst r2; try discriminate B
       | exists t, r2; rewrite (FR t Hne); auto ]).
  Qed.

  Lemma move_K9 s t0 r s1 r' s' : move_hyp s t0 r s1 r' s' ->
    forall r2, rp s' TM = Some r2 -> mrange r2 = true.
  Proof.
    prep; intros r2 H;
      (destruct (tid_dec TM t0) as [X|Hne];
       [ subst t0; try discriminate Hnm; simpl in Hself; rewrite Hself in H; inversion H; subst r2; try reflexivity
       | pose proof (FR TM Hne) as F; simpl in F; rewrite F in H; apply (K9 s I r2); simpl; exact H ]).
  Qed.

  Lemma writer_deep t r : deep r = true -> writer t r = true.
  Proof. unfold writer. destruct (is_tm t); auto. Qed.
  Lemma postw_deep r : postw r = true -> deep r = true. Proof. destruct r; simpl; congruence. Qed.
  Lemma postc_deep r : postc r = true -> deep r = true. Proof. destruct r; simpl; congruence. Qed.
  Lemma pregion_deep r : pregion r = true -> deep r = true. Proof. destruct r; simpl; congruence. Qed.

  Lemma other_writer s t0 r t r2 : Inv s -> rp s t0 = Some r -> deep r = true ->
    rp s t = Some r2 -> deep r2 = true -> t <> t0 -> False.
  Proof.
    intros I H0 D0 H D N. apply N. apply (mutex s t r2 t0 r I H H0); apply writer_deep; assumption.
  Qed.

  Lemma penter_live s t0 : Inv s -> rp s t0 = Some PEnter -> proc_stopping s = false.
  Proof.
    intros I H. destruct (proc_stopping s) eqn:P; [|reflexivity]. exfalso.
    destruct (K5 s I P) as (t & r2 & A & B). destruct (tid_dec t t0) as [->|N].
    - rewrite H in A. inversion A; subst. discriminate.
    - apply (other_writer s t0 PEnter t r2 I H eq_refl A (pregion_deep _ B) N).
  Qed.

  Lemma m_after_trick s : Inv s -> m_after (mpcs s) = true -> trick_stopping s = true.
  Proof. intros I H. rewrite (K3 s I). destruct (mpcs s); simpl in *; congruence. Qed.

  Lemma move_K6 s t0 r s1 r' s' : move_hyp s t0 r s1 r' s' ->
    forall t r2, rp s' t = Some r2 -> postw r2 = true -> process_watcher s' = None.
  Proof.
    prep; intros t r2 H Hp; rewrite Hpw; try reflexivity; try exact E;
      try (rewrite (penter_live s t0 I Hr) in *; discriminate);
      (destruct (tid_dec t t0) as [->|Hne];
       [ rewrite Hself in H; inversion H; subst r2; try discriminate Hp;
         try (apply (K6 s I t0 _ Hr eq_refl))
       | rewrite (FR t Hne) in H;
         first [ apply (K6 s I t r2 H Hp)
               | exfalso; apply (other_writer s t0 _ t r2 I Hr eq_refl H (postw_deep _ Hp) Hne) ] ]).
  Qed.

  Lemma move_K6m s t0 r s1 r' s' : move_hyp s t0 r s1 r' s' ->
    m_after (mpcs s') = true -> process_watcher s' = None /\ process s' = None.
  Proof.
    prep; intros A; specialize (Hma' A); destruct (K6m s I Hma') as [P1 P2];
      pose proof (m_after_trick s I Hma') as T; rewrite Hpw, Hpr;
      try (split; assumption); try (split; [reflexivity | assumption]); try (split; [assumption | reflexivity]).
    all: try (exfalso; pose proof (K4 s I t0 _ Hr Hnm eq_refl) as F; congruence).
  Qed.

  Lemma move_K7a s t0 r s1 r' s' : move_hyp s t0 r s1 r' s' ->
    forall t r2, rp s' t = Some r2 -> postc r2 = true -> process s' = None.
  Proof.
    prep; intros t r2 H Hp; rewrite Hpr; try reflexivity; try exact E;
      try (rewrite (penter_live s t0 I Hr) in *; discriminate);
      (destruct (tid_dec t t0) as [->|Hne];
       [ rewrite Hself in H; inversion H; subst r2; try discriminate Hp;
         try (apply (K7a s I t0 _ Hr eq_refl)); try assumption
       | rewrite (FR t Hne) in H;
         first [ apply (K7a s I t r2 H Hp)
               | exfalso; apply (other_writer s t0 _ t r2 I Hr eq_refl H (postc_deep _ Hp) Hne) ] ]).
  Qed.

  Lemma move_K7b s t0 r s1 r' s' : move_hyp s t0 r s1 r' s' ->
    forall t p kt, rp s' t = Some (PWait p kt) -> process s' = Some p.
  Proof.
    prep; intros t q kq H; rewrite Hpr;
      (destruct (tid_dec t t0) as [->|Hne];
       [ rewrite Hself in H; inversion H; try subst; try assumption; try reflexivity
       | rewrite (FR t Hne) in H;
         first [ apply (K7b s I t q kq H)
               | exfalso; apply (other_writer s t0 _ t _ I Hr eq_refl H eq_refl Hne) ] ]).
  Qed.

  Lemma move_K7c s t0 r s1 r' s' : move_hyp s t0 r s1 r' s' ->
    forall t, rp s' t = Some PClear -> forall p, process s' = Some p -> child_alive s' p = false.
  Proof.
    prep; intros t H q Hq; unfold child_alive in *; rewrite Hch; rewrite Hpr in Hq;
      (destruct (tid_dec t t0) as [->|Hne];
       [ rewrite Hself in H; inversion H; try subst
       | rewrite (FR t Hne) in H;
         first [ apply (K7c s I t H q Hq)
               | exfalso; apply (other_writer s t0 _ t _ I Hr eq_refl H eq_refl Hne) ] ]).
    - rewrite E in Hq. inversion Hq; subst. exact E0.
    - rewrite (K7b s I t0 _ _ Hr) in Hq. inversion Hq; subst. apply negb_true_iff in E. exact E.
    - rewrite (K7b s I t0 _ _ Hr) in Hq. inversion Hq; subst. rewrite nth_set_nth_false, Nat.eqb_refl. reflexivity.
  Qed.

  Lemma move_K10 s t0 r s1 r' s' : move_hyp s t0 r s1 r' s' ->
    forall i w, nth_error (watchers s') i = Some w -> w_stopped w = false -> process_watcher s' = Some i.
  Proof.
    prep; intros i w Hw Hs; rewrite Hpw; specialize (Hst i); rewrite Hw in Hst; simpl in Hst; rewrite Hs in Hst.
    all: try (destruct (nth_error (watchers s) i) as [x|] eqn:Ex; [|discriminate Hst]; simpl in Hst;
              inversion Hst as [Hx]; symmetry in Hx; apply (K10 s I i x Ex Hx)).
    - exfalso. rewrite nth_error_stop_watcher in Hst.
      destruct (nth_error (watchers s) i) as [x|] eqn:Ex; [|discriminate Hst]. simpl in Hst.
      destruct (Nat.eqb n i) eqn:En; simpl in Hst; [discriminate Hst|].
      inversion Hst as [Hx]. symmetry in Hx. pose proof (K10 s I i x Ex Hx) as P. rewrite E in P.
      inversion P; subst. rewrite Nat.eqb_refl in En. discriminate.
    - rewrite nth_error_snoc in Hst. destruct (Nat.ltb i (length (watchers s))) eqn:El.
      + exfalso. destruct (nth_error (watchers s) i) as [x|] eqn:Ex; [|discriminate Hst]. simpl in Hst.
        inversion Hst as [Hx]. symmetry in Hx. pose proof (K10 s I i x Ex Hx) as P.
        rewrite (K6 s I t0 _ Hr eq_refl) in P. discriminate.
      + destruct (Nat.eqb i (length (watchers s))) eqn:Ee; [|discriminate Hst].
        apply Nat.eqb_eq in Ee. congruence.
  Qed.

  Lemma move_K8 s t0 r s1 r' s' : move_hyp s t0 r s1 r' s' ->
    alive_children s' = 0%nat \/
    (alive_children s' = 1%nat /\ exists p, process s' = Some p /\ child_alive s' p = true).
  Proof.
    prep; unfold alive_children, child_alive in *; rewrite Hch, Hpr; try exact (K8 s I).
    - apply negb_false_iff in E. pose proof (count_alive_kill p (children s) E) as C.
      destruct (K8 s I) as [Z | (Z & _)]; unfold alive_children in Z; left; clear - C Z; lia.
    - destruct (K8 s I) as [Z | (Z & q & Hq & Ha)]; [left; exact Z|].
      exfalso. pose proof (K7c s I t0 Hr q Hq) as D. unfold child_alive in *. congruence.
    - pose proof (K7a s I t0 _ Hr eq_refl) as Pn.
      destruct (K8 s I) as [Z | (Z & q & Hq & Ha)]; [|congruence]. unfold alive_children in Z.
      right. rewrite count_alive_snoc, Z. split; [reflexivity|]. eexists. split; [reflexivity | apply nth_snoc_new].
    - pose proof (K7a s I t0 _ Hr eq_refl) as Pn.
      destruct (K8 s I) as [Z | (Z & q & Hq & Ha)]; [|congruence]. unfold alive_children in Z.
      right. rewrite count_alive_snoc, Z. split; [reflexivity|]. eexists. split; [reflexivity | apply nth_snoc_new].
  Qed.

  Lemma count_le1 s : Inv s -> (count_alive (children s) <= 1)%nat.
  Proof. intros I. destruct (K8 s I) as [Z | (Z & _)]; unfold alive_children in Z; lia. Qed.

  Lemma move_K11 s t0 r s1 r' s' : move_hyp s t0 r s1 r' s' ->
    (spawns s' + pending s' = S (admitted s'))%nat /\ length (children s') = spawns s' /\ (max_alive s' <= 1)%nat.
  Proof.
    intros H. pose proof (move_K8 _ _ _ _ _ _ H) as A8. revert H.
    prep; destruct (K11 s I) as (C1 & C2 & C3); pose proof (count_le1 s I) as C4;
      unfold alive_children in A8; rewrite Hch in A8;
      (split; [| split; [ rewrite Hch, Hsp, ?app_length, ?length_set_nth; simpl; clear - C2; lia
                        | rewrite Hma; try (apply Nat.max_lub); try exact C3; clear - A8 C4; destruct A8 as [Z | (Z & _)]; lia ] ]);
      rewrite Hsp, Had; unfold pending in *; rewrite Hlk.
    all: destruct (is_tm t0) eqn:Em.
    all: try discriminate Hnm.
    all: try (match goal with Em : is_tm _ = true |- _ =>
        destruct (lock s) as [t|] eqn:L;
        [ destruct (K2 s I t L) as [A _];
          assert (Nt : t <> t0) by (intro; subst; congruence);
          rewrite (FR t Nt); exact C1
        | exact C1 ] end).
    all: try (pose proof (K1 s I t0 _ Hr Em eq_refl) as L0).
    all: try (rewrite (lff_self s t0 L0) in *; try discriminate).
    all: try rewrite L0 in *; try rewrite E in C1; try rewrite Hr in C1; try rewrite Hself; simpl in *; try (clear - C1; lia).
    all: exfalso; pose proof (K4 s I t0 _ Hr Em eq_refl); congruence.
  Qed.

  Lemma inv_move s t0 r s1 r' s' : move_hyp s t0 r s1 r' s' -> Inv s'.
  Proof.
    intros H. constructor.
    - exact (move_K1 _ _ _ _ _ _ H).
    - exact (move_K2 _ _ _ _ _ _ H).
    - exact (move_K3 _ _ _ _ _ _ H).
    - exact (move_K4 _ _ _ _ _ _ H).
    - exact (move_K5 _ _ _ _ _ _ H).
    - exact (move_K6 _ _ _ _ _ _ H).
    - exact (move_K6m _ _ _ _ _ _ H).
    - exact (move_K7a _ _ _ _ _ _ H).
    - exact (move_K7b _ _ _ _ _ _ H).
    - exact (move_K7c _ _ _ _ _ _ H).
    - exact (move_K8 _ _ _ _ _ _ H).
    - exact (move_K9 _ _ _ _ _ _ H).
    - exact (move_K10 _ _ _ _ _ _ H).
    - exact (move_K11 _ _ _ _ _ _ H).
  Qed.

  (* ---------------------------------------------------------------- moves outside _restart_process *)
  Lemma inv_local s t0 o' s' :
    Inv s -> moved t0 o' s s' ->
    (forall r, o' = Some r -> if is_tm t0 then r = PEnter else inside r = false) ->
    (forall r, rp s t0 = Some r -> pregion r = false /\ (is_tm t0 = false -> inside r = false)) ->
    past_flag (mpcs s') = past_flag (mpcs s) ->
    (m_after (mpcs s') = true -> process_watcher s = None /\ process s = None) ->
    Inv s'.
  Proof.
    intros I (Hsh & Hst & Hself & FR) Hnew Hold Hpf Hma'. shared Hsh.
    assert (OLD : forall t r, rp s t = Some r -> is_tm t = false -> inside r = true -> t <> t0).
    { intros t r H Ht Hi X. subst t. destruct (Hold r H) as [_ Y]. rewrite (Y Ht) in Hi. discriminate. }
    assert (NEW : forall t r, rp s' t = Some r -> is_tm t = false -> inside r = true -> t <> t0).
    { intros t r H Ht Hi X. subst t. rewrite Hself in H. specialize (Hnew r H). rewrite Ht in Hnew. congruence. }
    constructor.
    - intros t r H Ht Hi. rewrite Hlk. pose proof (NEW t r H Ht Hi) as N. rewrite (FR t N) in H. apply (K1 s I t r H Ht Hi).
    - intros t L. rewrite Hlk in L. destruct (K2 s I t L) as (A & r & B & C). split; [exact A|].
      exists r. rewrite (FR t (OLD t r B A C)). auto.
    - rewrite Hts, Hpf. apply (K3 s I).
    - intros t r H Ht Hd. rewrite Hts. pose proof (NEW t r H Ht (deep_inside _ Hd)) as N. rewrite (FR t N) in H.
      apply (K4 s I t r H Ht Hd).
    - intros P. rewrite Hps in P. destruct (K5 s I P) as (t & r & A & B).
      assert (N : t <> t0) by (intro; subst; destruct (Hold r A) as [Y _]; congruence).
      exists t, r. rewrite (FR t N). auto.
    - intros t r H Hp. rewrite Hpw. destruct (tid_dec t t0) as [->|N].
      + rewrite Hself in H. specialize (Hnew r H). destruct (is_tm t0); [subst; discriminate|].
        rewrite (deep_inside _ (postw_deep _ Hp)) in Hnew. discriminate.
      + rewrite (FR t N) in H. apply (K6 s I t r H Hp).
    - intros A. rewrite Hpw, Hpr. apply Hma'. exact A.
    - intros t r H Hp. rewrite Hpr. destruct (tid_dec t t0) as [->|N].
      + rewrite Hself in H. specialize (Hnew r H). destruct (is_tm t0); [subst; discriminate|].
        rewrite (deep_inside _ (postc_deep _ Hp)) in Hnew. discriminate.
      + rewrite (FR t N) in H. apply (K7a s I t r H Hp).
    - intros t p kt H. rewrite Hpr. destruct (tid_dec t t0) as [->|N].
      + rewrite Hself in H. specialize (Hnew _ H). destruct (is_tm t0); discriminate.
      + rewrite (FR t N) in H. apply (K7b s I t p kt H).
    - intros t H p Hp. unfold child_alive. rewrite Hch. rewrite Hpr in Hp. destruct (tid_dec t t0) as [->|N].
      + rewrite Hself in H. specialize (Hnew _ H). destruct (is_tm t0); discriminate.
      + rewrite (FR t N) in H. apply (K7c s I t H p Hp).
    - unfold alive_children, child_alive. rewrite Hch, Hpr. apply (K8 s I).
    - intros r H. destruct (tid_dec TM t0) as [X|N].
      + subst t0. rewrite Hself in H. specialize (Hnew r H). simpl in Hnew. subst. reflexivity.
      + rewrite (FR TM N) in H. apply (K9 s I r H).
    - intros i w Hw Hs. rewrite Hpw. specialize (Hst i). unfold stopped_at in Hst. rewrite Hw in Hst. simpl in Hst.
      destruct (nth_error (watchers s) i) as [x|] eqn:Ex; [|discriminate Hst]. simpl in Hst. inversion Hst as [Hx].
      apply (K10 s I i x Ex). congruence.
    - destruct (K11 s I) as (C1 & C2 & C3). rewrite Hsp, Had, Hch, Hma. repeat split; auto.
      unfold pending in *. rewrite Hlk. destruct (lock s) as [t|] eqn:L; [|exact C1].
      destruct (K2 s I t L) as (A & r & B & C). rewrite (FR t (OLD t r B A C)). exact C1.
  Qed.
End Serial.
