open Sexp
open Conv
(* case: (repaired interval (item ...))   item: (H e) | S | (T d) | X (one thread step) | C (thread runs, under the
   lock, up to and including its next callback) | L (thread runs while it holds the lock)
   result: (ok ((pc after item) ...) stopped (pending ids) ((td tc (ids)) ...) deadlocked) | (stuck i pc) *)
let pcname = function
  | Debouncer.PInit -> A "Init" | Debouncer.PTop -> A "Top" | Debouncer.POuterWait -> A "OW"
  | Debouncer.POuterReacq -> A "OR" | Debouncer.PInnerCheck -> A "IC"
  | Debouncer.PInnerWait d -> L [A "IW"; sx_n d]
  | Debouncer.PInnerReacq r -> A (if r then "IR1" else "IR0")
  | Debouncer.PStopCheck -> A "SC" | Debouncer.PCallback _ -> A "CB" | Debouncer.PDone -> A "Done"
let ids l = sx_list (fun (e, _) -> sx_n e) l
let fuel = nat_of_int 12

let run = function
  | L [rep; iv; L items] ->
    let rep = bool_of rep and iv = n_of iv in
    let step s l = Debouncer.deb_step rep iv s l in
    let rec go i s acc = function
      | [] ->
        let pend = (match s.Debouncer.pcs with Debouncer.PCallback b -> b | _ -> []) @ s.Debouncer.events in
        L [A "ok"; L (Stdlib.List.rev acc); sx_bool (s.Debouncer.stopped); ids pend;
           sx_list (fun ((td, tc), b) -> L [sx_n td; sx_n tc; ids b]) (s.Debouncer.delivered);
           sx_bool (Debouncer.deadlockedb rep iv s); sx_n (s.Debouncer.clock)]
      | it :: rest ->
        let r = match it with
          | L [A "H"; e] -> step s (Debouncer.HandleEvent (n_of e))
          | A "S" -> step s Debouncer.Stop
          | L [A "T"; d] -> step s (Debouncer.Tick (n_of d))
          | A "X" -> step s Debouncer.Thr
          | A "C" -> Debouncer.run_to_callback rep iv fuel s
          | A "L" -> Some (Debouncer.run_locked rep iv fuel s)
          | _ -> failwith "debouncer: bad item" in
        (match r with
         | None -> L [A "stuck"; sx_int i; pcname (s.Debouncer.pcs)]
         | Some s' -> go (i + 1) s' (pcname (s'.Debouncer.pcs) :: acc) rest) in
    go 0 Debouncer.init_state [] items
  | _ -> failwith "debouncer: bad case"
