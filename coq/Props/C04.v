(* C04 - Queued events reach each registered handler exactly once, in order, no one else.
   Statements only; every proof is `exact <lemma>`.  All statements quantify over every reachable
   state = every label list = every interleaving of dispatcher, emitter and API threads, re-entrant
   calls from callbacks included, for both variants of start() (fixed = false: pinned code). *)
Require Import WD.Base.Prelude WD.Model.Observer WD.Proofs.ObserverProofs WD.Proofs.ObserverExamples.

(* FIFO per watch: what was dequeued so far, followed by what is still queued, is exactly what the
   emitters of that watch enqueued, in order. *)
Theorem C04_fifo : forall s, reachable s -> forall w,
  queued w s = dequeued w s ++ queue_of w (queue s).
Proof. exact fifo. Qed.
Print Assumptions C04_fifo.

(* A put is dropped only when the event equals the last, still undelivered, element of the queue. *)
Theorem C04_coalesce_only_identical_last : forall s e ev s', step s (LESkip e ev) = Some s' ->
  exists m, get_em s e = Some m /\ last_is (queue s) (QEv ev (ew m)) = true /\ queue s' = queue s.
Proof. exact skip_justified. Qed.
Print Assumptions C04_coalesce_only_identical_last.

(* A handler is called only by the dispatcher's turn instruction, only with the event in dispatch and
   its watch, only if it is in the snapshot taken for this event and has not had its turn, and only if
   it is registered for that watch at that moment; its turn is then consumed (at most once per dispatch). *)
Theorem C04_callback_justified : forall s t i k inp s' h w e x,
  exec s t i k inp = Some s' -> glog s' = GCb h w e :: x :: glog s ->
  i = DTurns /\ dcur s = Some (e, w) /\ memN h (dtodo s) = true /\
  memN h (hset w (handlers s)) = true /\ dtodo s' = remN h (dtodo s) /\ x = GTurn h.
Proof. exact exec_callback. Qed.
Print Assumptions C04_callback_justified.

(* In every run, at every callback (h,w,e) the last registration event of (h,w) before it is an add:
   a handler never receives an event of a watch it is not registered for at that moment. *)
Theorem C04_never_foreign : forall s, reachable s ->
  forall l2 h w e l1, glog s = l2 ++ GCb h w e :: l1 -> reg l1 h w = true.
Proof. exact callbacks_registered. Qed.
Print Assumptions C04_never_foreign.

(* Full statement (not proved as one theorem): additionally, a dispatch ends (GTaskDone) only after every
   handler of its snapshot had its turn, so that delivered h w = the dequeued events of w at whose
   dispatch h was in the snapshot and registered at its turn.  In the model this is by construction of
   DTurns (the loop leaves only when dtodo = []); the inductive invariant tying dtodo to the ghost log
   is what is missing. *)
Definition C04_full : Prop := forall s, reachable s -> forall h w,
  exists sel : list bool, length sel = length (dequeued w s) /\
    delivered h w s = map fst (filter snd (combine (dequeued w s) sel)).

Example C04_nonvacuous :
  option_map (fun s => (delivered 1%N 2%N s, queued 2%N s, dequeued 2%N s, queue s)) (run init tr_deliver)
  = Some ([7], [7], [7], [])%N.
Proof. vm_compute. reflexivity. Qed.
