"""Shared machinery of C04/C05/C06: small client programs against the real BaseObserver under the
deterministic scheduler, an observation log, and the three oracles (independent of the Coq model).

A *program* (JSON-able dict):
  nw, nh          number of watches / handlers (watch i = ObservedWatch("/w<i>"), handler j = recording handler j)
  kind            "scripted" | "polling" | "inotify"   (emitter class)
  scripts         {str(w): [event ids]}   events the scripted emitter(s) of watch w put, in order; equal ids = equal events
  threads         [[call...], ...]        API threads a0, a1; a call is ["schedule",h,w] ["unschedule",w] ["add",h,w]
                                          ["remove",h,w] ["unschedule_all"] ["start"] ["stop"] ["join"]
  cbs             {str(h): [[call...], ...]}   what handler h does on its k-th callback (re-entrant calls)
After the API threads are done the main client thread ("m") always runs stop(); join() (the final shutdown).

Observation log = Scheduler.events entries (thread name, kind, ...).  The logical time of an entry is its index.
The kinds that are *model labels* are produced from thin wrappers placed at the points where the state changes
(lock taken/released, queue _put/_get, emitter start/stop/join, flag checks, thread exits, callbacks, returns);
kinds used only by the oracles: call, ret, put_begin, put_end, cb, cbend, emnew.
"""
from __future__ import annotations

import itertools
import os
import shutil
import tempfile
import threading
import time

from harness import detsched as ds

CALLS0 = ("unschedule_all", "start", "stop", "join")


def wpath(w):
    return f"/w{w}"


class Env:
    """Per-run mutable context shared by the emitter / handler / observer wrappers."""

    def __init__(self, prog, sched):
        self.prog = prog
        self.s = sched
        self.cursor = {int(w): 0 for w in prog.get("scripts", {})}
        self.serial = 0
        self.nputs = 0
        self.cbcount = {}
        self.depth = 0          # callback nesting on the dispatcher thread
        self.disp_thread = None
        self.tid = {}           # scheduler thread name -> model thread id
        self.obs = None
        self.handlers = []
        self.scratch = None
        import zlib
        self.mult = (1, 3, 5, 7)[zlib.crc32(repr(sorted(prog.items())).encode()) % 4]


ENV: Env | None = None
RELEASE_YIELD = True      # Observer.v models the unlocked read of _last_item in stop() as a step of its own (IMarker)


def who():
    t = ENV.s.me()
    n = t.name if t else "main"
    return ENV.tid.get(n, "d")


def make_classes():
    """Classes bound to the scheduler twins (call after ds.install())."""
    from watchdog.events import FileModifiedEvent, FileSystemEventHandler
    from watchdog.observers.api import BaseObserver, EventDispatcher, EventEmitter, ObservedWatch

    th = ds  # twins

    class LogRLock(ds.RLock):
        def _take(self, t):
            super()._take(t)
            ENV.s.log("acq", who(), self.count)

        def _after_release(self):
            # log first (the lock is free already), then let the scheduler pre-empt
            if ENV is not None and ENV.s is ds.CUR and not ENV.s.killed:
                ENV.s.log("rel", who(), self.count)
            super()._after_release()

    class ScriptedEmitter(EventEmitter):
        def __init__(self, event_queue, watch, *, timeout=1.0, event_filter=None):
            super().__init__(event_queue, watch, timeout=timeout, event_filter=event_filter)
            self.serial = ENV.serial
            ENV.serial += 1
            self.w = int(watch.path[2:])
            ENV.s.log("emnew", self.serial, self.w)

        def __hash__(self):
            # BaseObserver keeps its emitters in a set: an address-based hash would make the iteration order of
            # _clear_emitters (and with it the rest of the schedule) differ from run to run; replays need it fixed
            n = getattr(self, "serial", 0)
            return 2000 + 8 * n + ((n + 1) * ENV.mult) % 8      # ENV.mult (odd, from the program) varies the set order

        def __eq__(self, o):
            return self is o

        def start(self):
            ENV.s.log("emstart", who(), self.serial, self.ident is not None)
            super().start()

        def on_thread_stop(self):
            ENV.s.log("emstop", who(), self.serial)

        def join(self, timeout=None):
            try:
                super().join(timeout)
            except RuntimeError:
                ENV.s.log("emjoin", who(), self.serial, False)
                raise
            ENV.s.log("emjoin", who(), self.serial, True)

        def should_keep_running(self):
            r = super().should_keep_running()
            ENV.s.log("echeck", self.serial, r)
            return r

        def run(self):
            try:
                super().run()
            finally:
                if not ENV.s.killed:
                    ENV.s.log("eexit", self.serial)

        def queue_events(self, timeout):
            sc = ENV.prog["scripts"].get(str(self.w), [])
            i = ENV.cursor.get(self.w, 0)
            if i < len(sc):
                ENV.cursor[self.w] = i + 1
                ev = mk_event(self.w, sc[i])
                n0 = ENV.nputs
                ENV.s.log("put_begin", self.serial, self.w, sc[i], i)
                self.queue_event(ev)
                if ENV.nputs == n0:
                    ENV.s.log("putskip", self.serial, self.w, sc[i])
                ENV.s.log("put_end", self.serial, self.w, sc[i], i)
            else:
                self.stopped_event.wait(timeout)

    class Handler(FileSystemEventHandler):
        def __init__(self, h):
            self.h = h

        def __hash__(self):
            s = ENV.s
            if not s.killed and ENV.depth == 0 and ENV.disp_thread is not None and s.me() is ENV.disp_thread \
                    and ENV.in_dispatch:
                s.log("turn", self.h)
            return 1000 + self.h

        def __eq__(self, o):
            return self is o

        def dispatch(self, event):
            w, e = dec(event)
            k = ENV.cbcount.get(self.h, 0)
            ENV.cbcount[self.h] = k + 1
            scr = ENV.prog.get("cbs", {}).get(str(self.h), [])
            calls = scr[k] if k < len(scr) else []
            ENV.s.log("cb", self.h, w, e, calls)
            ENV.depth += 1
            try:
                for c in calls:
                    do_call("d", c)
            finally:
                ENV.depth -= 1
            ENV.s.log("cbend", self.h, w, e)

    class Obs(BaseObserver):
        """BaseObserver + observation points (no behaviour change)."""

        def should_keep_running(self):
            r = super().should_keep_running()
            ENV.s.log("dcheck", r)
            return r

        def on_thread_stop(self):
            ENV.s.log("dsetflag", who())
            super().on_thread_stop()

        def _clear_emitters(self):
            ENV.s.log("clear", who(), [getattr(e, "serial", -1) for e in self.emitters])
            super()._clear_emitters()

        def on_thread_start(self):
            ENV.s.log("dstart", who(), self.ident is not None)

        def dispatch_events(self, q):
            ENV.disp_thread = ENV.s.me()
            ENV.in_dispatch = True
            try:
                super().dispatch_events(q)
            finally:
                ENV.in_dispatch = False

        def run(self):
            try:
                super().run()
            finally:
                if not ENV.s.killed:
                    ENV.s.log("dexit")

    return dict(LogRLock=LogRLock, ScriptedEmitter=ScriptedEmitter, Handler=Handler, Obs=Obs,
                ObservedWatch=ObservedWatch, EventDispatcher=EventDispatcher)


_CLS = None


def classes():
    global _CLS
    if _CLS is None:
        ds.install()
        _CLS = make_classes()
    return _CLS


def do_call(tid, c):
    """Execute one API call, logging call/ret with the exception type (None = returned normally)."""
    C = classes()
    obs, s = ENV.obs, ENV.s
    s.log("call", tid, c)
    exc = None
    try:
        op = c[0]
        if op == "schedule":
            obs.schedule(ENV.handlers[c[1]], ENV.wp(c[2]))
        elif op == "unschedule":
            obs.unschedule(C["ObservedWatch"](ENV.wp(c[1]), recursive=False))
        elif op == "add":
            obs.add_handler_for_watch(ENV.handlers[c[1]], C["ObservedWatch"](ENV.wp(c[2]), recursive=False))
        elif op == "remove":
            obs.remove_handler_for_watch(ENV.handlers[c[1]], C["ObservedWatch"](ENV.wp(c[2]), recursive=False))
        elif op == "unschedule_all":
            obs.unschedule_all()
        elif op == "start":
            obs.start()
        elif op == "stop":
            obs.stop()
        elif op == "join":
            obs.join()
        elif op == "rootgone":
            # the watched directory disappears (fake kernel only): its watch is dropped, DELETE_SELF/IGNORED are queued
            k = getattr(ENV, "kernel", None)
            if k is not None:
                k.path_gone(os.fsencode(ENV.wp(c[1])))
        elif op == "pause":
            ds._sleep(0.5)
        else:
            raise ValueError(op)
    except ds.ThreadKilled:
        raise
    except Exception as e:  # noqa: BLE001 - a raising call is a result, not a harness error
        exc = type(e).__name__
        s.log("ret", tid, c, exc, str(e)[:80])
        return exc
    s.log("ret", tid, c, None, "")
    return None


LINE_YIELD_FILES = ("watchdog/observers/api.py",)


def line_tracer(s):
    """prog["line_yield"]: a scheduling point before EVERY source line of the observer's own methods (BaseObserver /
    EventDispatcher / EventEmitter in observers/api.py), not only at synchronisation operations - so that a step the code
    takes without the lock it should hold (a check and the call it guards, an unlocked update) can be overtaken.  Only the
    oracle judges such runs (sound for any interleaving); the lock-step model is not replayed on them."""
    def local(frame, event, arg):
        if event == "line" and not s.killed and s.me() is not None:
            s.yield_point("line")
        return local

    def tracer(frame, event, arg):
        if event == "call" and frame.f_code.co_filename.replace(os.sep, "/").endswith(LINE_YIELD_FILES):
            return local
        return None
    return tracer


def run_program(prog, chooser, max_steps=6000):
    """Run one program under one schedule. Returns the finished Scheduler (s.events = observation log)."""
    global ENV
    C = classes()
    s = ds.Scheduler(chooser, max_steps=max_steps)
    env = ENV = Env(prog, s)
    env.in_dispatch = False
    kind = prog.get("kind", "scripted")
    undo = None
    if kind == "scripted":
        env.wp = wpath
        obs = C["Obs"](emitter_class=C["ScriptedEmitter"])
    else:
        env.scratch = tempfile.mkdtemp(prefix="wdo", dir="/dev/shm" if os.path.isdir("/dev/shm") else None)
        for w in range(prog["nw"]):
            os.makedirs(os.path.join(env.scratch, f"w{w}", "sub"))
        env.wp = lambda w: os.path.join(env.scratch, f"w{w}")
        if kind == "polling":
            from watchdog.observers.polling import PollingEmitter
            obs = C["Obs"](emitter_class=PollingEmitter)
        else:
            from harness import fakefd
            from watchdog.observers.inotify import InotifyEmitter
            k = fakefd.FakeKernel()
            k.block = lambda pred, what: s.yield_point(what, pred)
            undo = fakefd.install(k)
            env.kernel = k
            obs = C["Obs"](emitter_class=InotifyEmitter)
    # observation points on the instance (private names only to PLACE them)
    lk = C["LogRLock"]()
    if hasattr(obs, "_lock"):
        obs._lock = lk
    q = obs.event_queue
    marker = C["EventDispatcher"].stop_event
    if hasattr(q, "_put") and hasattr(q, "_get"):
        oput, oget, otd = q._put, q._get, q.task_done

        def _put(item):
            oput(item)
            env.nputs += 1
            if item is marker:
                s.log("putm", who())
            else:
                ev, w = item
                t = s.me()
                s.log("put", getattr(getattr(t, "obj", None), "serial", -1), *dec(ev))

        def _get():
            item = oget()
            if item is marker:
                s.log("get", "stop")
            else:
                s.log("get", *dec(item[0]))
            return item

        def task_done():
            s.log("taskdone")
            otd()

        q._put, q._get, q.task_done = _put, _get, task_done
        if hasattr(q, "_last_item"):
            opub = q.put

            def put(item, block=True, timeout=None):
                # SkipRepeatsQueue.put reads _last_item before it takes the queue mutex: for the stop marker that read
                # is a model step of its own.  No scheduling point between this log entry and the read in opub.
                if item is marker:
                    li = q._last_item
                    s.log("mread", who(), li is not None and not (item != li))
                return opub(item, block, timeout)

            q.put = put
    env.obs = obs
    env.handlers = [C["Handler"](h) for h in range(prog["nh"])]
    threads = prog.get("threads", [])
    done = [False] * len(threads)

    def api(i):
        def f():
            for c in threads[i]:
                do_call(f"a{i}", c)
            done[i] = True
        return f

    def main():
        s.yield_point("wait-apis", lambda: all(done))
        if prog.get("settle", 2.5):
            ds._sleep(prog.get("settle", 2.5))
        for c in prog.get("final", [["stop"], ["join"]]):
            do_call("m", c)

    for i in range(len(threads)):
        env.tid[s.spawn(f"a{i}", api(i)).name] = f"a{i}"
    env.tid[s.spawn("m", main).name] = "m"
    saved_yar = ds.YIELD_AFTER_RELEASE
    ds.YIELD_AFTER_RELEASE = RELEASE_YIELD        # also pre-empt right after a lock is released (state updated outside the lock)
    if prog.get("line_yield"):
        threading.settrace(line_tracer(s))        # managed threads are started by s.run(): they inherit the trace function
    try:
        s.run()
    finally:
        if prog.get("line_yield"):
            threading.settrace(None)
        ds.YIELD_AFTER_RELEASE = saved_yar
        if undo:
            undo()
        if env.scratch:
            shutil.rmtree(env.scratch, ignore_errors=True)
        ENV_done = env  # noqa: F841
    s.env = env
    return s


NVAR = 8     # variants per base event: ids base*8+v; ids v, v' of one base differ in exactly the field named below


def mk_event(w, x):
    """Scripted event id -> event.  Variants of one base share the source path and differ ONLY in:
    0 FileModified | 1 = 0 but is_synthetic | 2 class (FileCreated) | 3 is_directory (DirModified) |
    4 FileMoved to <src>d | 5 = 4 but dest_path <src>x | 6 = 4 but is_synthetic | 7 = 4 but DirMoved."""
    from watchdog import events as E
    base, v = divmod(int(x), NVAR)
    src = f"/w{w}/e{base}"
    if v == 0:
        return E.FileModifiedEvent(src)
    if v == 1:
        return E.FileModifiedEvent(src, is_synthetic=True)
    if v == 2:
        return E.FileCreatedEvent(src)
    if v == 3:
        return E.DirModifiedEvent(src)
    if v == 4:
        return E.FileMovedEvent(src, src + "d")
    if v == 5:
        return E.FileMovedEvent(src, src + "x")
    if v == 6:
        return E.FileMovedEvent(src, src + "d", is_synthetic=True)
    return E.DirMovedEvent(src, src + "d")


def dec(ev):
    """event -> (watch, scripted id); inverse of mk_event (every field of the event takes part)."""
    p = ev.src_path
    if isinstance(p, bytes):
        p = os.fsdecode(p)
    if not (p.startswith("/w") and "/e" in p):
        return -1, -1
    w, base = int(p[2:p.index("/", 1)]), int(p[p.rindex("e") + 1:])
    syn = bool(getattr(ev, "is_synthetic", False))
    dest = getattr(ev, "dest_path", "") or ""
    if ev.event_type == "modified" and not dest:
        v = 3 if ev.is_directory else (1 if syn else 0)
        if ev.is_directory and syn:
            return -1, -1
    elif ev.event_type == "created" and not ev.is_directory and not syn and not dest:
        v = 2
    elif ev.event_type == "moved" and dest == p + "d":
        v = 7 if ev.is_directory else (6 if syn else 4)
        if ev.is_directory and syn:
            return -1, -1
    elif ev.event_type == "moved" and dest == p + "x" and not ev.is_directory and not syn:
        v = 5
    else:
        return -1, -1
    return w, base * NVAR + v


# ------------------------------------------------------------------------------------------------ model adapter
def start_is_locked():
    """Which variant of BaseObserver.start() is under test (pinned: no lock; repair F16: under the observer lock)."""
    import inspect

    from watchdog.observers.api import BaseObserver
    try:
        return "_lock" in inspect.getsource(BaseObserver.start)
    except (OSError, TypeError):
        return False


def to_wire(events, fixed=False):
    """Observation log -> wire items of the `observer` model (harness.core.sx format)."""
    from harness.core import Atom
    A = Atom
    b = lambda x: A("1" if x else "0")  # noqa: E731
    out = []
    i, n = 0, len(events)
    pending_ord = {}     # tid -> emitter order of a start() whose copy is taken after the next acq
    while i < n:
        e = events[i]
        k = e[1]
        i += 1
        if k in ("call", "ret") and e[3][0] == "pause":
            continue
        if k == "call":
            out.append([A("call"), A(e[2]), [A(e[3][0])] + list(e[3][1:])])
            if e[3][0] == "start":
                # the order in which start() visits the emitters = its emstart observations up to its return
                order, depth = [], 0
                for f in events[i:]:
                    if f[1] == "call" and f[2] == e[2]:
                        depth += 1
                    elif f[1] == "ret" and f[2] == e[2]:
                        if depth == 0:
                            break
                        depth -= 1
                    elif f[1] == "emstart" and f[2] == e[2] and depth == 0:
                        order.append(f[3])
                if fixed:
                    pending_ord[e[2]] = order
                else:
                    out.append([A("ordprefix"), A(e[2]), order])
        elif k == "ret":
            out.append([A("ret"), A(e[2]), [A(e[3][0])] + list(e[3][1:]), b(e[4] is not None)])
        elif k == "mread":
            out.append([A(k), A(e[2]), b(e[3])])
        elif k in ("acq", "rel", "dsetflag", "putm"):
            out.append([A(k), A(e[2])])
            if k == "acq" and e[2] in pending_ord:
                out.append([A("ordprefix"), A(e[2]), pending_ord.pop(e[2])])
        elif k == "clear":
            out.append([A("ord"), A(e[2]), list(e[3])])
        elif k == "emstart":
            out.append([A(k), A(e[2]), e[3], b(e[4])])
        elif k == "emstop":
            out.append([A(k), A(e[2]), e[3]])
        elif k == "emjoin":
            out.append([A(k), A(e[2]), e[3], b(e[4])])
        elif k == "dstart":
            out.append([A(k), A(e[2]), b(e[3])])
        elif k == "echeck":
            out.append([A(k), e[2], b(e[3])])
        elif k in ("put", "putskip"):
            out.append([A(k), e[2], e[3], e[4]])
        elif k == "eexit":
            out.append([A(k), e[2]])
        elif k == "dcheck":
            out.append([A(k), b(e[2])])
        elif k in ("dexit", "taskdone"):
            out.append([A(k)])
        elif k == "get":
            out.append([A("get"), A("stop")] if e[2] == "stop" else [A("get"), e[2], e[3]])
        elif k == "turn":
            if i < n and events[i][1] == "cb" and events[i][2] == e[2]:
                c = events[i]
                i += 1
                out.append([A("turn"), e[2], [[A(x[0])] + list(x[1:]) for x in c[5] if x[0] != "pause"], [c[3], c[4]]])
            else:
                out.append([A("turn"), e[2], [], []])
        elif k == "cb":
            out.append([A("cb-without-turn"), e[2]])
    return out


def lockstep(runs):
    """runs: list of (prog, Scheduler). Replays each observation log through the extracted model.
    Returns list of (index, result sexp)."""
    from harness import core
    fx = start_is_locked()
    cases = [core.sx([core.Atom("replay"), core.Atom("1" if fx else "0")] + to_wire(s.events, fx)) for _, s in runs]
    return core.run_model("observer", cases)


# ------------------------------------------------------------------------------------------------ oracles
def removes(c):
    """(h, w) pairs a call removes: h/w None = all."""
    op = c[0]
    if op == "remove":
        return (c[1], c[2])
    if op == "unschedule":
        return (None, c[1])
    if op in ("unschedule_all", "stop"):
        return (None, None)
    return None


def adds(c):
    if c[0] in ("schedule", "add"):
        return (c[1], c[2])
    return None


def call_intervals(ev):
    """[(start, end|None, tid, call, exc)] from the call/ret entries (calls of one tid nest only via callbacks)."""
    out, open_ = [], {}
    for i, e in enumerate(ev):
        if e[1] == "call":
            open_.setdefault(e[2], []).append((i, e[3]))
        elif e[1] == "ret":
            st, c = open_[e[2]].pop()
            out.append((st, i, e[2], c, e[4]))
    for tid, l in open_.items():
        for st, c in l:
            out.append((st, None, tid, c, "unfinished"))
    return sorted(out)


def status_fn(calls, h, w):
    """status(t) in {'in','out','?'} of (h,w) from the API call intervals only (linearisability reasoning)."""
    rel = []
    for st, en, tid, c, exc in calls:
        a, r = adds(c), removes(c)
        eff = None
        if a == (h, w):
            eff = "in"
        elif r is not None and r[0] in (None, h) and r[1] in (None, w):
            eff = "out"
        if c[0] == "start" and exc not in (None, "unfinished"):
            eff = "?"
        if eff is None:
            continue
        if exc is not None and exc != "unfinished" and c[0] != "start":
            if c[0] in ("remove", "unschedule") and exc == "KeyError":
                continue        # raised before any mutation
            eff = "?"
        rel.append((st, en, eff))

    def status(t):
        if any(st <= t and (en is None or t <= en) for st, en, _ in rel):
            return "?"
        past = [(st, en, eff) for st, en, eff in rel if en is not None and en < t]
        if not past:
            return "out"
        last = [x for x in past if not any(y[0] > x[1] for y in past)]
        effs = {x[2] for x in last}
        return effs.pop() if len(effs) == 1 and "?" not in effs else "?"

    return status


def interval_status(status, calls, lo, hi):
    """'in' / 'out' if the status is definite and constant on [lo, hi], else '?'."""
    pts = {lo, hi}
    for st, en, *_ in calls:
        for p in (st, en):
            if p is not None and lo <= p <= hi:
                pts.update((p, min(hi, p + 1), max(lo, p - 1)))
    vals = {status(p) for p in pts}
    return vals.pop() if len(vals) == 1 else "?"


def oracle_c04(prog, s):
    """Property text of C04 on the observation log. Returns list of (law, detail)."""
    ev = s.events
    bad = []
    calls = call_intervals(ev)
    # puts per watch in emitter order (the emitter's own record), dequeues, callbacks
    puts = {}
    for i, e in enumerate(ev):
        if e[1] == "put_begin":
            puts.setdefault(e[3], []).append(dict(t=i, e=e[4], k=e[5], deq=None))
    gets = [(i, e) for i, e in enumerate(ev) if e[1] == "get"]
    ends = [i for i, e in enumerate(ev) if e[1] in ("get", "dexit")] + [len(ev)]
    cbs = [(i, e[2], e[3], e[4]) for i, e in enumerate(ev) if e[1] == "cb"]
    # order + coalescing: the dequeued events of w are the put events of w in order, minus allowed skips
    for w, pl in puts.items():
        dq = [(i, e[3]) for i, e in gets if e[2] == w]
        j = 0
        for k, p in enumerate(pl):
            if j < len(dq) and dq[j][1] == p["e"] and dq[j][0] > p["t"]:
                p["deq"] = dq[j][0]
                j += 1
                continue
            prev = pl[k - 1] if k else None
            coalescable = prev is not None and prev["e"] == p["e"] and (prev["deq"] is None or prev["deq"] > p["t"])
            if j >= len(dq) or coalescable:
                continue     # still queued at the end / coalesced into its undelivered predecessor
            bad.append(("order", f"watch {w}: dequeued {dq[j][1]} where queued event {p['e']} (put #{k}) was next"))
            break
        else:
            if j < len(dq):
                bad.append(("foreign-event", f"watch {w}: dequeued event {dq[j][1]} that no emitter queued"))
    for i, e in gets:
        if e[2] != "stop" and e[2] not in puts:
            bad.append(("foreign-event", f"dequeued event of watch {e[2]} that no emitter queued"))
    # exactly once to the handlers registered during the dispatch; never to a foreign handler
    stat = {(h, w): status_fn(calls, h, w) for h in range(prog["nh"]) for w in range(prog["nw"])}
    used = set()
    for gi, (t0, e) in enumerate(gets):
        if e[2] == "stop":
            continue
        w, x = e[2], e[3]
        t1 = min(t for t in ends if t > t0)
        for h in range(prog["nh"]):
            mine = [c for c in cbs if t0 < c[0] < t1 and c[1] == h]
            for c in mine:
                used.add(c[0])
                if (c[2], c[3]) != (w, x):
                    bad.append(("wrong-event", f"handler {h} got ({c[2]},{c[3]}) during the dispatch of ({w},{x})"))
            st = interval_status(stat[(h, w)], calls, t0, t1)
            n = len(mine)
            if n > 1:
                bad.append(("twice", f"handler {h} got event ({w},{x}) {n} times"))
            if st == "in" and n == 0:
                bad.append(("lost", f"handler {h} registered for watch {w} throughout the dispatch of event {x} did not get it"))
            if st == "out" and n > 0:
                bad.append(("foreign-handler", f"handler {h} not registered for watch {w} got its event {x}"))
    for c in cbs:
        if c[0] not in used:
            bad.append(("spurious", f"callback {c[1:]} outside any dispatch"))
    # "a handler never receives an event of a watch it is not registered for": registration AT THE MOMENT of the callback.
    # A registration that a completed unschedule / remove / unschedule_all / stop took away and that no later (or
    # overlapping) call gave back to THIS handler does not count - also when the removal was made by an earlier callback
    # of the same dispatch (the interval test above is blind there: the status changes inside the dispatch interval).
    for (tc, h, w, x) in cbs:
        if 0 <= h < prog["nh"] and 0 <= w < prog["nw"] and stat[(h, w)](tc) == "out":
            bad.append(("foreign-handler", f"handler {h} got event {x} of watch {w} at {tc} although it was not registered "
                                           f"for that watch at that moment"))
    # an event may be dropped by the queue only if it is identical to the immediately preceding, still undelivered one
    skips = [(i, e[3], e[4]) for i, e in enumerate(ev) if e[1] == "putskip"]
    for (ts, w, x) in skips:
        pl = puts.get(w, [])
        k = max((k for k, p in enumerate(pl) if p["t"] < ts), default=None)
        prev = pl[k - 1] if k else None
        ok = prev is not None and prev["e"] == x and (prev["deq"] is None or prev["deq"] > pl[k]["t"])
        if not ok:
            bad.append(("dropped", f"watch {w}: queued event {x} was dropped although it is not identical to the immediately "
                                   f"preceding undelivered event ({None if prev is None else prev['e']})"))
    return bad


def oracle_c05(prog, s):
    ev = s.events
    bad = []
    calls = call_intervals(ev)
    cbs = [(i, e[2], e[3], e[4]) for i, e in enumerate(ev) if e[1] == "cb"]
    emnew = {e[2]: (i, e[3]) for i, e in enumerate(ev) if e[1] == "emnew"}
    putb = [(i, e[2], e[3]) for i, e in enumerate(ev) if e[1] == "put_begin"]
    n_checked = 0
    for st, en, tid, c, exc in calls:
        r = removes(c)
        if r is None or exc is not None:
            continue
        n_checked += 1
        for (t, h, w, x) in cbs:
            if t < en or r[0] not in (None, h) or r[1] not in (None, w):
                continue
            # a later (or overlapping) adding call may have re-added (h, w)
            readd = any(adds(c2) == (h, w) and st2 < t and (en2 is None or en2 > st)
                        for st2, en2, _, c2, _ in calls)
            if not readd:
                bad.append(("callback-after-return", f"{c} by {tid} returned at {en}; handler {h} called for watch {w} at {t}",
                            c[0], tid == "d"))
        if c[0] in ("unschedule", "unschedule_all", "stop"):
            for (t, ser, w) in putb:
                if t > en and r[1] in (None, w) and ser in emnew and emnew[ser][0] < st:
                    bad.append(("put-after-unschedule", f"{c} by {tid} returned at {en}; emitter {ser} of watch {w} put at {t}",
                                c[0], tid == "d"))
    return bad, n_checked


EXPECTED_EXC = {"KeyError", "RuntimeError"}


def oracle_c06(prog, s):
    bad = []
    if s.deadlock is not None:
        bad.append(("deadlock", str(s.deadlock)[:300]))
    if s.livelock:
        bad.append(("livelock", f"no progress in {s.steps} steps; last: {s.trace[-6:]}"))
    if not s.deadlock and not s.livelock:
        fin = [e for e in s.events if e[1] == "ret" and e[2] == "m"]
        if s.alive_after:
            bad.append(("thread-alive-after-join", f"{s.alive_after} after {[(e[3], e[4]) for e in fin]}"))
    for n, e in s.uncaught():
        bad.append(("uncaught", f"thread {n}: {type(e).__name__}: {e}"))
    k = getattr(s.env, "kernel", None)
    return bad


# ------------------------------------------------------------------------------------------------ generators
def gen_program(rng, kind="scripted", reentrant=None, max_calls=4, ops=None):
    nw, nh = rng.randint(1, 3), rng.randint(1, 3)
    ops = ops or ["schedule", "schedule", "unschedule", "add", "remove", "unschedule_all", "start", "stop"]

    def call():
        op = rng.choice(ops)
        if op in ("schedule", "add", "remove"):
            return [op, rng.randrange(nh), rng.randrange(nw)]
        if op in ("unschedule", "rootgone"):
            return [op, rng.randrange(nw)]
        return [op]
    if kind == "inotify" and "rootgone" not in ops:
        ops = ops + ["rootgone", "rootgone"]
    # a prelude that makes most programs interesting: schedule some, start
    pre = []
    for w in range(nw):
        if rng.random() < 0.8:
            pre.append(["schedule", rng.randrange(nh), w])
    if rng.random() < 0.85:
        pre.insert(rng.randint(0, len(pre)), ["start"])
    n = rng.randint(1, max_calls)
    body = [call() for _ in range(n)]
    for i in range(len(body), 0, -1):
        if rng.random() < 0.3:
            body.insert(i - 1, ["pause"])
    nt = rng.choice([1, 2, 2])
    threads = [[] for _ in range(nt)]
    threads[0] = list(pre)
    for c in body:
        threads[rng.randrange(nt)].append(c)
    ne = rng.randint(1, 6)
    scripts = {str(w): [] for w in range(nw)}
    nxt = 0
    for _ in range(ne):
        w = rng.randrange(nw)
        sc = scripts[str(w)]
        r = rng.random()
        if sc and r < 0.2:
            sc.append(sc[-1])          # identical to its predecessor: may be coalesced
        elif sc and r < 0.45:
            # a near-twin of its predecessor: same source path, differs in exactly one field (class, is_directory,
            # dest_path, is_synthetic - see mk_event): must NOT be coalesced
            base, v = divmod(sc[-1], NVAR)
            sc.append(base * NVAR + rng.choice([x for x in range(NVAR) if x != v]))
        else:
            sc.append(nxt * NVAR + rng.randrange(NVAR))
            nxt += 1
    cbs = {}
    if reentrant is None:
        reentrant = rng.random() < 0.5
    if reentrant:
        cops = ["schedule", "unschedule", "add", "remove", "remove", "unschedule_all", "stop", "unschedule", "join"]
        for _ in range(rng.randint(1, 2)):
            h = rng.randrange(nh)
            k = rng.randint(0, 1)
            l = cbs.setdefault(str(h), [])
            while len(l) <= k:
                l.append([])
            for _ in range(rng.randint(1, 2)):
                op = rng.choice(cops)
                if op in ("schedule", "add", "remove"):
                    l[k].append([op, rng.randrange(nh), rng.randrange(nw)])
                elif op == "unschedule":
                    l[k].append([op, rng.randrange(nw)])
                else:
                    l[k].append([op])
    return dict(nw=nw, nh=nh, kind=kind, scripts=scripts, threads=threads, cbs=cbs)


def gen_cohandler_program(rng):
    """Directed family: 2-3 handlers registered for ONE watch (through equal-but-not-identical schedule() calls), several
    events queued for it, and one handler removing things from inside its callback (unschedule / unschedule_all / stop /
    remove of a co-handler) - the in-flight event must not reach the handlers that the call removed."""
    nh = rng.randint(2, 3)
    nw = rng.randint(1, 2)
    pre = [["schedule", h, 0] for h in range(nh)]
    if nw == 2:
        pre.append(["schedule", rng.randrange(nh), 1])
    pre.insert(rng.randint(0, len(pre)), ["start"])
    scripts = {"0": [0, 1, 2][: rng.randint(2, 3)]}
    if nw == 2:
        scripts["1"] = [7, 8][: rng.randint(1, 2)]
    actor = rng.randrange(nh)
    other = rng.choice([h for h in range(nh) if h != actor])
    op = rng.choice([["unschedule", 0], ["unschedule_all"], ["stop"], ["remove", other, 0], ["unschedule", 0]])
    k = rng.randint(0, 1)
    cb = [[] for _ in range(k + 1)]
    # "restart the watch" idiom: the removing callback schedules an equal watch again, for itself or for one co-handler;
    # every co-handler that is not re-registered must not get the event in flight (nor any later one)
    cb[k] = [op] + ([["schedule", rng.choice([actor, other]), 0]] if rng.random() < 0.4 and op[0] != "stop" else [])
    threads = [pre]
    if rng.random() < 0.4:
        threads.append([["pause"], rng.choice([["add", other, 0], ["unschedule", nw - 1], ["remove", actor, 0]])])
    return dict(nw=nw, nh=nh, kind="scripted", scripts=scripts, threads=threads, cbs={str(actor): cb})


def order_programs(maxlen, from_callback=False):
    """Every order of start/schedule/unschedule/unschedule_all/stop of length <= maxlen (1 watch, 1 handler)."""
    ops = [["start"], ["schedule", 0, 0], ["unschedule", 0], ["unschedule_all"], ["stop"]]
    for n in range(1, maxlen + 1):
        for seq in itertools.product(ops, repeat=n):
            seq = [list(c) for c in seq]
            if from_callback:
                yield dict(nw=1, nh=1, kind="scripted", scripts={"0": [0, 1]},
                           threads=[[["schedule", 0, 0], ["start"]]], cbs={"0": [seq]})
            else:
                yield dict(nw=1, nh=1, kind="scripted", scripts={"0": [0]}, threads=[seq], cbs={})


# ------------------------------------------------------------------------------------------------ campaigns
def n_starts(prog):
    return sum(1 for l in prog["threads"] for c in l if c[0] == "start") + \
        sum(1 for v in prog.get("cbs", {}).values() for l in v for c in l if c[0] == "start")


def summarize(s):
    ev = s.events
    return dict(callbacks=sum(1 for e in ev if e[1] == "cb"), dequeued=sum(1 for e in ev if e[1] == "get" and e[2] != "stop"),
                raised=sorted({f"{e[3][0]}:{e[4]}" for e in ev if e[1] == "ret" and e[4]}),
                steps=s.steps, deadlock=bool(s.deadlock), alive_after=list(s.alive_after))


def case_of(prog, s):
    return {"prog": prog, "choices": [c for _, c in s.choices]}


def run_case(case, max_steps=6000):
    return run_program(case["prog"], ds.ReplayChooser(case["choices"]), max_steps=max_steps)


def schedules(ctx, prog, rng, n_random, explore_runs=0):
    """Yield finished Schedulers: n_random random schedules, or a bounded exhaustive exploration (<= 2 pre-emptions)."""
    if explore_runs:
        yield from ds.explore(lambda ch: run_program(prog, ch), preemption_bound=2, max_runs=explore_runs)
    else:
        for _ in range(n_random):
            yield run_program(prog, ds.RandomChooser(rng.randrange(1 << 30), switch_prob=rng.choice([0.15, 0.3, 0.5])))


SEARCH_CAP_S = 60.0       # quick tier: the failure search the driver starts after a mismatch / broken proof is cut here


def search_time_up(ctx, res):
    """True once a quick-tier failure search (ctx.search) has used SEARCH_CAP_S seconds over all its campaigns."""
    if not getattr(ctx, "search", False) or ctx.tier != "quick":
        return False
    t0 = getattr(ctx, "_search_t0", None)
    if t0 is None:
        ctx._search_t0 = time.time()
        return False
    if time.time() - t0 > SEARCH_CAP_S:
        if not getattr(ctx, "_search_cut_noted", False):
            ctx._search_cut_noted = True
            res.notes.append(f"failure search cut after {SEARCH_CAP_S:.0f} s (quick tier)")
        return True
    return False


def campaign(ctx, res, prop, programs, judge, n_random=3, explore_runs=0, do_lockstep=True, tag=""):
    """Run every program under several schedules; judge(prog, s) -> (list of (law, detail, sigextra), nontrivial key or None)."""
    from harness.core import Failure, Mismatch, digest
    rng = ctx.rng("sched" + tag)
    batch = []
    for prog in programs:
        if len(res.failures) >= 10 or (len(res.mismatches) >= 10 and not getattr(ctx, "search", False)):
            res.notes.append("campaign cut short after 10 failures/mismatches")
            break
        if search_time_up(ctx, res):
            break
        for s in schedules(ctx, prog, rng, n_random, explore_runs):
            if search_time_up(ctx, res):
                break
            res.evaluations += 1
            bad, key = judge(prog, s)
            if key is not None:
                res.nontrivial.add(digest([prog, key]))
            res.hist("emitter_kind", prog.get("kind", "scripted"))
            res.hist("api_threads", len(prog["threads"]))
            res.hist("reentrant", bool(prog.get("cbs")))
            for e in s.events:
                if e[1] == "ret" and e[4]:
                    res.hist("calls_that_raised", f"{e[3][0]}:{e[4]}")
            if len(res.samples) < 4 and key is not None:
                res.samples.append({"program": prog, "outcome": summarize(s)})
            for law, detail, extra in bad[:1]:
                sig = {"law": law, "kind": prog.get("kind", "scripted"), "double_start": n_starts(prog) > 1}
                sig.update(extra)
                res.failures.append(Failure(what=f"{prop}: {law}: {detail}", case=case_of(prog, s), signature=sig,
                                            observed=detail, expected="property " + prop))
            if prog.get("line_yield"):
                res.hist("line_level_preemption_runs", prog.get("kind", "scripted"))
            elif do_lockstep and prog.get("kind", "scripted") == "scripted" and not s.deadlock and not s.livelock:
                batch.append((prog, s))
            if len(batch) >= 60:
                flush_lockstep(res, batch)
                batch = []
    flush_lockstep(res, batch)


def flush_lockstep(res, batch):
    from harness.core import Mismatch
    if not batch:
        return
    outs = lockstep(batch)
    for (prog, s), o in zip(batch, outs):
        res.traces_validated += 1
        if o[0] != "ok":
            res.mismatches.append(Mismatch(pair="observer lock-step", case=case_of(prog, s), model=str(o)[:300],
                                           impl=str(to_wire(s.events, start_is_locked())[max(0, int(o[1]) - 3):int(o[1]) + 1])[:400]
                                           if o[0] == "mismatch" else ""))
            continue
        fin_model = o[2] == "1"
        if fin_model != (not s.alive_after):
            res.mismatches.append(Mismatch(pair="observer finished()", case=case_of(prog, s), model=f"finished={fin_model}",
                                           impl=f"alive_after={s.alive_after}"))
        if o[3] != "0":
            res.mismatches.append(Mismatch(pair="observer deadlocked()", case=case_of(prog, s),
                                           model=f"{o[3]} replayed states are deadlocked in the model", impl="run completed"))


def replay_generic(ctx, obj, judges):
    case = obj.get("case") or (obj.get("first_disagreement") or {}).get("case") or obj
    s = run_case(case)
    for i, e in enumerate(s.events):
        print(i, e)
    print("deadlock:", s.deadlock, "livelock:", s.livelock, "alive_after:", s.alive_after, "uncaught:", s.uncaught())
    rc = 0
    for j in judges:
        bad, _ = j(case["prog"], s)
        for b in bad:
            print("FAIL:", b)
            rc = 1
    if case["prog"].get("kind", "scripted") == "scripted" and not s.deadlock and not s.livelock and not case["prog"].get("line_yield"):
        o = lockstep([(case["prog"], s)])[0]
        print("lock-step:", o)
        if o[0] != "ok":
            rc = 1
    return rc


LOCKSTEP_NOTE = ("correspondence mode: LOCK-STEP - every observation of the real run (lock acquire/release, emitter start/stop/join, "
                 "flag checks, queue put/get, handler turns and callbacks, call/return, thread exits) is replayed as one label "
                 "through the extracted Observer.step and the model's predicted observation must equal the real one; "
                 "also finished() vs. threads alive after join and deadlocked()=false on every replayed state")
