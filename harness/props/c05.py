"""C05 - after unschedule/remove/stop returns, the removed handler is never called again."""
from __future__ import annotations

from harness import core
from harness.core import Result

MANIFEST = dict(
    design_ref="DESIGN.md §6 Group O / C05",
    text="Coq theorems over every label list of the observer LTS: C05_full (Return-label form: a callback (h,w,_) after the "
         "non-raised Return of remove_handler_for_watch/unschedule/unschedule_all/stop occurs only if (h,w) was registered again "
         "after the call's removal event, which lies between the call's begin and its Return), C05_no_callback_after_removal, "
         "C05_registry_access_under_lock / C05_callback_under_lock (LockInv), C05_unschedule_joins, C05_join_means_exited, "
         "C05_exited_emitter_silent; re-entrant removals included. Emitter half: C05_emitter_removed_joined_never_puts (after unschedule "
         "took an emitter out of the registry and joined it - started or not - it never puts again), "
         "C05_unscheduled_emitter_unregistered / C05_unregistered_stable / C05_retired_stable / C05_retired_silent (a removed, "
         "never started emitter is never started later). C05_emitter_full (Return-label form, Theorem): a put for w after the non-raised Return of "
         "unschedule(w) is never by the emitter that call removed and joined - its own GUnsched and GEmJoin events lie between the "
         "call's begin and its Return. Tied to /repo by lock-step replay "
         "of real BaseObserver runs; the property text is evaluated on the same runs from logical time stamps.",
    note="Trusted: Coq kernel; scheduler twins for threading/queue; interleavings sampled (exhaustive under 2 pre-emptions in thorough).",
    technique="Coq proof (inductive invariants of an LTS) + lock-step correspondence + log-based oracle",
)
TRUSTED = [
    "modelled, not verified: CPython/threading/queue.Queue semantics (scheduler twins); cut points = synchronisation primitives",
]
ASSUMPTIONS = [
    "a callback that starts before the removing call returns is not a violation; 're-added' = an adding call that began before the "
    "callback and had not completed before the removal began",
]


def judge(prog, s):
    from harness import obsprog as op
    bad0, nchecked = op.oracle_c05(prog, s)
    bad = [(b[0], b[1], {"call": b[2], "reentrant": b[3]}) for b in bad0]
    ev = s.events
    # non-trivial: a removing call returned normally while an event of an affected watch was queued and not yet dequeued
    key = None
    puts, gets = [], []
    for i, e in enumerate(ev):
        if e[1] == "put":
            puts.append((i, e[3]))
        elif e[1] == "get" and e[2] != "stop":
            gets.append((i, e[2]))
    for st, en, tid, c, exc in op.call_intervals(ev):
        r = op.removes(c)
        if r is None or exc is not None:
            continue
        for w in range(prog["nw"]):
            if r[1] in (None, w):
                pend = sum(1 for t, ww in puts if ww == w and t < en) - sum(1 for t, ww in gets if ww == w and t < en)
                if pend > 0:
                    key = (key or []) + [[c[0], tid == "d", w]]
    return bad, key


def programs(ctx, n, small=False):
    from harness import obsprog as op
    rng = ctx.rng("progs")
    out = [c["prog"] for c in ctx.corpus()]
    ops = ["schedule", "unschedule", "unschedule", "add", "remove", "remove", "unschedule_all", "stop", "start"]
    while len(out) < n:
        p = op.gen_cohandler_program(rng) if rng.random() < 0.3 else \
            op.gen_program(rng, max_calls=2 if small else 4, ops=ops, reentrant=rng.random() < 0.6)
        if op.n_starts(p) <= 1:
            out.append(p)
    return out


def run(ctx) -> Result:
    from harness import obsprog as op
    res = Result()
    res.rule = ("random client programs biased to removing calls (unschedule / remove_handler_for_watch / unschedule_all / stop, "
                "from API threads and re-entrantly from callbacks) x random schedules; distinct = (program, set of removing calls "
                "that returned while an event of the affected watch was still queued); non-trivial = that set is non-empty")
    # the oracle with a scheduling point before every source line of the observer's own methods: a removal that is not
    # serialised with the dispatcher's check-then-call pair shows only there (runs first: no lock-step, so a broken
    # correspondence cannot cut it short)
    op.campaign(ctx, res, "C05", [dict(p, line_yield=True) for p in programs(ctx, 60 if not ctx.thorough else 400)], judge,
                n_random=2, do_lockstep=False, tag="line")
    # directed: a removing call from a second thread while events of the watch are being dispatched, many line-level schedules
    directed = [{"nw": 1, "nh": 2, "kind": "scripted", "scripts": {"0": script}, "line_yield": True,
                 "threads": [[["schedule", 0, 0], ["schedule", 1, 0], ["start"]], [["pause"], call]]}
                for script in ([0, 1], [0, 1, 2, 3])
                for call in (["remove", 0, 0], ["remove", 1, 0], ["unschedule", 0], ["unschedule_all"])]
    op.campaign(ctx, res, "C05", directed, judge, n_random=12 if not ctx.thorough else 60, do_lockstep=False, tag="line-directed")
    op.campaign(ctx, res, "C05", programs(ctx, 300 if not ctx.thorough else 1200), judge, n_random=3)
    if ctx.thorough:
        op.campaign(ctx, res, "C05", programs(ctx, 25, small=True), judge, explore_runs=400, tag="x")
        res.notes.append("thorough: 25 small programs explored exhaustively under <=2 pre-emptions (capped at 400 schedules each)")
    res.notes.append(op.LOCKSTEP_NOTE)
    return res


def replay(ctx, obj) -> int:
    from harness import obsprog as op
    return op.replay_generic(ctx, obj, [judge])
