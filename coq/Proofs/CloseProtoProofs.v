(* Proofs about Model/CloseProto.v: the hand-over protocol is safe and leak-free in the repaired
   variant (for every interleaving: induction over label lists), and neither in the pinned one. *)
Require Import WD.Base.Prelude WD.Model.CloseProto.

(* ---------------------------------------------------------------- induction over label lists *)
Lemma run_invariant {St Lbl} (stp : St -> Lbl -> option St) (P : St -> Prop) :
  (forall x l x', P x -> stp x l = Some x' -> P x') ->
  forall tr x0 x, P x0 -> run stp x0 tr = Some x -> P x.
Proof.
  intros Hstep tr. induction tr as [|l tr IH]; intros x0 x H0 Hrun; simpl in Hrun.
  - inversion Hrun; subst; exact H0.
  - destruct (stp x0 l) as [x1|] eqn:E; [|discriminate].
    eapply IH; [eapply Hstep; eauto | exact Hrun].
Qed.

Lemma reachable_invariant v wd (P : state -> Prop) :
  P (Ok (init v wd)) ->
  (forall x l x', P x -> step v x l = Some x' -> P x') ->
  forall x, reachable v wd x -> P x.
Proof.
  intros H0 Hs x [tr Hr]. eapply run_invariant; eauto.
Qed.

(* ---------------------------------------------------------------- the invariant *)
Definition r_holds (p : rpc) : bool :=
  match p with RIn1 | RIn2 | RC2 | RC3 | RRel | RIn3 => true | _ => false end.
Definition c_holds (p : cpc) : bool :=
  match p with CIn | CRm | CC2 | CC3 | CRel => true | _ => false end.
Definition r_reading (p : rpc) : bool :=
  match p with RPolling | RReading | RWant2 | RIn2 => true | _ => false end.
Definition c_flagged (p : cpc) : bool :=
  match p with CRm | CC2 | CC3 | CRel | CDone => true | _ => false end.
Definition c_is_rm (p : cpc) : bool := match p with CRm => true | _ => false end.

(* who holds the lock is who is inside a critical section *)
Definition inv_lock (s : st) : bool :=
  match lock s with
  | Free => negb (r_holds (pr s)) && negb (c_holds (pc s))
  | HeldR => r_holds (pr s) && negb (c_holds (pc s))
  | HeldC => negb (r_holds (pr s)) && c_holds (pc s)
  end.
(* _is_reading is true exactly between the end of section 1 and the first operation of section 2 *)
Definition inv_reading (s : st) : bool := Bool.eqb (reading s) (r_reading (pr s)).
(* the three descriptors are all open or all closed, except inside _close_resources *)
Definition inv_shape (s : st) : bool :=
  match pr s, pc s with
  | RC2, _ | _, CC2 => negb (fi s) && fr s && fw s
  | RC3, _ | _, CC3 => negb (fi s) && negb (fr s) && fw s
  | _, _ => all_open s || all_closed s
  end.
(* a descriptor is only ever closed after _closed was set *)
Definition inv_closed_flag (s : st) : bool := fi s || closed s.
(* while a read is in flight nobody has closed anything *)
Definition inv_inflight (s : st) : bool := negb (reading s) || fi s.
(* _closed set and descriptors still open: either close() is still deciding, or the hand-over to
   the reader is in progress (read in flight and the kill pipe written) *)
Definition inv_handover (s : st) : bool :=
  negb (closed s && fi s) || c_is_rm (pc s) || (reading s && prdy s).
Definition inv_cflag (s : st) : bool := negb (c_flagged (pc s)) || closed s.
Definition inv_crm (s : st) : bool := negb (c_is_rm (pc s)) || fi s.

Definition inv (s : st) : bool :=
  inv_lock s && inv_reading s && inv_shape s && inv_closed_flag s && inv_inflight s &&
  inv_handover s && inv_cflag s && inv_crm s.

Definition Inv (x : state) : Prop := match x with Ok s => inv s = true | Bad _ => False end.

(* each descriptor's close counter follows its state: holds in EVERY variant *)
Definition cnt (s : st) : Prop :=
  ni s = (if fi s then 0 else 1) /\ nr s = (if fr s then 0 else 1) /\ nw s = (if fw s then 0 else 1).
Definition Cnt (x : state) : Prop := match x with Ok s => cnt s | Bad _ => True end.

Lemma inv_init wd : inv (init repaired wd) = true.
Proof. destruct wd; reflexivity. Qed.

Ltac case_guards H :=
  repeat match type of H with
         | context [if ?b then _ else _] =>
             first [ is_var b; destruct b | let E := fresh "E" in destruct b eqn:E ]; simpl in H
         | context [match ?b with Free => _ | HeldR => _ | HeldC => _ end] =>
             first [ is_var b; destruct b | let E := fresh "E" in destruct b eqn:E ]; simpl in H
         end.

Ltac finish_inv :=
  unfold inv, inv_lock, inv_reading, inv_shape, inv_closed_flag, inv_inflight, inv_handover,
    inv_cflag, inv_crm, all_open, all_closed in *; simpl in *;
  repeat match goal with b : bool |- _ => clear b end;
  repeat match goal with
         | p : cpc |- _ => destruct p; simpl in *; try discriminate
         | p : rpc |- _ => destruct p; simpl in *; try discriminate
         | o : owner |- _ => destruct o; simpl in *; try discriminate
         | b : bool |- _ => destruct b; simpl in *; try discriminate
         end;
  try reflexivity; try discriminate.

Lemma inv_step : forall x l x', Inv x -> step repaired x l = Some x' -> Inv x'.
Proof.
  intros [s|b] l x' HI Hs; [|destruct HI].
  simpl in HI. unfold step in Hs.
  destruct s as [fi0 fr0 fw0 ni0 nr0 nw0 closed0 reading0 lock0 irdy0 prdy0 wdp0 stopped0 delself0 pmk0 pdel0 pr0 pc0].
  destruct l as [a|a|]; simpl in Hs.
  - (* reader *)
    unfold step_r in Hs; simpl in Hs.
    destruct pr0, a; try discriminate Hs; try (destruct f; try discriminate Hs);
      unfold use, do_close, on_ok, is_open in Hs; simpl in Hs;
      case_guards Hs; try discriminate Hs; inversion Hs; subst; clear Hs; simpl; finish_inv.
  - (* closer *)
    unfold step_c in Hs; simpl in Hs.
    destruct a; try (destruct f); destruct pc0; try discriminate Hs;
      unfold after_flag, use, do_close, on_ok, is_open in Hs; simpl in Hs;
      case_guards Hs; try discriminate Hs; inversion Hs; subst; clear Hs; simpl; finish_inv.
  - case_guards Hs; try discriminate Hs; inversion Hs; subst; clear Hs; simpl; finish_inv.
Qed.

Lemma inv_reachable wd x : reachable repaired wd x -> Inv x.
Proof.
  apply reachable_invariant; [exact (inv_init wd) | exact inv_step].
Qed.

(* ---------------------------------------------------------------- safety *)
Lemma proto_safe wd x : reachable repaired wd x -> is_bad x = false.
Proof.
  intros H. apply inv_reachable in H. destruct x; [reflexivity | destruct H].
Qed.

(* ---------------------------------------------------------------- no leak *)
Lemma proto_no_leak wd s :
  reachable repaired wd (Ok s) -> reader_done s = true -> close_returned s = true -> all_closed s = true.
Proof.
  intros H Hr Hc. apply inv_reachable in H. simpl in H.
  destruct s as [fi0 fr0 fw0 ni0 nr0 nw0 closed0 reading0 lock0 irdy0 prdy0 wdp0 stopped0 delself0 pmk0 pdel0 pr0 pc0].
  unfold reader_done, close_returned in *; simpl in *.
  destruct pr0; try discriminate Hr. destruct pc0; try discriminate Hc.
  finish_inv.
Qed.

(* ---------------------------------------------------------------- closed at most once (all variants) *)
Lemma cnt_init v wd : cnt (init v wd).
Proof. repeat split. Qed.

Lemma cnt_step v : forall x l x', Cnt x -> step v x l = Some x' -> Cnt x'.
Proof.
  intros [s|b] l x' HI Hs; [|discriminate Hs].
  simpl in HI. unfold step in Hs.
  destruct s as [fi0 fr0 fw0 ni0 nr0 nw0 closed0 reading0 lock0 irdy0 prdy0 wdp0 stopped0 delself0 pmk0 pdel0 pr0 pc0].
  unfold cnt in HI; simpl in HI. destruct HI as (H1 & H2 & H3).
  destruct l as [a|a|]; simpl in Hs.
  - unfold step_r in Hs; simpl in Hs.
    destruct pr0, a; try discriminate Hs; try (destruct f; try discriminate Hs);
      unfold use, do_close, on_ok, is_open in Hs; simpl in Hs;
      case_guards Hs; try discriminate Hs; inversion Hs; subst; clear Hs; simpl; unfold cnt; simpl;
      auto.
  - unfold step_c in Hs; simpl in Hs.
    destruct a; try (destruct f); destruct pc0; try discriminate Hs;
      unfold after_flag, use, do_close, on_ok, is_open in Hs; simpl in Hs;
      case_guards Hs; try discriminate Hs; inversion Hs; subst; clear Hs; simpl; unfold cnt; simpl;
      auto.
  - case_guards Hs; try discriminate Hs; inversion Hs; subst; clear Hs; simpl; unfold cnt; simpl; auto.
Qed.

Lemma proto_cnt v wd s : reachable v wd (Ok s) -> cnt s.
Proof.
  intros H. change (Cnt (Ok s)). revert H.
  apply reachable_invariant with (P := Cnt); [exact (cnt_init v wd) | exact (cnt_step v)].
Qed.

Lemma proto_closed_once v wd s :
  reachable v wd (Ok s) -> ni s <= 1 /\ nr s <= 1 /\ nw s <= 1.
Proof.
  intros H. destruct (proto_cnt _ _ _ H) as (H1 & H2 & H3).
  destruct (fi s), (fr s), (fw s); lia.
Qed.

(* ---------------------------------------------------------------- the pinned variant is refuted *)

(* F4b: close() (from stop()) before the buffer thread's first loop test: the closer sees
   _is_reading = True, writes the kill pipe and closes nothing; the thread sees the stop event and
   exits without ever calling read_events(). *)
Definition leak_run : list label :=
  [C Stop; C CAcq; C (RmWatch true); C Write; C CRl; R Check].

Lemma leak_refuted_pinned :
  exists tr s, run (step pinned) (Ok (init pinned true)) tr = Some (Ok s) /\
    reader_done s = true /\ close_returned s = true /\ all_open s = true.
Proof.
  exists leak_run. eexists. vm_compute. repeat split.
Qed.

(* the same leak when the reader does call read_events() once more: section 1 sees _closed and
   returns without closing *)
Definition leak_run2 : list label :=
  [R Check; C Stop; C CAcq; C (RmWatch true); C Write; C CRl; R RAcq; R RRl; R Check].

Lemma leak2_refuted_pinned :
  exists s, run (step pinned) (Ok (init pinned true)) leak_run2 = Some (Ok s) /\
    reader_done s = true /\ close_returned s = true /\ all_open s = true.
Proof. eexists. vm_compute. repeat split. Qed.

(* F4c: close() between section 2 and section 3 of a read that delivered a directory-create event:
   the closer (is_reading = False) closes all three, then section 3 calls inotify_add_watch on the
   closed inotify descriptor. *)
Definition uac_run : list label :=
  [R Check; R RAcq; R RRl; KReadable; R Poll; R (Read true false); R RAcq; R RRl;
   C CAcq; C (RmWatch true); C (CClose FI); C (CClose FR); C (CClose FW); C CRl;
   R RAcq; R AddWatch].

Lemma safe_refuted_pinned :
  exists tr b, run (step pinned) (Ok (init pinned true)) tr = Some (Bad b).
Proof. exists uac_run. eexists. vm_compute. reflexivity. Qed.

(* the two runs above are harmless in the repaired variant (same labels where enabled) *)
Lemma uac_run_repaired_blocked :
  run (step repaired) (Ok (init repaired true)) uac_run = None.
Proof. vm_compute. reflexivity. Qed.

(* ---------------------------------------------------------------- non-vacuity *)
(* closer finds a read in flight, writes the pipe; the reader wakes up, closes all three, exits *)
Definition handover_run : list label :=
  [R Check; R RAcq; R RRl; C Stop; C CAcq; C (RmWatch true); C Write; C CRl;
   R Poll; R (Read false true); R RAcq; R (RClose FI); R (RClose FR); R (RClose FW); R RRl; R Check].
(* closer finds no read in flight and closes itself; the reader sees _closed and exits *)
Definition direct_run : list label :=
  [R Check; C Stop; C CAcq; C (RmWatch true); C (CClose FI); C (CClose FR); C (CClose FW); C CRl;
   R RAcq; R RRl; R Check].

Lemma nonvacuous_handover :
  exists s, run (step repaired) (Ok (init repaired true)) handover_run = Some (Ok s) /\
    reader_done s = true /\ close_returned s = true /\ all_closed s = true /\
    (ni s, nr s, nw s) = (1, 1, 1).
Proof. eexists. vm_compute. repeat split. Qed.

Lemma nonvacuous_direct :
  exists s, run (step repaired) (Ok (init repaired true)) direct_run = Some (Ok s) /\
    reader_done s = true /\ close_returned s = true /\ all_closed s = true.
Proof. eexists. vm_compute. repeat split. Qed.
