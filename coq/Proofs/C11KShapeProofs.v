(* C11 lag, kernel side (3): what one operation appends to a queue that holds only the reader's own IN_IGNORED junk -
   no coalescing, cookies, and the place of the second half of a rename. *)
Require Import WD.Base.Prelude WD.Base.BStr WD.Model.SubEvents WD.Model.Emitter WD.Model.Fs WD.Model.Reader.
Require Import WD.Proofs.ReaderFixProofs WD.Proofs.ContractProofs
               WD.Proofs.C11KernelProofs WD.Proofs.C11ReaderProofs WD.Proofs.C11SeqProofs WD.Proofs.C11InertProofs.
Local Open Scope N_scope.

(* ------------------------------------------------------------------ appended records *)
(* every primitive appends at most one record of a known form *)
Lemma kpush_app q e : exists g, kpush q e = q ++ g /\ (g = [] \/ g = [e]).
Proof. destruct (kpush_cases q e) as [[H _]|H]; rewrite H; [exists []; rewrite app_nil_r | exists [e]]; tauto. Qed.

Definition appended (P : kraw -> Prop) (k k' : kst) : Prop :=
  exists g, k_queue k' = k_queue k ++ g /\ Forall P g.

Lemma appended_refl P k : appended P k k.
Proof. exists []. split; [now rewrite app_nil_r | constructor]. Qed.

Lemma appended_trans P k1 k2 k3 : appended P k1 k2 -> appended P k2 k3 -> appended P k1 k3.
Proof.
  intros [g1 [E1 F1]] [g2 [E2 F2]]. exists (g1 ++ g2). split; [rewrite E2, E1, app_assoc; reflexivity|].
  apply Forall_app. split; assumption.
Qed.

Lemma knotify_appended (P : kraw -> Prop) k ino bit isdir c name :
  (forall wd, P {| k_wd := wd; k_mask := nmask bit isdir; k_cookie := c; k_name := name |}) ->
  appended P k (knotify k ino bit isdir c name).
Proof.
  intros HP. unfold knotify. destruct (watch_of_ino k ino) as [w|]; [|apply appended_refl].
  destruct (N.eqb (N.land bit (kw_mask w)) 0); [apply appended_refl|]. cbn [k_queue].
  destruct (kpush_app (k_queue k) {| k_wd := kw_wd w; k_mask := if isdir then N.lor bit IN_ISDIR else bit;
                                     k_cookie := c; k_name := name |}) as [g [E Hg]].
  exists g. split; [cbn [k_queue]; exact E|]. destruct Hg as [-> | ->]; [constructor | constructor; [apply HP | constructor]].
Qed.

Lemma knotify_one k ino bit isdir c name :
  exists g, k_queue (knotify k ino bit isdir c name) = k_queue k ++ g /\
            (g = [] \/ exists wd, g = [{| k_wd := wd; k_mask := nmask bit isdir; k_cookie := c; k_name := name |}]).
Proof.
  unfold knotify. destruct (watch_of_ino k ino) as [w|]; [|exists []; rewrite app_nil_r; tauto].
  destruct (N.eqb (N.land bit (kw_mask w)) 0); [exists []; rewrite app_nil_r; tauto|]. cbn [k_queue].
  destruct (kpush_app (k_queue k) {| k_wd := kw_wd w; k_mask := if isdir then N.lor bit IN_ISDIR else bit;
                                     k_cookie := c; k_name := name |}) as [g [E Hg]].
  exists g. split; [exact E|]. destruct Hg as [-> | ->]; [now left | right; exists (kw_wd w); reflexivity].
Qed.

Lemma kgone_appended (P : kraw -> Prop) k ino af :
  (forall wd, P {| k_wd := wd; k_mask := nmask IN_ATTRIB true; k_cookie := 0; k_name := [] |}) ->
  (forall wd, P {| k_wd := wd; k_mask := nmask IN_DELETE_SELF false; k_cookie := 0; k_name := [] |}) ->
  (forall wd, P {| k_wd := wd; k_mask := IN_IGNORED; k_cookie := 0; k_name := [] |}) ->
  appended P k (kgone k ino af).
Proof.
  intros P1 P2 P3. unfold kgone. destruct (watch_of_ino k ino) as [w|]; [|apply appended_refl].
  set (k1 := if af then knotify k ino IN_ATTRIB true 0 [] else k).
  assert (A1 : appended P k k1) by (subst k1; destruct af; [apply knotify_appended; exact P1 | apply appended_refl]).
  eapply appended_trans; [exact A1|]. eapply appended_trans; [apply (knotify_appended P k1 ino IN_DELETE_SELF false 0 []); exact P2|].
  set (k2 := knotify k1 ino IN_DELETE_SELF false 0 []).
  destruct (kpush_app (k_queue k2) {| k_wd := kw_wd w; k_mask := IN_IGNORED; k_cookie := 0; k_name := [] |}) as [g [E Hg]].
  exists g. split; [cbn [k_queue]; exact E|]. destruct Hg as [-> | ->]; [constructor | constructor; [apply P3 | constructor]].
Qed.

(* ------------------------------------------------------------------ the shape of one operation's batch *)
Section Shape.
  Variable C : cfg.

  Lemma shape_none b : (forall f, In f b -> sets_pend C (k_mask f) = false) -> shapeP C b.
  Proof.
    induction b as [|f b IH]; intros H; [exact I|]. split.
    - intros Hs. rewrite (H f (or_introl eq_refl)) in Hs. discriminate.
    - apply IH. intros x Hx. apply H. now right.
  Qed.

  Lemma shape_app_none a b : (forall f, In f a -> sets_pend C (k_mask f) = false) -> shapeP C b -> shapeP C (a ++ b).
  Proof.
    induction a as [|f a IH]; intros H Hb; [exact Hb|]. split.
    - intros Hs. rewrite (H f (or_introl eq_refl)) in Hs. discriminate.
    - apply IH; [|exact Hb]. intros x Hx. apply H. now right.
  Qed.

  Definition quiet (x : kraw) : Prop := sets_pend C (k_mask x) = false /\ is_moved_to (k_mask x) = false.

  Lemma sets_pend_not_from m : is_moved_from m = false -> sets_pend C m = false.
  Proof. intros H. unfold sets_pend. rewrite H. now rewrite andb_false_r. Qed.

  (* every batch the kernel produces from a queue of junk has the second half of a rename, if any, right after the first *)
  Theorem kernel_op_shape k t o :
    (forall x, In x (k_queue k) -> quiet x) -> shapeP C (k_queue (kernel_op k t o)).
  Proof.
    intros HJ.
    assert (Q1 : forall bit isdir c name wd, is_moved_from (nmask bit isdir) = false -> is_moved_to (nmask bit isdir) = false ->
                 quiet {| k_wd := wd; k_mask := nmask bit isdir; k_cookie := c; k_name := name |}).
    { intros. split; [apply sets_pend_not_from|]; assumption. }
    assert (QI : forall wd, quiet {| k_wd := wd; k_mask := IN_IGNORED; k_cookie := 0; k_name := [] |}).
    { intros. split; [apply sets_pend_not_from|]; reflexivity. }
    (* operations other than rename: nothing but quiet records *)
    assert (Easy : forall k', appended quiet k k' -> shapeP C (k_queue k')).
    { intros k' [g [E Fg]]. rewrite E. apply shape_none. intros f Hf. apply in_app_or in Hf as [Hf|Hf].
      - apply HJ. exact Hf.
      - rewrite Forall_forall in Fg. apply Fg. exact Hf. }
    destruct o as [p|p|p|p|p|p|p q]; cbn [kernel_op].
    - apply Easy. repeat (eapply appended_trans; [|apply knotify_appended; intros; apply Q1; reflexivity]). apply appended_refl.
    - apply Easy. repeat (eapply appended_trans; [|apply knotify_appended; intros; apply Q1; reflexivity]). apply appended_refl.
    - apply Easy. destruct (fisdir p t);
        repeat (eapply appended_trans; [|apply knotify_appended; intros; apply Q1; reflexivity]); apply appended_refl.
    - apply Easy. apply knotify_appended; intros; apply Q1; reflexivity.
    - apply Easy. apply knotify_appended; intros; apply Q1; reflexivity.
    - apply Easy. eapply appended_trans; [|apply knotify_appended; intros; apply Q1; reflexivity].
      apply kgone_appended; intros; first [apply QI | apply Q1; reflexivity].
    - (* rename: [FROM] [TO] then quiet records *)
      set (k0 := {| k_watches := k_watches k; k_next_wd := k_next_wd k; k_queue := k_queue k;
                    k_next_cookie := k_next_cookie k + 1 |}).
      set (c := k_next_cookie k). set (d := fisdir p t).
      set (k1 := knotify k0 (ino_of t (dirname p)) IN_MOVED_FROM d c (basename p)).
      set (k2 := knotify k1 (ino_of t (dirname q)) IN_MOVED_TO d c (basename q)).
      destruct (knotify_one k0 (ino_of t (dirname p)) IN_MOVED_FROM d c (basename p)) as [g1 [E1 G1]].
      fold k1 in E1. change (k_queue k0) with (k_queue k) in E1.
      destruct (knotify_one k1 (ino_of t (dirname q)) IN_MOVED_TO d c (basename q)) as [g2 [E2 G2]]. fold k2 in E2.
      assert (S2 : Forall (fun x => sets_pend C (k_mask x) = false) g2).
      { destruct G2 as [->|[wd ->]]; [constructor|]. constructor; [|constructor].
        apply sets_pend_not_from. cbn [k_mask]. destruct d; reflexivity. }
      assert (L2 : (length g2 <= 1)%nat) by (destruct G2 as [->|[wd ->]]; simpl; lia).
      assert (A3 : exists g3, k_queue (if fisdir q t then kgone k2 (ino_of t q) true else k2) = k_queue k2 ++ g3 /\ Forall quiet g3).
      { destruct (fisdir q t); [|exists []; split; [now rewrite app_nil_r | constructor]].
        apply kgone_appended; intros; first [apply QI | apply Q1; reflexivity]. }
      destruct A3 as [g3 [E3 G3]].
      rewrite E3, E2, E1, <- !app_assoc.
      apply shape_app_none; [intros f Hf; apply HJ; exact Hf|].
      assert (Q23 : forall f, In f (g2 ++ g3) -> sets_pend C (k_mask f) = false).
      { intros f Hf. apply in_app_or in Hf as [Hf|Hf]; [rewrite Forall_forall in S2; now apply S2|].
        rewrite Forall_forall in G3. now apply G3. }
      destruct G1 as [->|[wd ->]]; [apply shape_none; exact Q23|].
      cbn [app]. split; [|apply shape_none; exact Q23].
      intros _ e He Hto. exfalso.
      (* whatever comes after the record that follows the first half is quiet *)
      assert (Hq : In e g3).
      { destruct g2 as [|y [|z g2]]; cbn [app tl] in He; [|exact He | simpl in L2; lia].
        destruct g3; [destruct He | now right]. }
      rewrite Forall_forall in G3. destruct (G3 e Hq) as [_ Hn]. congruence.
  Qed.
End Shape.
