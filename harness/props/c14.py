"""C14 - synthetic events for a moved / arrived directory.

Correspondence: real generate_sub_moved_events / generate_sub_created_events on trees created on
disk (names chosen to collide with the rewritten prefix; str and bytes; relative and absolute),
against the extracted model `subevents` given the tree in the order the real os.walk saw it;
the reader's re-key step against `rekey_path` through a scripted kernel.
Oracle: the property statement itself, evaluated on the real events with an independent listing.
"""
from __future__ import annotations

import itertools
import os
import shutil
import tempfile

from harness import core, fakefd
from harness.core import Atom, Failure, Mismatch, Result, sx

MANIFEST = dict(
    design_ref="DESIGN.md §6 C14",
    text="Coq theorems C14_moved/C14_created/C14_parents_first/C14_rekey over all content trees, names and non-empty "
         "prefixes (structural induction, no size bound) about an executable model of generate_sub_moved_events, "
         "generate_sub_created_events and the reader's re-key step; the model is tied to /repo by running the extracted "
         "model and the real functions on the same on-disk trees (colliding name universe) on every run.",
    note="Trusted: Coq kernel; os.walk order and posixpath.join are modelled (validated against CPython each run); "
         "correspondence is sampled. Paths are non-empty and the destination has no trailing '/'.",
    technique="Coq proof (structural induction over rose trees) + differential correspondence via extracted OCaml model",
)

TRUSTED = [
    "modelled, not verified: os.walk order and posixpath.join (model BStr.join validated against CPython in this run); "
    "the tree given to the model is the one the real os.walk reported",
]
ASSUMPTIONS = [
    "names are valid POSIX file names (non-empty, no '/' or NUL); src/dest non-empty, dest without trailing '/' "
    "(always true for paths the emitter builds with os.path.join(dir, name))",
]


def ints(p):
    return list(p) if isinstance(p, (bytes, bytearray)) else [ord(c) for c in p]


def atom_ints(a):
    return list(bytes.fromhex(a[1:])) if isinstance(a, str) else [int(c) for c in a]


def wire(p):
    return p if isinstance(p, (bytes, bytearray)) else list(ints(p))


def read_tree(root):
    """The tree below root in os.walk order: [[(name, subtree)...], [file...]]."""
    by = {}
    for r, ds, fs in os.walk(root):
        by[r] = (list(ds), list(fs))

    def build(r):
        ds, fs = by.get(r, ([], []))
        return [[[d, build(os.path.join(r, d))] for d in ds], list(fs)]

    return build(root)


def tree_wire(t):
    return [[[wire(n), tree_wire(s)] for n, s in t[0]], [wire(f) for f in t[1]]]


def independent_listing(root):
    """(kind, path) for every descendant, found with scandir (not os.walk)."""
    out = []
    with os.scandir(root) as it:
        ents = list(it)
    for e in ents:
        p = os.path.join(root, e.name)
        if e.is_dir(follow_symlinks=False):
            out.append(("D", p))
            out += independent_listing(p)
        else:
            out.append(("F", p))
    return out


def make_tree(base: str, spec):
    """spec: nested dict name -> dict (dir) | None (file)"""
    os.makedirs(base, exist_ok=True)
    for n, sub in spec.items():
        p = os.path.join(base, n)
        if sub is None:
            open(p, "w").close()
        else:
            make_tree(p, sub)


def rand_spec(rng, names, depth, width):
    spec = {}
    for n in rng.sample(names, rng.randint(0, min(width, len(names)))):
        if depth > 0 and rng.random() < 0.6:
            spec[n] = rand_spec(rng, names, depth - 1, width)
        else:
            spec[n] = None
    return spec


def chain_spec(components, leaf):
    """A chain of directories spelling out `components`, ending with `leaf` spec."""
    spec = leaf
    for c in reversed(components):
        spec = {c: spec}
    return spec


def all_specs(names, nodes):
    """All trees with at most `nodes` entries over `names` (siblings distinct)."""
    def go(budget):
        # returns list of (spec, used)
        res = [({}, 0)]
        if budget == 0:
            return res
        for k in range(1, min(budget, len(names)) + 1):
            for combo in itertools.combinations(names, k):
                # distribute remaining budget among the children
                def children(i, left):
                    if i == len(combo):
                        yield {}, 0
                        return
                    n = combo[i]
                    # file
                    for rest, u in children(i + 1, left):
                        d = dict(rest)
                        d[n] = None
                        yield d, u
                    # dir with sub-spec
                    for sub, us in go(left):
                        for rest, u in children(i + 1, left - us):
                            d = dict(rest)
                            d[n] = sub
                            yield d, u + us
                for spec, u in children(0, budget - k):
                    res.append((spec, u + k))
        return res
    seen = {}
    for spec, _ in go(nodes):
        seen[repr(sorted_spec(spec))] = spec
    return list(seen.values())


def sorted_spec(spec):
    return sorted((n, None if s is None else sorted_spec(s)) for n, s in spec.items())


def spec_stats(spec, depth=1):
    n, d = 0, 0
    for _, s in spec.items():
        n += 1
        d = max(d, depth)
        if s is not None:
            sn, sd = spec_stats(s, depth + 1)
            n += sn
            d = max(d, sd)
    return n, d


def check_moved(res: Result, src, dest, variant, spec):
    """Run the real function, the model, the oracle. src/dest are str or bytes paths; dest exists."""
    from watchdog.events import DirMovedEvent, FileMovedEvent, generate_sub_moved_events

    evs = list(generate_sub_moved_events(src, dest))
    impl = [["D" if isinstance(e, DirMovedEvent) else "F", ints(e.src_path), ints(e.dest_path)] for e in evs]
    tree = read_tree(dest)
    case = sx([Atom("moved"), Atom("first"), wire(src), wire(dest), tree_wire(tree)])
    return evs, impl, case


def oracle_moved(evs, src, dest, listing):
    """The property, on the real events: returns None or a description of the violated clause."""
    from watchdog.events import DirMovedEvent, FileMovedEvent
    want = {p: k for k, p in listing}
    seen = {}
    for e in evs:
        if not e.is_synthetic:
            return "event not marked synthetic", e
        if e.dest_path in seen:
            return "descendant reported twice", e
        seen[e.dest_path] = e
        if e.dest_path not in want:
            return "destination is not a real descendant", e
        k = "D" if isinstance(e, DirMovedEvent) else "F"
        if k != want[e.dest_path] or e.is_directory != (k == "D"):
            return "wrong File/Dir flavour", e
        expect_src = src + e.dest_path[len(dest):]
        if e.src_path != expect_src:
            return "source is not the old directory path followed by the same relative path", e
        parent = os.path.dirname(e.dest_path)
        if parent != dest and parent not in seen:
            return "child reported before its parent", e
    missing = [p for p in want if p not in seen]
    if missing:
        return "descendant without event", missing[0]
    return None


def oracle_created(evs, src, listing):
    from watchdog.events import DirCreatedEvent
    want = {p: k for k, p in listing}
    seen = {}
    for e in evs:
        if not e.is_synthetic:
            return "event not marked synthetic", e
        if e.src_path in seen:
            return "descendant reported twice", e
        seen[e.src_path] = e
        if e.src_path not in want:
            return "path is not a real descendant", e
        k = "D" if isinstance(e, DirCreatedEvent) else "F"
        if k != want[e.src_path] or e.is_directory != (k == "D"):
            return "wrong File/Dir flavour", e
        parent = os.path.dirname(e.src_path)
        if parent != src and parent not in seen:
            return "child reported before its parent", e
    missing = [p for p in want if p not in seen]
    if missing:
        return "descendant without event", missing[0]
    return None


def run_specs(ctx, res: Result, specs, label):
    """specs: iterable of (variant, spec). variant = (relative?, bytes?)."""
    from watchdog.events import DirCreatedEvent, generate_sub_created_events, generate_sub_moved_events, DirMovedEvent

    scratch = tempfile.mkdtemp(prefix="wdv", dir="/dev/shm" if os.path.isdir("/dev/shm") else None)
    cwd = os.getcwd()
    cases, impls, metas = [], [], []
    try:
        os.chdir(scratch)
        for i, (variant, spec) in enumerate(specs):
            relative, as_bytes = variant[0], variant[1]
            spelling = variant[2] if len(variant) > 2 else "plain"
            shutil.rmtree(os.path.join(scratch, "b"), ignore_errors=True)
            make_tree(os.path.join(scratch, "b"), spec)
            dest = "b" if relative else os.path.join(scratch, "b")
            src = "a" if relative else os.path.join(scratch, "a")
            if spelling == "odd":
                # not in normpath form (a watch scheduled on "." or "/tmp//x"): the law is textual, it must hold all the same
                dest, src = ("./b", "./a") if relative else (scratch + "//b", scratch + "//a")
            if as_bytes:
                dest, src = os.fsencode(dest), os.fsencode(src)
            meta = {"fn": "generate_sub_moved_events", "relative": relative, "bytes": as_bytes, "spelling": spelling,
                    "tree": sorted_spec(spec),
                    "src": repr(src), "dest": repr(dest)}
            # moved
            evs = list(generate_sub_moved_events(src, dest))
            impl = [["D" if isinstance(e, DirMovedEvent) else "F", ints(e.src_path), ints(e.dest_path)] for e in evs]
            tree = read_tree(dest)
            cases.append(sx([Atom("moved"), Atom("first"), wire(src), wire(dest), tree_wire(tree)]))
            impls.append(impl)
            metas.append(meta)
            listing = independent_listing(dest)
            bad = oracle_moved(evs, src, dest, listing)
            n, d = spec_stats(spec)
            res.evaluations += 1
            res.hist("tree_entries", n)
            res.hist("tree_depth", d)
            res.hist("variant", f"{'rel' if relative else 'abs'}/{'bytes' if as_bytes else 'str'}/{spelling}")
            collide = any(ints(dest) == ints(p)[-len(ints(dest)):] for _, p in listing if p != dest) or \
                any(p.count(dest) > 1 for _, p in listing)
            res.hist("prefix_collision", collide)
            if d >= 2 or collide:
                res.nontrivial.add(core.digest([meta["relative"], meta["bytes"], meta["tree"]]))
            if len(res.samples) < 4 and n >= 3:
                res.samples.append({**meta, "events": [[k, bytes(s).decode("latin1") if max(s, default=0) < 256 else s,
                                                         bytes(t).decode("latin1") if max(t, default=0) < 256 else t]
                                                        for k, s, t in impl][:6]})
            if bad:
                res.failures.append(Failure(
                    what=f"generate_sub_moved_events: {bad[0]}", case=meta,
                    signature={"fn": "generate_sub_moved_events", "law": bad[0]},
                    observed=repr(bad[1]), expected="one synthetic event per descendant, src = old dir + same relative path"))
            # created
            evs2 = list(generate_sub_created_events(dest))
            impl2 = [["D" if isinstance(e, DirCreatedEvent) else "F", ints(e.src_path)] for e in evs2]
            cases.append(sx([Atom("created"), wire(dest), tree_wire(tree)]))
            impls.append(impl2)
            metas.append({**meta, "fn": "generate_sub_created_events"})
            bad2 = oracle_created(evs2, dest, listing)
            res.evaluations += 1
            if bad2:
                res.failures.append(Failure(
                    what=f"generate_sub_created_events: {bad2[0]}", case={**meta, "fn": "generate_sub_created_events"},
                    signature={"fn": "generate_sub_created_events", "law": bad2[0]}, observed=repr(bad2[1])))
    finally:
        os.chdir(cwd)
        shutil.rmtree(scratch, ignore_errors=True)
    outs = core.run_model("subevents", cases)
    for c, o, im, me in zip(cases, outs, impls, metas):
        mo = [[e[0]] + [atom_ints(x) for x in e[1:]] for e in o] if isinstance(o, list) and (not o or o[0] != "ERR") else o
        res.traces_validated += 1
        if mo != im:
            res.mismatches.append(Mismatch(pair=me["fn"], case=me, model=str(mo)[:600], impl=str(im)[:600]))


def run_rekey(ctx, res: Result, n_cases: int):
    """The re-key loop of Inotify.read_events, on a scripted kernel, against rekey_path."""
    from watchdog.observers import inotify_c

    rng = ctx.rng("rekey")
    scratch = tempfile.mkdtemp(prefix="wdk", dir="/dev/shm" if os.path.isdir("/dev/shm") else None)
    cwd = os.getcwd()
    cases, impls, metas = [], [], []
    try:
        os.chdir(scratch)
        for i in range(n_cases):
            relative = bool(i % 2)
            root = b"r" if relative else os.fsencode(os.path.join(scratch, "r"))
            shutil.rmtree(os.path.join(scratch, "r"), ignore_errors=True)
            comps = ["r", "a"] if relative else [c for c in os.path.join(scratch, "r", "a").split("/") if c]
            names = ["a", "b", "r", "ab"]
            inner = rand_spec(rng, names, 2, 3)
            if rng.random() < 0.7:
                inner = {**inner, **chain_spec(comps, {"z": {}})}
            spec = {"a": inner, "b": rand_spec(rng, names, 1, 2), "ab": {"a": {}}}
            make_tree(os.path.join(scratch, "r"), spec)
            k = fakefd.FakeKernel()
            undo = fakefd.install(k)
            try:
                ino = inotify_c.Inotify(root, recursive=True)
                fd = k.inotify_fd()
                watches = {wd: w["path"] for wd, w in k.fds[fd]["watches"].items()}
                root_wd = [wd for wd, p in watches.items() if p == root][0]
                # the kernel reports: directory "a" of the root renamed to "c"
                k.feed(fd, fakefd.pack_event(root_wd, fakefd.IN["MOVED_FROM"] | fakefd.IN["ISDIR"], 77, b"a"),
                       fakefd.pack_event(root_wd, fakefd.IN["MOVED_TO"] | fakefd.IN["ISDIR"], 77, b"c"))
                ino.read_events()
                # observe the path now associated with every watch through one file event each
                for wd in sorted(watches):
                    k.feed(fd, fakefd.pack_event(wd, fakefd.IN["MODIFY"], 0, b"probe"))
                evs = ino.read_events()
                got = {e.wd: e.src_path for e in evs}
            finally:
                undo()
            src = os.path.join(root, b"a")
            dst = os.path.join(root, b"c")
            for wd, old in sorted(watches.items()):
                cases.append(sx([Atom("rekey"), Atom("first"), src, dst, old]))
                impls.append(list(os.path.dirname(got[wd])) if wd in got else None)
                metas.append({"fn": "Inotify.read_events re-key", "root": repr(root), "old": repr(old),
                              "tree": sorted_spec(spec)})
                # oracle: a watch below the moved directory must now carry dst + same suffix
                if old == src or old.startswith(src + b"/"):
                    want = dst + old[len(src):]
                else:
                    want = old
                res.evaluations += 1
                if old.startswith(src + b"/") and old.count(src) > 1:
                    res.nontrivial.add(core.digest(["rekey", repr(old)]))
                elif old.startswith(src + b"/"):
                    res.nontrivial.add(core.digest(["rekey-plain", len(old.split(b"/"))]))
                res.hist("rekey_kind", "moved_dir" if old == src else "below" if old.startswith(src + b"/") else "other")
                if wd in got and os.path.dirname(got[wd]) != want:
                    res.failures.append(Failure(
                        what="after a directory rename, events of a watched descendant carry a wrong path",
                        case=metas[-1], signature={"fn": "Inotify.read_events", "law": "rekey"},
                        observed=repr(os.path.dirname(got[wd])), expected=repr(want)))
    finally:
        os.chdir(cwd)
        shutil.rmtree(scratch, ignore_errors=True)
    outs = core.run_model("subevents", cases)
    for c, o, im, me in zip(cases, outs, impls, metas):
        res.traces_validated += 1
        if im is None or atom_ints(o) != im:
            res.mismatches.append(Mismatch(pair="rekey_path", case=me, model=str(o), impl=str(im)))


def run_bstr(ctx, res: Result, n: int):
    """Validate the byte-string functions of the model against CPython."""
    import posixpath
    rng = ctx.rng("bstr")
    alpha = [b"a", b"b", b"/", b"/", b"ab", b""]
    cases, impls, names = [], [], []

    def rs(k):
        return b"".join(rng.choice(alpha) for _ in range(rng.randint(0, k)))
    for i in range(n):
        a, b, s = rs(4), rs(3), rs(8)
        old = rs(2) or b"a"
        cases += [sx([Atom("join"), a, b]), sx([Atom("dirname"), s]), sx([Atom("basename"), s]),
                  sx([Atom("replace_all"), old, b, s]), sx([Atom("replace_first"), old, b, s]),
                  sx([Atom("starts"), old, s])]
        impls += [posixpath.join(a, b), posixpath.dirname(s), posixpath.basename(s), s.replace(old, b),
                  s.replace(old, b, 1), s.startswith(old)]
        names += ["join", "dirname", "basename", "replace_all", "replace_first", "starts"]
    outs = core.run_model("bstr", cases)
    for c, o, im, nm in zip(cases, outs, impls, names):
        res.evaluations += 1
        res.traces_validated += 1
        mo = (o == "1") if nm == "starts" else bytes(atom_ints(o))
        if mo != im:
            res.mismatches.append(Mismatch(pair="BStr." + nm, case=c, model=repr(mo), impl=repr(im)))


def corpus_specs():
    # hand-written adversarial cases: names that repeat the prefix
    out = []
    for variant in [(True, False), (True, True), (False, False), (False, True)]:
        out.append((variant, {"b": {"b": {"x": None}}, "ab": None}))
        out.append((variant, {"a": {"b": None}, "bb": {"b": {}}}))
    return out


def abs_chain_specs(n):
    """Trees that spell out the absolute destination path again below it (built lazily per scratch)."""
    return n


def run(ctx) -> Result:
    res = Result()
    res.rule = ("trees over the name universe {a,b,ab,ba,c} + the components of the absolute destination path, built on disk; "
                "4 variants (relative/absolute x str/bytes); distinct = (variant, tree shape); non-trivial = depth >= 2 or a "
                "descendant path that contains the destination prefix again")
    rng = ctx.rng("trees")
    specs = corpus_specs()
    for c in ctx.corpus():
        specs.append(((c["relative"], c["bytes"], c.get("spelling", "plain")), c["spec"]))
    names = ["a", "b", "ab", "ba", "c"]
    n_random = 150 if not ctx.thorough else 1500
    for i in range(n_random):
        variant = (bool(i & 1), bool(i & 2), "odd" if i % 5 == 4 else "plain")
        specs.append((variant, rand_spec(rng, names, 3, 3)))
    run_specs(ctx, res, specs, "random")
    # absolute chains: the scratch path is only known inside run_specs, so build them here with a probe dir
    res2 = Result()
    probe_specs = []
    base = "/dev/shm" if os.path.isdir("/dev/shm") else tempfile.gettempdir()
    # the chain uses the components of <scratch>/b; scratch name is random, so use a fixed sub-directory layout:
    # run_specs creates <scratch>/b; a chain "dev/shm/<scratchname>/b" cannot be known in advance, hence a
    # dedicated runner below.
    run_abs_chain(ctx, res, 12 if not ctx.thorough else 60)
    if ctx.thorough:
        ex = all_specs(["a", "b", "ab"], 4)
        run_specs(ctx, res, [((True, False), s) for s in ex] + [((True, True), s) for s in ex], "exhaustive")
        res.notes.append(f"exhaustive: all {len(ex)} trees with <= 4 entries over {{a,b,ab}} (relative, str and bytes)")
    run_rekey(ctx, res, 16 if not ctx.thorough else 120)
    run_appears(ctx, res, 40 if not ctx.thorough else 400)
    run_bstr(ctx, res, 300 if not ctx.thorough else 3000)
    return res


def run_appears(ctx, res: Result, n: int, fixed=None):
    """The reader's own walk of a directory that APPEARS populated (its content exists before the reader looks at the
    directory's IN_CREATE): Inotify.read_events() must hand on exactly one created record per descendant - files,
    directories and symbolic links (to a file, to a directory outside the tree, dangling) alike - parents first, with
    the right flavour for everything that is not a link.  Real Inotify object on a real tree, read by this thread."""
    from watchdog.observers.inotify_c import Inotify, InotifyConstants
    rng = ctx.rng("appears")
    names = ["a", "b", "ab", "c"]
    for i in range(n if fixed is None else len(fixed)):
        base = tempfile.mkdtemp(prefix="wdp", dir="/dev/shm" if os.path.isdir("/dev/shm") else None)
        ino = None
        try:
            root, out = os.path.join(base, "R"), os.path.join(base, "O")
            os.makedirs(root)
            os.makedirs(os.path.join(out, "od", "sub"))
            open(os.path.join(out, "of"), "w").close()
            spec = rand_spec(rng, names, 2, 3) if fixed is None else fixed[i][0]
            ino = Inotify(os.fsencode(root), recursive=True)
            d = os.path.join(root, "new")
            make_tree(d, spec)
            dirs = [d] + [p for k, p in independent_listing(d) if k == "D"]
            links = []
            if fixed is None:
                plan = []
                for k in range(rng.randint(0, 3) if i % 3 else 0):
                    plan.append([os.path.relpath(os.path.join(rng.choice(dirs), f"l{k}"), d), rng.choice(["od", "of", "nowhere"])])
            else:
                plan = fixed[i][1]
            for rel, tname in plan:
                os.symlink(os.path.join(out, tname), os.path.join(d, rel))
                links.append([rel, tname])
            listing = independent_listing(d)
            evs = ino.read_events()
            res.evaluations += 1
            res.hist("appears_links", len(links))
            meta = {"part": "appears", "spec": sorted_spec(spec), "links": links}
            if len(listing) >= 2:
                res.nontrivial.add(core.digest(meta))
            bd = os.fsencode(d)
            created = [(os.fsdecode(e.src_path), bool(e.mask & InotifyConstants.IN_ISDIR)) for e in evs
                       if e.mask & InotifyConstants.IN_CREATE and e.src_path != bd and e.src_path.startswith(bd + b"/")]
            want = {p: k for k, p in listing}
            linkset = {os.path.join(d, rel) for rel, _ in links}
            bad = None
            seen = set()
            for p_, isdir in created:
                if p_ in seen:
                    bad = ("descendant reported twice", p_)
                elif p_ not in want:
                    bad = ("path is not a real descendant", p_)
                elif p_ not in linkset and isdir != (want[p_] == "D"):
                    bad = ("wrong File/Dir flavour", p_)
                elif os.path.dirname(p_) != d and os.path.dirname(p_) not in seen:
                    bad = ("child reported before its parent", p_)
                seen.add(p_)
                if bad:
                    break
            if not bad:
                missing = sorted(p_ for p_ in want if p_ not in seen)
                if missing:
                    bad = ("descendant without created record", missing[0])
            if bad:
                res.failures.append(Failure(
                    what=f"a directory that appears populated (reader's own walk): {bad[0]}", case=meta,
                    signature={"part": "appears", "law": bad[0], "is_link": bad[1] in linkset},
                    observed={"offending": os.path.relpath(bad[1], d), "created": [[os.path.relpath(p_, d), k] for p_, k in created]},
                    expected={"one created record each": sorted(os.path.relpath(p_, d) for p_ in want)}))
        finally:
            if ino is not None:
                ino.close()
            shutil.rmtree(base, ignore_errors=True)


def run_abs_chain(ctx, res: Result, n: int):
    """Absolute destination whose own path components re-appear as a directory chain below it."""
    from watchdog.events import DirMovedEvent, generate_sub_moved_events
    rng = ctx.rng("abschain")
    base = "/dev/shm" if os.path.isdir("/dev/shm") else None
    cases, impls, metas = [], [], []
    for i in range(n):
        scratch = tempfile.mkdtemp(prefix="wdc", dir=base)
        try:
            dest = os.path.join(scratch, "b")
            src = os.path.join(scratch, "a")
            comps = [c for c in dest.split("/") if c]
            leaf = rand_spec(rng, ["a", "b", "x"], 1, 2)
            spec = {**rand_spec(rng, ["a", "x"], 1, 2), **chain_spec(comps, leaf)}
            make_tree(dest, spec)
            as_bytes = bool(i & 1)
            d, s = (os.fsencode(dest), os.fsencode(src)) if as_bytes else (dest, src)
            evs = list(generate_sub_moved_events(s, d))
            impl = [["D" if isinstance(e, DirMovedEvent) else "F", ints(e.src_path), ints(e.dest_path)] for e in evs]
            meta = {"fn": "generate_sub_moved_events", "relative": False, "bytes": as_bytes,
                    "tree": "chain of directories spelling the destination path again: " + "/".join(comps) + " + " + repr(sorted_spec(leaf)),
                    "src": repr(s), "dest": repr(d)}
            cases.append(sx([Atom("moved"), Atom("first"), wire(s), wire(d), tree_wire(read_tree(d))]))
            impls.append(impl)
            metas.append(meta)
            bad = oracle_moved(evs, s, d, independent_listing(d))
            res.evaluations += 1
            res.hist("variant", f"abs-chain/{'bytes' if as_bytes else 'str'}")
            res.nontrivial.add(core.digest(["abschain", as_bytes, sorted_spec(leaf)]))
            if bad:
                res.failures.append(Failure(
                    what=f"generate_sub_moved_events: {bad[0]}", case=meta,
                    signature={"fn": "generate_sub_moved_events", "law": bad[0]}, observed=repr(bad[1]),
                    expected="src = old dir + same relative path"))
        finally:
            shutil.rmtree(scratch, ignore_errors=True)
    outs = core.run_model("subevents", cases)
    for c, o, im, me in zip(cases, outs, impls, metas):
        mo = [[e[0]] + [atom_ints(x) for x in e[1:]] for e in o]
        res.traces_validated += 1
        if mo != im:
            res.mismatches.append(Mismatch(pair=me["fn"], case=me, model=str(mo)[:600], impl=str(im)[:600]))


def replay(ctx, obj) -> int:
    case = obj.get("case", obj)
    print("replay case:", case)
    res = Result()
    if "tree" in case and isinstance(case["tree"], list):
        def unsort(t):
            return {n: (None if s is None else unsort(s)) for n, s in t}
        run_specs(ctx, res, [((case["relative"], case["bytes"], case.get("spelling", "plain")), unsort(case["tree"]))], "replay")
    elif case.get("part") == "appears":
        def unsort(t):
            return {n: (None if s is None else unsort(s)) for n, s in t}
        run_appears(ctx, res, 1, fixed=[(unsort(case["spec"]), case["links"])])
    for f in res.failures:
        print("FAIL:", f.what, "observed", f.observed, "expected", f.expected)
    for m in res.mismatches:
        print("MISMATCH:", m.pair, "model", m.model, "impl", m.impl)
    return 1 if res.failures or res.mismatches else 0
