(* Proofs about the observer LTS (Model/Observer.v). *)
Require Import WD.Base.Prelude WD.Model.Observer.

(* ------------------------------------------------------------------ projections through set_cont *)
Ltac dt t := destruct t; reflexivity.
Lemma glog_set_cont t k s : glog (set_cont t k s) = glog s. Proof. dt t. Qed.
Lemma handlers_set_cont t k s : handlers (set_cont t k s) = handlers s. Proof. dt t. Qed.
Lemma queue_set_cont t k s : queue (set_cont t k s) = queue s. Proof. dt t. Qed.
Lemma ems_set_cont t k s : ems (set_cont t k s) = ems s. Proof. dt t. Qed.
Lemma dtodo_set_cont t k s : dtodo (set_cont t k s) = dtodo s. Proof. dt t. Qed.
Lemma dcur_set_cont t k s : dcur (set_cont t k s) = dcur s. Proof. dt t. Qed.
Lemma fixed_set_cont t k s : fixed (set_cont t k s) = fixed s. Proof. dt t. Qed.
Lemma dstop_set_cont t k s : dstop (set_cont t k s) = dstop s. Proof. dt t. Qed.

(* ------------------------------------------------------------------ generic invariant principle *)
Definition em_label (l : label) : bool :=
  match l with LECheck _ | LEPut _ _ | LESkip _ _ | LEIdle _ | LEExit _ => true | _ => false end.

Section Inv.
  Variable P : state -> Prop.
  Hypothesis Hexec : forall s t i k inp s', P s -> cont s t = i :: k -> exec s t i k inp = Some s' -> P s'.
  Hypothesis Hcall : forall s n c, P s -> cont s (TA n) = [] ->
      P (set_cont (TA n) (body (fixed s) c) (say (GCall (TA n) c) s)).
  Hypothesis Hem : forall s l s', P s -> em_label l = true -> step s l = Some s' -> P s'.

  Lemma closure_P : forall f t s, P s -> P (closure f t s).
  Proof.
    induction f as [|f IH]; intros t s Hs; simpl; auto.
    destruct (cont s t) as [|i k] eqn:Ec; auto.
    destruct (is_silent s i); auto.
    destruct (exec s t i k NoIn) as [s'|] eqn:Ee; auto.
    apply IH. eapply Hexec; eauto.
  Qed.

  Lemma step_thread_P s t inp s' : P s -> step_thread s t inp = Some s' -> P s'.
  Proof.
    unfold step_thread. intros Hs H. destruct (cont s t) as [|i k] eqn:Ec; try discriminate.
    destruct (exec s t i k inp) as [s1|] eqn:Ee; try discriminate.
    assert (E : closure FUEL t s1 = s') by (clear - H; congruence). rewrite <- E.
    apply closure_P. eapply Hexec; eauto.
  Qed.

  Lemma step_P s l s' : P s -> step s l = Some s' -> P s'.
  Proof.
    intros Hs H. destruct l; try (eapply Hem; eauto; reflexivity).
    - unfold step in H. destruct (cont s (TA n)) eqn:Ec; try discriminate.
      match type of H with Some ?x = _ => assert (E : x = s') by (clear - H; congruence) end. rewrite <- E.
      apply closure_P. apply Hcall; auto.
    - eapply step_thread_P; eauto.
    - eapply step_thread_P; eauto.
    - eapply step_thread_P; eauto.
  Qed.

  Lemma run_P tr : forall s s', P s -> run s tr = Some s' -> P s'.
  Proof.
    induction tr as [|l tr IH]; simpl; intros s s' Hs H.
    - inversion H; subst; auto.
    - destruct (step s l) as [s1|] eqn:E; try discriminate. eapply IH; [|eauto]. eapply step_P; eauto.
  Qed.

  Lemma reach_P : P init -> forall s, reachable s -> P s.
  Proof. intros Hi s [tr H]. eapply run_P; eauto. Qed.
End Inv.

(* ------------------------------------------------------------------ list-set and assoc lemmas *)
Lemma memN_app x l1 l2 : memN x (l1 ++ l2) = memN x l1 || memN x l2.
Proof. unfold memN. apply existsb_app. Qed.

Lemma memN_addN x y l : memN x (addN y l) = N.eqb x y || memN x l.
Proof.
  unfold addN. destruct (memN y l) eqn:E.
  - destruct (N.eqb x y) eqn:Exy; simpl; auto. apply N.eqb_eq in Exy. subst. auto.
  - rewrite memN_app. simpl. rewrite orb_false_r. apply orb_comm.
Qed.

Lemma memN_remN x y l : memN x (remN y l) = negb (N.eqb y x) && memN x l.
Proof.
  unfold remN, memN. induction l as [|a l IH]; simpl.
  - rewrite andb_false_r. reflexivity.
  - destruct (N.eqb y a) eqn:Eya; simpl.
    + rewrite IH. apply N.eqb_eq in Eya. subst a.
      destruct (N.eqb y x) eqn:Eyx; simpl; auto.
      rewrite N.eqb_sym. rewrite Eyx. reflexivity.
    + rewrite IH. destruct (N.eqb x a) eqn:Exa; simpl.
      * apply N.eqb_eq in Exa. subst a. rewrite Eya. reflexivity.
      * reflexivity.
Qed.

Lemma hset_hauto w' w m : hset w' (hauto w m) = hset w' m.
Proof.
  unfold hauto, amem. destruct (alookup N.eqb w m) eqn:E; auto.
  unfold hset. induction m as [|[k v] m IH]; simpl in *.
  - destruct (N.eqb w' w); reflexivity.
  - destruct (N.eqb w k) eqn:Ewk; try discriminate.
    destruct (N.eqb w' k); auto.
Qed.

Lemma hset_aset w' w v m : hset w' (aset N.eqb w v m) = if N.eqb w' w then v else hset w' m.
Proof.
  unfold hset. induction m as [|[k x] m IH]; simpl.
  - destruct (N.eqb w' w); reflexivity.
  - destruct (N.eqb w k) eqn:Ewk; simpl.
    + apply N.eqb_eq in Ewk. subst k. destruct (N.eqb w' w); reflexivity.
    + destruct (N.eqb w' k) eqn:Ew'k.
      * apply N.eqb_eq in Ew'k. subst k. rewrite N.eqb_sym. rewrite Ewk. reflexivity.
      * apply IH.
Qed.

Lemma hset_aremove w' w m : hset w' (aremove N.eqb w m) = if N.eqb w' w then [] else hset w' m.
Proof.
  unfold hset. induction m as [|[k x] m IH]; simpl.
  - destruct (N.eqb w' w); reflexivity.
  - destruct (N.eqb w k) eqn:Ewk; simpl.
    + apply N.eqb_eq in Ewk. subst k. rewrite IH. destruct (N.eqb w' w); reflexivity.
    + destruct (N.eqb w' k) eqn:Ew'k.
      * apply N.eqb_eq in Ew'k. subst k. rewrite N.eqb_sym. rewrite Ewk. reflexivity.
      * apply IH.
Qed.

(* ------------------------------------------------------------------ C05 / C04: registration ghost, callbacks *)
Definition RegInv (s : state) : Prop :=
  (forall h w, memN h (hset w (handlers s)) = reg (glog s) h w) /\ cb_ok (glog s) = true.

Ltac crush_exec H :=
  unfold exec in H;
  repeat match type of H with
         | context [match ?x with _ => _ end] => destruct x eqn:?
         end;
  try discriminate; inversion H; subst; clear H.

Ltac proj :=
  repeat (rewrite ?glog_set_cont, ?handlers_set_cont, ?queue_set_cont, ?ems_set_cont, ?dtodo_set_cont,
          ?dcur_set_cont, ?fixed_set_cont, ?dstop_set_cont); cbn -[hset hauto reg cb_ok memN addN remN aset aremove].

Lemma andb_eqb_sym (a b c d : N) : (N.eqb a b && N.eqb c d) = (N.eqb b a && N.eqb d c).
Proof. rewrite (N.eqb_sym a b), (N.eqb_sym c d). reflexivity. Qed.

Lemma RegInv_exec s t i k inp s' : RegInv s -> cont s t = i :: k -> exec s t i k inp = Some s' -> RegInv s'.
Proof.
  intros [Hr Hc] _ H. destruct i; crush_exec H; unfold RegInv; proj;
    try (split; [intros h' w'; try apply Hr | try exact Hc]).
  all: try (rewrite ?hset_aset, ?hset_hauto, ?hset_aremove; simpl;
            repeat match goal with |- context [N.eqb ?a ?b] => destruct (N.eqb a b) eqn:? end;
            rewrite ?memN_addN, ?memN_remN, ?hset_hauto; simpl;
            repeat match goal with
                   | H : N.eqb _ _ = true |- _ => apply N.eqb_eq in H; subst
                   end;
            rewrite ?N.eqb_refl in *; simpl; try congruence; try apply Hr; auto).
  all: try (match goal with H: (?a =? ?b)%N = false |- context[(?a =? ?b)%N] => rewrite H end; simpl; apply Hr).
  all: try (match goal with H: (?a =? ?b)%N = false |- context[(?b =? ?a)%N] => rewrite (N.eqb_sym b a), H end; simpl; apply Hr).
  all: try (rewrite Hc, andb_true_r; rewrite <- Hr;
            match goal with H: memN _ (hset _ (hauto _ _)) = true |- _ => rewrite hset_hauto in H; exact H end).
Qed.

Lemma RegInv_em s l s' : RegInv s -> em_label l = true -> step s l = Some s' -> RegInv s'.
Proof.
  intros [Hr Hc] Hl H. destruct l; try discriminate; simpl in H;
    repeat match type of H with context [match ?x with _ => _ end] => destruct x eqn:? end;
    try discriminate; inversion H; subst; clear H; split; simpl; auto.
Qed.

Lemma RegInv_call s n c : RegInv s -> cont s (TA n) = [] ->
  RegInv (set_cont (TA n) (body (fixed s) c) (say (GCall (TA n) c) s)).
Proof. intros [Hr Hc] _. split; simpl; auto. Qed.

Lemma RegInv_reachable s : reachable s -> RegInv s.
Proof.
  apply reach_P.
  - apply RegInv_exec.
  - apply RegInv_call.
  - apply RegInv_em.
  - split; simpl; auto.
Qed.

(* cb_ok, unfolded: at every callback in the log, the last registration event of (h,w) before it is an add *)
Lemma cb_ok_split g : cb_ok g = true -> forall l2 h w e l1, g = l2 ++ GCb h w e :: l1 -> reg l1 h w = true.
Proof.
  induction g as [|x g IH]; intros Hc l2 h w e l1 E.
  - destruct l2; discriminate.
  - destruct l2 as [|y l2]; simpl in E; inversion E; subst.
    + simpl in Hc. apply andb_true_iff in Hc. tauto.
    + apply (IH) with (l2 := l2) (e := e); auto.
      destruct y; simpl in Hc; auto. apply andb_true_iff in Hc. tauto.
Qed.

Lemma callbacks_registered s : reachable s ->
  forall l2 h w e l1, glog s = l2 ++ GCb h w e :: l1 -> reg l1 h w = true.
Proof. intros Hs. apply cb_ok_split. apply RegInv_reachable; auto. Qed.

(* a removal event in the log un-registers until a later add *)
Lemma reg_after_removal l2 : forall h w l1,
  reg (l2 ++ l1) h w = true ->
  (match l1 with
   | GRemoved h' w' :: _ => h = h' /\ w = w'
   | GRemovedW w' :: _ => w = w'
   | GRemovedAll :: _ => True
   | _ => False end) ->
  In (GAdded h w) l2.
Proof.
  induction l2 as [|x l2 IH]; intros h w l1 Hreg Hl1; simpl in *.
  - destruct l1 as [|g l1]; try tauto. destruct g; try tauto; simpl in Hreg.
    + destruct Hl1; subst. rewrite !N.eqb_refl in Hreg. discriminate.
    + subst. rewrite N.eqb_refl in Hreg. discriminate.
    + discriminate.
  - destruct x; simpl in Hreg; try (right; eapply IH; eauto; fail).
    + apply orb_true_iff in Hreg as [H|H].
      * apply andb_true_iff in H as [H1 H2]. apply N.eqb_eq in H1, H2. subst. left; reflexivity.
      * right; eapply IH; eauto.
    + destruct (N.eqb h h0 && N.eqb w w0); try discriminate. right; eapply IH; eauto.
    + destruct (N.eqb w w0); try discriminate. right; eapply IH; eauto.
    + discriminate.
Qed.

(* ------------------------------------------------------------------ C04: FIFO per watch *)
Definition fq (w : watch) (g : gev) : list event :=
  match g with GPut _ w' e => if N.eqb w w' then [e] else [] | _ => [] end.
Definition fd (w : watch) (g : gev) : list event :=
  match g with GGet (QEv e w') => if N.eqb w w' then [e] else [] | _ => [] end.
Definition fqi (w : watch) (x : qitem) : list event :=
  match x with QEv e w' => if N.eqb w w' then [e] else [] | QStop => [] end.

Definition FifoP (g : list gev) (q : list qitem) : Prop :=
  forall w, flat_map (fq w) (rev g) = flat_map (fd w) (rev g) ++ flat_map (fqi w) q.

Definition FifoInv (s : state) : Prop := FifoP (glog s) (queue s).

Lemma FifoP_other g q x : (forall w, fq w x = []) -> (forall w, fd w x = []) -> FifoP g q -> FifoP (x :: g) q.
Proof.
  intros H1 H2 H w. simpl. rewrite !flat_map_app. simpl. rewrite H1, H2. simpl. rewrite !app_nil_r. apply H.
Qed.

Lemma FifoP_get g q x : FifoP g (x :: q) -> FifoP (GGet x :: g) q.
Proof.
  intros H w. simpl. rewrite !flat_map_app. simpl. rewrite !app_nil_r. rewrite H. simpl.
  rewrite <- app_assoc. try (f_equal; destruct x; reflexivity).
Qed.

Lemma FifoP_put g q e w0 ev : FifoP g q -> FifoP (GPut e w0 ev :: g) (q ++ [QEv ev w0]).
Proof.
  intros H w. simpl. rewrite !flat_map_app. simpl. rewrite !app_nil_r. rewrite H. rewrite <- app_assoc. reflexivity.
Qed.

Lemma FifoP_putm g q x : (forall w, fq w x = []) -> (forall w, fd w x = []) -> FifoP g q -> FifoP (x :: g) (q ++ [QStop]).
Proof.
  intros H1 H2 H w. simpl. rewrite !flat_map_app. simpl. rewrite H1, H2. rewrite !app_nil_r. apply H.
Qed.

Lemma FifoInv_exec s t i k inp s' : FifoInv s -> cont s t = i :: k -> exec s t i k inp = Some s' -> FifoInv s'.
Proof.
  unfold FifoInv. intros Hf _ H. destruct i; crush_exec H; proj;
    repeat (first [ exact Hf
                  | apply FifoP_get; rewrite <- ?Heql; try assumption
                  | apply FifoP_putm; [reflexivity | reflexivity |]
                  | apply FifoP_other; [reflexivity | reflexivity |] ]).
  all: try (match goal with H : queue _ = _ |- _ => rewrite H; exact Hf end).
Qed.

Lemma FifoInv_em s l s' : FifoInv s -> em_label l = true -> step s l = Some s' -> FifoInv s'.
Proof.
  unfold FifoInv. intros Hf Hl H. destruct l; try discriminate; simpl in H;
    repeat match type of H with context [match ?x with _ => _ end] => destruct x eqn:? end;
    try discriminate; inversion H; subst; clear H; cbn;
    first [ exact Hf | apply FifoP_put; exact Hf | apply FifoP_other; [reflexivity | reflexivity | exact Hf] ].
Qed.

Lemma FifoInv_reachable s : reachable s -> FifoInv s.
Proof.
  apply reach_P.
  - apply FifoInv_exec.
  - intros s0 n c H _. unfold FifoInv. cbn. apply FifoP_other; [reflexivity | reflexivity | exact H].
  - apply FifoInv_em.
  - intros w. reflexivity.
Qed.

Lemma fifo_projections s w :
  queued w s = flat_map (fq w) (rev (glog s)) /\ dequeued w s = flat_map (fd w) (rev (glog s))
  /\ queue_of w (queue s) = flat_map (fqi w) (queue s).
Proof. repeat split. Qed.

Lemma fifo s : reachable s -> forall w, queued w s = dequeued w s ++ queue_of w (queue s).
Proof. intros H w. apply (FifoInv_reachable s H w). Qed.

(* ------------------------------------------------------------------ _last_item is the last queued item (or None) *)
Lemma qitem_eqb_refl x : qitem_eqb x x = true.
Proof. destruct x; simpl; auto. rewrite !N.eqb_refl. reflexivity. Qed.
Lemma qitem_eqb_eq x y : qitem_eqb x y = true -> x = y.
Proof.
  destruct x, y; simpl; try discriminate; auto. intros H. apply andb_true_iff in H as [H1 H2].
  apply N.eqb_eq in H1, H2. subst. reflexivity.
Qed.
Lemma last_is_snoc q x : last_is (q ++ [x]) x = true.
Proof. unfold last_is. rewrite rev_app_distr. simpl. apply qitem_eqb_refl. Qed.
Lemma last_is_cons y q x : q <> [] -> last_is (y :: q) x = last_is q x.
Proof.
  intros Hq. unfold last_is. simpl. destruct (rev q) eqn:E.
  - exfalso. apply Hq. apply (f_equal (@rev qitem)) in E. rewrite rev_involutive in E. exact E.
  - reflexivity.
Qed.
Lemma last_is_in q x : last_is q x = true -> In x q.
Proof.
  unfold last_is. destruct (rev q) as [|y r] eqn:E; try discriminate. intros H. apply qitem_eqb_eq in H. subst y.
  apply in_rev. rewrite E. left; reflexivity.
Qed.

Definition QlastInv (s : state) : Prop := forall x, qlast s = Some x -> last_is (queue s) x = true.

Lemma qlast_set_cont t k s : qlast (set_cont t k s) = qlast s. Proof. dt t. Qed.

Lemma QlastInv_get y q l : (forall x, l = Some x -> last_is (y :: q) x = true) ->
  forall x, qlast_after_get y q l = Some x -> last_is q x = true.
Proof.
  intros H x E. destruct q as [|z q].
  - exfalso. destruct y; simpl in E; try discriminate.
    destruct l as [[e w|]|]; try discriminate. specialize (H _ eq_refl). discriminate.
  - assert (El : l = Some x).
    { destruct y; simpl in E; auto. destruct l as [[e w|]|]; try discriminate; auto. }
    rewrite <- (last_is_cons y (z :: q) x) by discriminate. apply H. exact El.
Qed.

Lemma QlastInv_exec s t i k inp s' : QlastInv s -> cont s t = i :: k -> exec s t i k inp = Some s' -> QlastInv s'.
Proof.
  unfold QlastInv. intros Hq _ H.
  destruct i; crush_exec H; rewrite qlast_set_cont, queue_set_cont; cbn; try exact Hq.
  - intros x E. inversion E; subst. apply last_is_snoc.
  - intros x E. eapply QlastInv_get with (l := qlast s); [exact Hq | exact E].
  - intros x E. eapply QlastInv_get with (l := qlast s); [exact Hq | exact E].
Qed.

Lemma QlastInv_em s l s' : QlastInv s -> em_label l = true -> step s l = Some s' -> QlastInv s'.
Proof.
  unfold QlastInv. intros Hq Hl H. destruct l; try discriminate; simpl in H;
    repeat match type of H with context [match ?x with _ => _ end] => destruct x eqn:? end;
    try discriminate; inversion H; subst; clear H; cbn; try exact Hq.
  intros x E. inversion E; subst. apply last_is_snoc.
Qed.

Lemma QlastInv_reachable s : reachable s -> QlastInv s.
Proof.
  apply reach_P.
  - apply QlastInv_exec.
  - intros s0 n c H _. exact H.
  - apply QlastInv_em.
  - intros x E. discriminate.
Qed.

(* a put may be dropped only against an identical last element of the queue *)
Lemma skip_justified s : reachable s -> forall e ev s', step s (LESkip e ev) = Some s' ->
  exists m, get_em s e = Some m /\ qlast s = Some (QEv ev (ew m)) /\
            last_is (queue s) (QEv ev (ew m)) = true /\ queue s' = queue s.
Proof.
  intros Hs e ev s'. simpl. destruct (get_em s e) as [m|] eqn:E; try discriminate. destruct (epcs m); try discriminate.
  destruct (qlast_is s (QEv ev (ew m))) eqn:L; try discriminate. intros H. inversion H; subst.
  exists m. unfold qlast_is in L. destruct (qlast s) as [y|] eqn:Ey; try discriminate.
  apply qitem_eqb_eq in L. subst y. repeat split; auto. apply (QlastInv_reachable s Hs). exact Ey.
Qed.



(* ------------------------------------------------------------------ callbacks: when is one possible *)
Lemma list_neq_cons {A} (l : list A) a : l <> a :: l.
Proof. intros H. apply (f_equal (@length A)) in H. simpl in H. lia. Qed.
Lemma list_neq_cons2 {A} (l : list A) a b : l <> a :: b :: l.
Proof. intros H. apply (f_equal (@length A)) in H. simpl in H. lia. Qed.

(* the only instruction that calls a handler is the dispatcher's turn instruction, and only for the event
   in dispatch, a handler of the snapshot whose turn has not come yet and which is registered now *)
Lemma exec_callback s t i k inp s' h w e x :
  exec s t i k inp = Some s' -> glog s' = GCb h w e :: x :: glog s ->
  i = DTurns /\ dcur s = Some (e, w) /\ memN h (dtodo s) = true /\
  memN h (hset w (handlers s)) = true /\ dtodo s' = remN h (dtodo s) /\ x = GTurn h.
Proof.
  intros H Hg. destruct i; crush_exec H; revert Hg; proj; intros Hg;
    try (exfalso; apply (list_neq_cons2 _ _ _ Hg));
    try (exfalso; inversion Hg; eapply list_neq_cons; eauto; fail);
    try (inversion Hg; fail).
  all: inversion Hg; subst.
  all: try match goal with H : memN _ (hset _ (hauto _ _)) = true |- _ => rewrite hset_hauto in H end.
  all: repeat split; auto.
Qed.

(* ------------------------------------------------------------------ C06: emitter threads *)
Lemma nth_upd_nth {A} (f : A -> A) : forall l n x, nth_error l n = Some x -> nth_error (upd_nth n f l) n = Some (f x).
Proof.
  induction l as [|a l IH]; intros [|n] x H; simpl in *; try discriminate.
  - inversion H; subst; reflexivity.
  - apply IH; auto.
Qed.

Definition em_of (l : label) : option emid :=
  match l with LECheck e | LEPut e _ | LESkip e _ | LEIdle e | LEExit e => Some e | _ => None end.

(* once its stop flag is set, every own step of an emitter thread strictly decreases em_bound (<= 3) *)
Lemma emitter_bounded s l s' e m :
  step s l = Some s' -> em_of l = Some e -> get_em s e = Some m -> estop m = true ->
  exists m', get_em s' e = Some m' /\ estop m' = true /\ em_bound m' < em_bound m.
Proof.
  intros H Hl Hm Hs. destruct l; simpl in Hl; inversion Hl; subst; simpl in H; rewrite Hm in H;
    destruct (epcs m) eqn:Ep; try discriminate; try rewrite Hs in H;
    repeat match type of H with context [if ?x then _ else _] => destruct x end; try discriminate;
    inversion H; subst; clear H; unfold get_em in *; cbn;
    rewrite (nth_upd_nth _ _ _ _ Hm); eexists; (split; [reflexivity|]); cbn; rewrite ?Ep; split; auto; unfold em_bound; cbn; rewrite ?Ep; lia.
Qed.

(* a started, not yet exited emitter thread can always take a step: it never waits for the observer lock *)
Lemma emitter_never_blocked s e m : get_em s e = Some m -> em_running m = true ->
  exists l s', em_of l = Some e /\ step s l = Some s'.
Proof.
  intros Hm Hr. unfold em_running in Hr. destruct (epcs m) eqn:Ep; try discriminate.
  - exists (LECheck e). simpl. rewrite Hm, Ep. destruct (estop m); eexists; split; reflexivity.
  - exists (LEIdle e). simpl. rewrite Hm, Ep. eexists; split; reflexivity.
  - exists (LEExit e). simpl. rewrite Hm, Ep. eexists; split; reflexivity.
Qed.

Lemma running_not_deadlocked s : existsb em_running (ems s) = true -> deadlocked s = false.
Proof. intros H. unfold deadlocked, any_enabled. rewrite H. rewrite orb_true_r. reflexivity. Qed.

(* ------------------------------------------------------------------ C05 *)
Definition covers (r : gev) (h : handler) (w : watch) : Prop :=
  match r with
  | GRemoved h' w' => h = h' /\ w = w'
  | GRemovedW w' => w = w'
  | GRemovedAll => True
  | _ => False
  end.

Lemma no_callback_after_removal s : reachable s ->
  forall l3 h w e l2 r l1, glog s = l3 ++ GCb h w e :: l2 ++ r :: l1 -> covers r h w -> In (GAdded h w) l2.
Proof.
  intros Hs l3 h w e l2 r l1 Hg Hc.
  pose proof (callbacks_registered s Hs _ _ _ _ _ Hg) as Hreg.
  eapply reg_after_removal; eauto; destruct r; simpl in Hc; try tauto.
Qed.

(* the removal events are what the removing calls do, in program order before their Return *)
Lemma removing_bodies fx h w :
  In (IRemH h w) (body fx (CRemove h w)) /\ In (IUnsched w) (body fx (CUnschedule w)) /\
  In IClear (body fx CUnscheduleAll) /\ In IClear (body fx CStop).
Proof. simpl. tauto. Qed.

(* emitter.join() returns only for an emitter thread that has exited (or was never started) *)
Lemma join_means_exited s t e k inp s' : exec s t (IEmJoin e) k inp = Some s' ->
  exists m, get_em s e = Some m /\ (em_started m = false \/ em_exited m = true).
Proof.
  simpl. destruct (get_em s e) as [m|]; try discriminate. intros H. exists m. split; auto.
  destruct (em_started m); auto. destruct (em_exited m); auto. discriminate.
Qed.

(* unschedule(w) stops and joins the emitter it removed before it returns *)
Lemma unschedule_joins s t w k s' e :
  alookup N.eqb w (efw s) = Some e -> amem N.eqb w (handlers s) = true -> memE e (emitters s) = true ->
  exec s t (IUnsched w) k NoIn = Some s' ->
  cont s' t = IEmStop e :: IEmJoin e :: IDelWatch w :: k.
Proof.
  intros H1 H2 H3. simpl. rewrite H1, H2, H3. intros H. inversion H; subst. destruct t; simpl; auto.
  unfold cont. simpl.
  assert (A : forall m, alookup N.eqb n (aset N.eqb n (IEmStop e :: IEmJoin e :: IDelWatch w :: k) m)
              = Some (IEmStop e :: IEmJoin e :: IDelWatch w :: k)).
  { induction m as [|[a b] m IH]; simpl; [rewrite N.eqb_refl; auto|].
    destruct (N.eqb n a) eqn:E; simpl; rewrite ?E, ?N.eqb_refl; auto. }
  rewrite A. reflexivity.
Qed.

(* an exited emitter thread takes no further step, in particular it puts nothing *)
Lemma exited_no_step s l e m : em_of l = Some e -> get_em s e = Some m -> em_exited m = true -> step s l = None.
Proof.
  intros Hl Hm He. unfold em_exited in He. destruct (epcs m) eqn:Ep; try discriminate.
  destruct l; simpl in Hl; inversion Hl; subst; simpl; rewrite Hm, Ep; reflexivity.
Qed.
