(* The pipeline tie of C03 (TieProofs.v), strengthened for induction over blocks: when no raw event of the read is an
   IN_IGNORED / IN_DELETE_SELF about the watched root, the block  AOp o; ARead all; ATick delay; AEmit xN  leaves the
   pipeline idle again (buffer empty, reader thread alive, emitter not stopped), with the reader/kernel state of the
   one-batch read. *)
Require Import WD.Base.Prelude WD.Base.BStr WD.Model.SubEvents WD.Model.Emitter WD.Model.Fs WD.Model.Reader
               WD.Model.DelayQueue WD.Model.Grouping WD.Model.Pipeline WD.Model.Contract.
Require Import WD.Proofs.GroupingProofs WD.Proofs.ContractProofs WD.Proofs.TieProofs.
Local Open Scope N_scope.

(* a raw event that does not announce the end of the watched root *)
Definition root_safe (C : cfg) (e : raw) : Prop :=
  (Emitter.is_ignored (r_mask e) || Emitter.is_delete_self (r_mask e)) = true -> beqb (r_path e) (c_root C) = false.

Definition safe_nev (e : nev) : Prop := is_ignored_root e = false /\ is_delete_self_root e = false.
Definition safe_item (g : Grouping.item) : Prop := match g with ISingle e => safe_nev e | IPair _ _ => True end.

Lemma root_safe_nev C tbl e r : rel1 C tbl e r -> root_safe C r -> safe_nev e.
Proof.
  intros [_ Hk] Hs. unfold safe_nev, is_ignored_root, is_delete_self_root. rewrite Hk. unfold nkind_of.
  unfold root_safe in Hs.
  destruct (Emitter.is_moved_from (r_mask r)); [now split|]. destruct (Emitter.is_moved_to (r_mask r)); [now split|].
  destruct (Emitter.is_ignored (r_mask r)) eqn:Ei.
  - rewrite Hs by reflexivity. now split.
  - destruct (Emitter.is_delete_self (r_mask r)) eqn:Ed; [|now split]. rewrite Hs by reflexivity. now split.
Qed.

Lemma pair_in_grouped_safe c t g g' : Forall safe_item g -> pair_in_grouped c t g = Some g' -> Forall safe_item g'.
Proof.
  revert g'. induction g as [|it g IH]; intros g' Hg H; cbn in H; [discriminate|]. inversion Hg; subst.
  destruct (is_from c it).
  - destruct it; [|discriminate]. injection H as <-. constructor; [exact I | assumption].
  - destruct (pair_in_grouped c t g) as [g''|]; [|discriminate]. injection H as <-. constructor; auto.
Qed.

Lemma ggo_safe b : forall g, Forall safe_nev b -> Forall safe_item g -> Forall safe_item (ggo b g).
Proof.
  induction b as [|e b IH]; intros g Hb Hg; cbn [ggo]; [exact Hg|]. inversion Hb; subst.
  assert (Hs : Forall safe_item (g ++ [ISingle e])) by (apply Forall_app; split; [exact Hg | constructor; [assumption | constructor]]).
  destruct (n_kind e); try (apply IH; assumption).
  destruct (pair_in_grouped cookie e g) as [g'|] eqn:Ep; [|apply IH; assumption].
  apply IH; [assumption | exact (pair_in_grouped_safe _ _ _ _ Hg Ep)].
Qed.

Section RunDs.
  Variable delay : N.

  Lemma run_put_ds g : forall f d ds n its nr K, QInv d its n K -> Forall safe_item g ->
    exists d' n' its',
      reader_run delay (length g + f) (d, mkrst [] g ds n its nr)
      = reader_run delay f (d', mkrst [] [] ds n' its' nr) /\
      QInv d' its' n' (K ++ filter kept g) /\ clock d' = clock d.
  Proof.
    induction g as [|it g IH]; intros f d ds n its nr K HI Hs.
    - exists d, n, its. simpl. rewrite app_nil_r. auto.
    - inversion Hs as [|? ? Hit Hs']; subst.
      cbn [length plus reader_run snd batch grouped mkrst]. cbn [gstep mkrst batch grouped].
      destruct it as [e|a b].
      + destruct Hit as [Hi1 Hi2]. destruct (Grouping.is_ignored e) eqn:Ei.
        * cbn [items deleted_self next_el nread filter kept]. rewrite Ei, Hi1, orb_false_r. cbn [negb].
          apply IH; assumption.
        * cbn [step items deleted_self next_el nread filter kept]. rewrite Ei, Hi2, orb_false_r. cbn [negb].
          destruct (IH f (putq d n (single_from (ISingle e))) ds (n + 1)
                       (its ++ [(n, ISingle e)]) nr (K ++ [ISingle e]) (qinv_put _ _ _ _ _ _ HI) Hs')
            as [d' [n' [its' [H1 [H2 H3]]]]].
          exists d', n', its'. rewrite <- app_assoc in H2. auto.
      + cbn [step items deleted_self next_el nread filter kept].
        destruct (IH f (putq d n false) ds (n + 1) (its ++ [(n, IPair a b)]) nr (K ++ [IPair a b])
                     (qinv_put _ _ _ _ _ _ HI) Hs') as [d' [n' [its' [H1 [H2 H3]]]]].
        exists d', n', its'. rewrite <- app_assoc in H2. auto.
  Qed.

  Lemma reader_run_spec_ds b d ds n its nr : q d = [] -> QInv d its n [] -> Forall safe_nev b ->
    exists d' n' its',
      reader_run delay (2 * length b + 2) (d, mkrst b [] ds n its nr) = (d', mkrst [] [] ds n' its' nr) /\
      QInv d' its' n' (filter kept (ggo b [])) /\ clock d' = clock d.
  Proof.
    intros Hq HI Hb. assert (Hl := ggo_length b []). simpl in Hl.
    replace (2 * length b + 2)%nat
      with (length b + (length (ggo b []) + (2 * length b + 2 - length b - length (ggo b []))))%nat by lia.
    rewrite run_group by exact Hq.
    destruct (run_put_ds (ggo b []) (2 * length b + 2 - length b - length (ggo b [])) d ds n its nr [] HI)
      as [d' [n' [its' [H1 [H2 H3]]]]]; [apply ggo_safe; [exact Hb | constructor]|].
    exists d', n', its'. rewrite H1, run_done. auto.
  Qed.
End RunDs.

(* the emitter never stops on a root-safe item *)
Lemma emit_single_nostop C full rec ct e : root_safe C e -> snd (emit_single full rec (c_root C) ct e) = false.
Proof.
  intros Hs. unfold emit_single. unfold root_safe in Hs.
  destruct (Emitter.is_moved_to (r_mask e)); [reflexivity|].
  destruct (Emitter.is_attrib (r_mask e) || Emitter.is_modify (r_mask e)); [reflexivity|].
  destruct (Emitter.is_delete (r_mask e) || Emitter.is_moved_from (r_mask e) && negb full); [reflexivity|].
  destruct (Emitter.is_moved_from (r_mask e) && full); [reflexivity|].
  destruct (Emitter.is_create (r_mask e)); [reflexivity|].
  destruct (Emitter.is_delete_self (r_mask e)) eqn:Ed.
  - rewrite Hs by apply orb_true_r. cbn [andb]. destruct (negb _); [|reflexivity].
    destruct (Emitter.is_open _); [reflexivity|]. destruct (Emitter.is_close_write _); [reflexivity|].
    now destruct (Emitter.is_close_nowrite _).
  - cbn [andb]. destruct (negb _); [|reflexivity].
    destruct (Emitter.is_open _); [reflexivity|]. destruct (Emitter.is_close_write _); [reflexivity|].
    now destruct (Emitter.is_close_nowrite _).
Qed.

Definition item_safe (C : cfg) (it : Emitter.item) : Prop :=
  match it with Single e => root_safe C e | Pair _ _ => True end.

Lemma emit_nostop C full rec ct it : item_safe C it -> snd (emit full rec (c_root C) ct it) = false.
Proof. destruct it; cbn [emit item_safe]; [apply emit_single_nostop | reflexivity]. Qed.

Lemma pair_in_batch_safe C c t g g' : Forall (item_safe C) g -> pair_in_batch C c t g = Some g' -> Forall (item_safe C) g'.
Proof.
  revert g'. induction g as [|it g IH]; intros g' Hg H; cbn in H; [discriminate|]. inversion Hg; subst.
  destruct (is_from_raw C c it).
  - destruct it; [|discriminate]. injection H as <-. constructor; [exact I | assumption].
  - destruct (pair_in_batch C c t g) as [g''|]; [|discriminate]. injection H as <-. constructor; auto.
Qed.

Lemma group_go_safe C b : forall g, Forall (root_safe C) b -> Forall (item_safe C) g -> Forall (item_safe C) (group_go C b g).
Proof.
  induction b as [|e b IH]; intros g Hb Hg; cbn [group_go]; [exact Hg|]. inversion Hb; subst.
  assert (Hs : Forall (item_safe C) (g ++ [Single e])) by (apply Forall_app; split; [exact Hg | constructor; [assumption | constructor]]).
  destruct (nkind_of C e); try (apply IH; assumption).
  destruct (pair_in_batch C cookie e g) as [g'|] eqn:Ep; [|apply IH; assumption].
  apply IH; [assumption | exact (pair_in_batch_safe _ _ _ _ _ Hg Ep)].
Qed.

Lemma group_batch_safe C raws : Forall (root_safe C) raws -> Forall (item_safe C) (group_batch C raws).
Proof.
  intros H. unfold group_batch. assert (Hg := group_go_safe C raws [] H (Forall_nil _)).
  rewrite Forall_forall in *. intros x Hx. apply filter_In in Hx as [Hx _]. now apply Hg.
Qed.

Lemma number_bound C raws : forall n nevs tbl, number C n raws = (nevs, tbl) ->
  forall id, In id (map fst tbl) -> id < n + N.of_nat (length raws).
Proof.
  induction raws as [|e raws IH]; intros n nevs tbl H id Hid; simpl in H.
  - inversion H; subst. destruct Hid.
  - destruct (number C (n + 1) raws) as [a b] eqn:E. inversion H; subst. clear H. cbn [map fst length] in *.
    destruct Hid as [<-|Hid]; [lia|]. apply (IH _ _ _ E) in Hid. lia.
Qed.

Section LoopStrong.
  Variable P : pcfg.
  Hypothesis HF : pc_filter P = None.
  Let delay := pc_delay P.

  Lemma emit_loop_strong : forall K raws s d rs acc,
    p_buf s = (d, rs) -> pc d = CIdle -> closed d = false -> p_stopped s = false ->
    Forall2 (fun en it => item_of (items rs) (e_id en) = Some it) (q d) K ->
    (forall en, In en (q d) -> e_tins en + delay <= clock d) ->
    Forall2 (relI (pc_reader P) (p_tbl s)) K raws -> Forall (item_safe (pc_reader P)) raws ->
    exists s' obs d', prun P s (repeat AEmit (length K)) acc = Done (s', obs) /\
      p_out s' = p_out s ++ emit_all (pc_full P) (c_recursive (pc_reader P)) (c_root (pc_reader P)) (content (w_fs (p_world s))) raws /\
      p_world s' = p_world s /\ p_k s' = p_k s /\ p_r s' = p_r s /\ p_tbl s' = p_tbl s /\ p_next s' = p_next s /\
      p_stopped s' = false /\ p_buf s' = (d', rs) /\ q d' = [] /\ pc d' = CIdle /\ closed d' = false.
  Proof.
    induction K as [|git K IH]; intros raws s d rs acc Hb Hpc Hcl Hs HQ Ht HR Hsafe.
    - inversion HR; subst. inversion HQ as [Hqd|]; subst. exists s, acc, d. cbn [emit_all]. rewrite app_nil_r.
      repeat split; auto.
    - inversion HR as [|? eit ? raws' Hr1 HR']; subst. inversion HQ as [|en ? rest ? Hit HQ' Hqd]; subst.
      inversion Hsafe as [|? ? Hs1 Hsafe']; subst.
      symmetry in Hqd.
      assert (Hstep := emit_step P HF s d rs en rest git eit Hb Hs Hqd Hpc Hcl
                                 (Ht en ltac:(rewrite Hqd; left; reflexivity)) Hit (relI_emit _ _ _ _ Hr1)).
      cbn [length repeat prun]. rewrite Hstep. cbn zeta.
      cbn [emit_all].
      assert (Hns := emit_nostop (pc_reader P) (pc_full P) (c_recursive (pc_reader P)) (content (w_fs (p_world s))) eit Hs1).
      destruct (emit (pc_full P) (c_recursive (pc_reader P)) (c_root (pc_reader P)) (content (w_fs (p_world s))) eit) as [evs stop] eqn:Ee.
      cbn [fst snd] in *. subst stop.
      destruct (IH raws' (set_emit s (popq d rest en, rs) evs false) (popq d rest en) rs (acc ++ [OEvents evs]))
        as (s' & obs & d' & Hrun & Hout & A1 & A2 & A3 & A4 & A5 & A6 & A7 & A8 & A9 & A10); try reflexivity; try assumption.
      + intros en' Hin. cbn [popq q clock] in *. apply Ht. rewrite Hqd. now right.
      + exists s', obs, d'. split; [exact Hrun|]. rewrite Hout. cbn [set_emit p_out p_stopped p_world] in *.
        rewrite <- app_assoc. repeat split; assumption.
  Qed.
End LoopStrong.

(* the strengthened tie *)
Theorem tie_strong P s o w' r' k' raws :
  pc_filter P = None -> buffer_idle (p_buf s) -> p_stopped s = false ->
  (forall id, In id (map fst (p_tbl s)) -> id < p_next s) ->
  apply_op (p_world s) o = Some w' ->
  read_batch (pc_reader P) (w_fs w') (p_r s, kdrained (kernel_op (p_k s) (w_fs (p_world s)) o), [])
             (k_queue (kernel_op (p_k s) (w_fs (p_world s)) o)) = Done (r', k', raws) ->
  Forall (root_safe (pc_reader P)) raws ->
  exists nit s' obs, prun P s (tie_history P s o nit) [] = Done (s', obs) /\
    p_out s' = p_out s ++ emit_all (pc_full P) (c_recursive (pc_reader P)) (c_root (pc_reader P)) (content (w_fs w'))
                                   (group_batch (pc_reader P) raws) /\
    p_world s' = w' /\ p_k s' = k' /\ p_r s' = r' /\
    buffer_idle (p_buf s') /\ p_stopped s' = false /\
    (forall id, In id (map fst (p_tbl s')) -> id < p_next s').
Proof.
  intros HF Hidle Hstop Hfresh Happ Hrd Hsafe.
  set (k1 := kernel_op (p_k s) (w_fs (p_world s)) o) in *.
  destruct s as [w k r [d rs] tbl0 nx out stopped]. cbn [p_world p_k p_r p_buf p_tbl p_next p_out p_stopped] in *.
  subst stopped. destruct Hidle as [Hq [Hcl [Hpc [Hb [Hg [Hds Hfr]]]]]]. cbn [fst snd] in *.
  destruct rs as [b0 g0 ds0 n0 its0 nr0]. cbn [batch grouped deleted_self items next_el] in *. subst b0 g0 ds0.
  destruct (number (pc_reader P) nx raws) as [nevs tbl] eqn:Hnum.
  destruct (number_spec _ _ _ _ _ Hnum) as [Hn1 [Hn2 [Hn3 Hn4]]].
  assert (Hrel := Hn4 tbl0 Hfresh).
  assert (Hsn : Forall safe_nev nevs).
  { clear -Hrel Hsafe. induction Hrel as [|e r b raws' Hr Hf IH]; [constructor|]. inversion Hsafe; subst.
    constructor; [eapply root_safe_nev; eassumption | auto]. }
  assert (HI : QInv d its0 n0 []).
  { constructor; [rewrite Hq; constructor | rewrite Hq; intros en [] | exact Hpc | exact Hcl | exact Hfr]. }
  destruct (reader_run_spec_ds (pc_delay P) nevs d false n0 its0 (nr0 ++ nevs) Hq HI Hsn)
    as [d' [n' [its' [Hrun [HI' Hclk]]]]].
  set (K := filter kept (ggo nevs [])) in *.
  exists (length K). unfold tie_history. cbn [p_k p_world]. fold k1.
  match goal with |- context [prun P ?s0 (AOp o :: _) _] =>
    assert (Hop : pstep P s0 (AOp o) =
                  Done ({| p_world := w'; p_k := k1; p_r := r; p_buf := (d, mkrst [] [] false n0 its0 nr0);
                           p_tbl := tbl0; p_next := nx; p_out := out; p_stopped := false |}, ONone))
      by (cbn [pstep p_world]; rewrite Happ; reflexivity);
    rewrite (prun_cons P _ _ _ _ _ _ Hop) end.
  erewrite prun_cons; [|rewrite (read_step P _ w' k1 r d its0 n0 nr0 out tbl0 nx raws r' k' eq_refl Hrd);
                         rewrite Hnum, Hrun; reflexivity].
  set (d2 := {| q := q d'; closed := closed d'; cl := cl d'; clock := clock d' + pc_delay P; pc := pc d';
               puts := puts d'; got := got d'; ends := ends d'; removed := removed d' |}).
  erewrite prun_cons with (s' := {| p_world := w'; p_k := k'; p_r := r';
                                    p_buf := (d2, mkrst [] [] false n' its' (nr0 ++ nevs));
                                    p_tbl := tbl0 ++ tbl; p_next := nx + N.of_nat (length raws); p_out := out;
                                    p_stopped := false |}); [|reflexivity].
  destruct HI' as [H1 H2 H3 H4 H5].
  match goal with |- context [prun P ?s3 (repeat AEmit _) ?acc] =>
    destruct (emit_loop_strong P HF K (group_batch (pc_reader P) raws) s3 d2 (mkrst [] [] false n' its' (nr0 ++ nevs)) acc)
      as (s' & obs & d3 & Hrun' & Hout & A1 & A2 & A3 & A4 & A5 & A6 & A7 & A8 & A9 & A10) end; try reflexivity.
  - exact H3.
  - exact H4.
  - exact H1.
  - intros en Hin. cbn [d2 q clock] in *. apply H2 in Hin. lia.
  - cbn [p_tbl]. unfold K, group_batch. apply Forall2_filter; [apply kept_put|].
    apply ggo_rel; [|constructor]. exact Hrel.
  - now apply group_batch_safe.
  - exists s', obs. split; [exact Hrun'|]. cbn [p_out p_world p_k p_r p_tbl p_next] in *.
    split; [exact Hout|]. split; [exact A1|]. split; [exact A2|]. split; [exact A3|].
    split; [|split; [exact A6|]].
    + rewrite A7. unfold buffer_idle. cbn [fst snd batch grouped deleted_self items next_el mkrst]. repeat split; assumption.
    + rewrite A4, A5. intros id Hid. rewrite map_app in Hid. apply in_app_iff in Hid as [Hid|Hid].
      * apply Hfresh in Hid. lia.
      * now apply (number_bound _ _ _ _ _ Hnum).
Qed.
