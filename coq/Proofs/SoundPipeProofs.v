(* C03 on the Pipeline model, block-wise: for histories of one block per operation (AOp; ARead of the whole kernel queue;
   ATick; AEmit ...) of the class ops_x3 from pinit, the stream is the concatenation of the per-operation contracts (up to
   collapse, block by block) and [sound_along] holds.  ops_x3 = c02p's ops_x1 plus a directory of the tree renamed over an
   empty directory of the tree. *)
Require Import WD.Base.Prelude WD.Base.BStr WD.Model.SubEvents WD.Model.Emitter WD.Model.Fs WD.Model.Reader
               WD.Model.DelayQueue WD.Model.Grouping WD.Model.Pipeline WD.Model.Contract.
Require Import WD.Proofs.SubEventsProofs WD.Proofs.ReaderFixProofs WD.Proofs.ContractProofs WD.Proofs.TieProofs
               WD.Proofs.PathProofs WD.Proofs.CoverProofs WD.Proofs.CoverOutProofs WD.Proofs.ReplayProofs
               WD.Proofs.ReplayOutProofs WD.Proofs.ReplaceProofs WD.Proofs.TieStrongProofs WD.Proofs.ReplayPipeProofs
               WD.Proofs.SoundSeqProofs.

Local Arguments sep : simpl never.

(* ================================================================== 1. the operation class *)
Section Class.
  Variable C : cfg.
  Let root := c_root C.

  Inductive c03_x (w : world) : op -> Prop :=
  | c3_x o : c01_x C w o -> c03_x w o
  | c3_over p q ep v : npath p -> npath q -> c_recursive C = true -> flookup p (w_fs w) = Some ep -> f_dir ep = true ->
      scope C p -> p <> root -> scope C q -> q <> root -> flookup q (w_fs w) = Some v -> f_dir v = true ->
      c03_x w (Rename p q).           (* a directory of the tree over an empty directory of the tree *)

  Definition step_ok3 (w : world) (hot : option bytes) (o : op) : Prop :=
    match hot with
    | None => c03_x w o
    | Some _ => step_ok1 C w hot o
    end.

  Lemma step_ok1_ok3 w hot o : step_ok1 C w hot o -> step_ok3 w hot o.
  Proof. destruct hot; cbn [step_ok3 step_ok1]; [auto | apply c3_x]. Qed.

  Lemma step_ok3_ok w hot o : step_ok3 w hot o -> step_ok C w hot o.
  Proof.
    destruct hot as [h|]; cbn [step_ok3]; [apply step_ok1_ok|].
    intros [o' Ho|p q ep v Np Nq Hrec El De Sp Hpr Sq Hqr Elq Dv]; [exact (step_ok1_ok C w None o' Ho)|].
    cbn [step_ok]. apply cx_op. eapply co_rename_dir_over; eassumption.
  Qed.

  Fixpoint ops_x3 (w : world) (hot : option bytes) (ops : list op) : Prop :=
    match ops with
    | [] => True
    | o :: ops' =>
      match apply_op w o with
      | None => ops_x3 w hot ops'
      | Some w' => step_ok3 w hot o /\ ops_x3 w' (hot_next C w hot o) ops'
      end
    end.

  Lemma ops_x1_x3 ops : forall w hot, ops_x1 C w hot ops -> ops_x3 w hot ops.
  Proof.
    induction ops as [|o ops IH]; intros w hot H; cbn [ops_x1 ops_x3] in *; [exact I|].
    destruct (apply_op w o); [|auto]. destruct H as [H1 H2]. split; [now apply step_ok1_ok3 | auto].
  Qed.

  Lemma step_ok3_np w hot o : step_ok3 w hot o -> op_np o.
  Proof.
    destruct hot as [h|]; cbn [step_ok3]; [intros H; exact (proj1 (step_ok1_np C w (Some h) o H))|].
    intros [o' Ho|p q ep v Np Nq Hrec El De Sp Hpr Sq Hqr Elq Dv]; [exact (proj1 (c01x_np C w o' Ho)) | now split].
  Qed.
End Class.

Lemma ops_x3_cons C w hot o ops w' : apply_op w o = Some w' -> step_ok3 C w hot o -> ops_x3 C w' (hot_next C w hot o) ops ->
  ops_x3 C w hot (o :: ops).
Proof. intros Ha Hs Hc. cbn [ops_x3]. rewrite Ha. now split. Qed.

(* ================================================================== 2. every block delivers the contract *)
Section Blocks3.
  Variable C : cfg.
  Variable full : bool.
  Hypothesis Hfaults : c_faults C = [].
  Hypothesis Hmo : c_fix_moveout C = true.
  Hypothesis Hm : c_mask C = WATCHDOG_ALL.
  Let rec := c_recursive C.
  Let root := c_root C.

  Theorem gs_contract_step3 w k r hot o w' : GS C w k r hot -> step_ok3 C w hot o -> apply_op w o = Some w' ->
    let k1 := kernel_op k (w_fs w) o in
    exists r' k' raws, read_batch C (w_fs w') (r, drainq k1, []) (k_queue k1) = Done (r', k', raws) /\
      GS C w' k' r' (hot_next C w hot o) /\ Forall (rsafe C) raws /\
      collapse (delivered C full w' raws) = collapse (contract rec full root (w_fs w) o).
  Proof.
    intros G Hs Ea k1.
    destruct (gs_step C Hfaults Hmo w k r hot o w' Hm G (step_ok3_ok C _ _ _ Hs) Ea) as (r' & k' & raws & Hrd & G' & Hsafe).
    exists r', k', raws. split; [exact Hrd|]. split; [exact G'|]. split; [exact Hsafe|].
    destruct hot as [h|].
    - destruct (gs_contract_step C full Hfaults Hmo Hm w k r (Some h) o w' G Hs Ea) as (r2 & k2 & raws2 & Hrd2 & _ & Hcol).
      unfold k1 in Hrd. cbv zeta in Hrd2. rewrite Hrd in Hrd2. injection Hrd2 as <- <- <-. exact Hcol.
    - cbn [step_ok3] in Hs. destruct Hs as [o' Ho|p q ep v Np Nq Hrec El De Sp Hpr Sq Hqr Elq Dv].
      + destruct (gs_contract_step C full Hfaults Hmo Hm w k r None o' w' G Ho Ea) as (r2 & k2 & raws2 & Hrd2 & _ & Hcol).
        unfold k1 in Hrd. cbv zeta in Hrd2. rewrite Hrd in Hrd2. injection Hrd2 as <- <- <-. exact Hcol.
      + unfold k1 in Hrd. cbn [GS] in G. rewrite (junk_read_eq C Hmo w k r (Rename p q) (w_fs w') G) in Hrd.
        destruct (contract_rename_dir_over C full w (kset_queue k []) r p q w' ep v (js_sync _ _ _ _ G) Np Nq Hrec Hm Ea El De Sp Hpr Sq Hqr Elq Dv)
          as (evs & Hd & Hcol).
        now rewrite <- (delivered_of C full _ _ _ _ _ _ _ _ _ Ea Hrd Hd).
  Qed.
End Blocks3.

(* ================================================================== 3. sound_along over one block *)
Definition noop (a : action) : Prop := match a with AOp _ => False | _ => True end.

Section Pipe.
  Variable P : pcfg.
  Let C := pc_reader P.
  Let rec := c_recursive C.
  Let root := c_root C.

  (* only AEmit appends to p_out, and what it appends is what it reports *)
  Lemma pstep_out s a s' ob : noop a -> pstep P s a = Done (s', ob) ->
    p_out s' = p_out s ++ (match ob with OEvents l => l | _ => [] end).
  Proof.
    intros Hn H. destruct a as [o|n| |d]; [contradiction| | |]; unfold pstep in H;
      repeat match type of H with
             | context [match ?x with _ => _ end] => destruct x eqn:?
             | context [if ?x then _ else _] => destruct x eqn:?
             end; try discriminate; inversion H; subst; cbn [p_out]; rewrite ?app_nil_r; reflexivity.
  Qed.

  Lemma sa_noop h : Forall noop h -> forall s acc s' obs h2 recs, prun P s h acc = Done (s', obs) ->
    exists new, p_out s' = p_out s ++ new /\
      sound_along P s recs (h ++ h2) = forallb (justified rec root recs) new && sound_along P s' recs h2.
  Proof.
    induction h as [|a h IH]; intros Hf s acc s' obs h2 recs Hr.
    - cbn [prun] in Hr. inversion Hr; subst. exists []. split; [now rewrite app_nil_r | reflexivity].
    - inversion Hf as [|? ? Ha Hf']; subst. cbn [prun] in Hr.
      destruct (pstep P s a) as [[s1 ob]|site] eqn:Ep; [|discriminate].
      destruct (IH Hf' s1 _ s' obs h2 recs Hr) as (new1 & Ho1 & Hs1).
      assert (Ho := pstep_out s a s1 ob Ha Ep).
      exists ((match ob with OEvents l => l | _ => [] end) ++ new1). split; [now rewrite Ho1, Ho, app_assoc|].
      cbn [app sound_along]. rewrite Ep.
      assert (Hrecs : match a with
                      | AOp o => match apply_op (p_world s) o with Some _ => recs ++ [oprec_of (w_fs (p_world s)) o] | None => recs end
                      | _ => recs end = recs) by (destruct a; [contradiction | | |]; reflexivity).
      rewrite Hrecs, Hs1, forallb_app. fold C rec root. destruct ob; cbn [forallb andb]; try reflexivity.
      now rewrite andb_assoc.
  Qed.

  Lemma repeat_noop n : Forall noop (repeat AEmit n).
  Proof. induction n; cbn [repeat]; constructor; [exact I | assumption]. Qed.

  Lemma sa_block s o nit w' s1 obs1 h2 recs : apply_op (p_world s) o = Some w' ->
    prun P s (tie_history P s o nit) [] = Done (s1, obs1) ->
    exists new, p_out s1 = p_out s ++ new /\
      sound_along P s recs (tie_history P s o nit ++ h2) =
      forallb (justified rec root (recs ++ [oprec_of (w_fs (p_world s)) o])) new &&
      sound_along P s1 (recs ++ [oprec_of (w_fs (p_world s)) o]) h2.
  Proof.
    intros Ha Hr. unfold tie_history in *.
    set (rest := ARead (length (k_queue (kernel_op (p_k s) (w_fs (p_world s)) o))) :: ATick (pc_delay P) :: repeat AEmit nit) in *.
    assert (Hop : pstep P s (AOp o) =
                  Done ({| p_world := w'; p_k := kernel_op (p_k s) (w_fs (p_world s)) o; p_r := p_r s; p_buf := p_buf s;
                           p_tbl := p_tbl s; p_next := p_next s; p_out := p_out s; p_stopped := p_stopped s |}, ONone))
      by (cbn [pstep]; rewrite Ha; reflexivity).
    rewrite (prun_cons P _ _ _ _ _ _ Hop) in Hr.
    assert (Hnoop : Forall noop rest) by (unfold rest; repeat constructor; apply repeat_noop).
    destruct (sa_noop rest Hnoop _ _ s1 obs1 h2 (recs ++ [oprec_of (w_fs (p_world s)) o]) Hr) as (new & Ho & Hs).
    exists new. split; [exact Ho|].
    change ((AOp o :: rest) ++ h2) with (AOp o :: (rest ++ h2)). cbn [sound_along]. rewrite Hop, Ha. cbn [andb]. exact Hs.
  Qed.
End Pipe.

(* ================================================================== 4. block histories *)
(* the per-operation contracts of a history (operations whose system call fails contribute nothing) *)
Fixpoint contracts_of (C : cfg) (full : bool) (w : world) (ops : list op) : list (list nevent) :=
  match ops with
  | [] => []
  | o :: ops' =>
    match apply_op w o with
    | None => contracts_of C full w ops'
    | Some w' => contract (c_recursive C) full (c_root C) (w_fs w) o :: contracts_of C full w' ops'
    end
  end.

Theorem blocks_sound P : let C := pc_reader P in
  c_faults C = [] -> c_fix_moveout C = true -> c_mask C = WATCHDOG_ALL -> pc_filter P = None ->
  forall ops s hot recs, PSx P s hot -> ops_x3 C (p_world s) hot ops ->
  exists h s' obs hot' chunks, block_hist_x P s ops h /\ prun P s h [] = Done (s', obs) /\ PSx P s' hot' /\
    sound_along P s recs h = true /\
    p_out s' = p_out s ++ concat chunks /\
    Forall2 (fun ch ct => collapse ch = collapse ct) chunks (contracts_of C (pc_full P) (p_world s) ops).
Proof.
  intros C Hf Hmo Hm HF. induction ops as [|o ops IH]; intros s hot recs S Hc; cbn [ops_x3 contracts_of] in *.
  - exists [], s, [], hot, []. split; [constructor|]. split; [reflexivity|]. split; [exact S|].
    split; [reflexivity|]. split; [now rewrite app_nil_r | constructor].
  - destruct (apply_op (p_world s) o) as [w'|] eqn:Ea.
    + destruct Hc as [Hs Hc].
      destruct (block_x P s hot o w' Hf Hmo Hm HF S (step_ok3_ok C _ _ _ Hs) Ea)
        as (nit & s1 & obs1 & raws & Hrun & S1 & E1 & Hout & Hrd).
      destruct (gs_contract_step3 C (pc_full P) Hf Hmo Hm (p_world s) (p_k s) (p_r s) hot o w' (px_sync _ _ _ S) Hs Ea)
        as (r' & k' & raws' & Hrd' & _ & _ & Hcol).
      fold C in Hrd. cbv zeta in Hrd'. rewrite Hrd in Hrd'. injection Hrd' as _ _ <-.
      rewrite <- E1 in Hc.
      destruct (IH s1 _ (recs ++ [oprec_of (w_fs (p_world s)) o]) S1 Hc) as (h & s' & obs & hot' & chunks & Hh & Hr & S' & Hsa & Ho' & Hch).
      exists (tie_history P s o nit ++ h), s', (obs1 ++ obs), hot', (delivered C (pc_full P) w' raws :: chunks).
      split; [eapply bx_step; eassumption|]. split; [rewrite prun_app, Hrun, prun_acc, Hr; reflexivity|]. split; [exact S'|].
      split; [|split].
      * destruct (sa_block P s o nit w' s1 obs1 h recs Ea Hrun) as (new & Hn & Hsb).
        rewrite Hsb, Hsa, andb_true_r.
        assert (new = delivered C (pc_full P) w' raws) by (rewrite Hout in Hn; now apply app_inv_head in Hn). subst new.
        apply forallb_forall. intros e He. apply justified_mono.
        revert e He. apply (collapse_forall _ _ _ Hcol). intros e He.
        apply (contract_justified (c_recursive C) (pc_full P) (c_root C) (w_fs (p_world s)) o); [|exact He].
        exact (step_ok3_np C _ _ _ Hs).
      * cbn [concat]. now rewrite Ho', Hout, app_assoc.
      * rewrite E1 in Hch. constructor; [exact Hcol | exact Hch].
    + destruct (IH s hot recs S Hc) as (h & s' & obs & hot' & chunks & Hh & Hr & S' & Hsa & Ho' & Hch).
      exists (AOp o :: h), s', (OSkip :: obs), hot', chunks. split; [now apply bx_skip|].
      split; [cbn [prun pstep]; rewrite Ea; rewrite prun_acc, Hr; reflexivity|]. split; [exact S'|].
      split; [|split; assumption].
      cbn [sound_along pstep]. rewrite Ea. exact Hsa.
Qed.

(* from pinit *)
Theorem sound_pipeline_from_start P ops w s0 : let C := pc_reader P in
  c_faults C = [] -> c_fix_moveout C = true -> c_mask C = WATCHDOG_ALL -> pc_filter P = None -> wf_fs w ->
  fisdir (c_root C) (w_fs w) = true -> pinit P w = Some s0 -> ops_x3 C w None ops ->
  exists h s' obs chunks, block_hist_x P s0 ops h /\ prun P s0 h [] = Done (s', obs) /\
    sound_along P s0 [] h = true /\
    p_out s' = concat chunks /\
    Forall2 (fun ch ct => collapse ch = collapse ct) chunks (contracts_of C (pc_full P) w ops).
Proof.
  intros C Hf Hmo Hm HF W Hroot Hi Hc. destruct (pinit_psx P w s0 Hf Hmo W Hroot Hi) as (S0 & Ew & Eo).
  rewrite <- Ew in Hc.
  destruct (blocks_sound P Hf Hmo Hm HF ops s0 None [] S0 Hc) as (h & s' & obs & hot' & chunks & Hh & Hr & _ & Hsa & Ho & Hch).
  exists h, s', obs, chunks. split; [exact Hh|]. split; [exact Hr|]. split; [exact Hsa|].
  split; [now rewrite Ho, Eo | now rewrite <- Ew].
Qed.

(* ================================================================== an instance *)
(* mkdir R/a; touch R/a/f; mkdir R/b; mv R/a R/b (over the empty directory b: moved + synthetic moved + DirModified(b));
   mv R/b O/x (the directory leaves the tree); mkdir R/b (the name is re-created while the candidate is pending);
   touch O/x/g (inside the directory that left) *)
Definition seq3_ops : list op :=
  [Mkdir (sub pR 97); Touch (sub (sub pR 97) 102); Mkdir (sub pR 98); Rename (sub pR 97) (sub pR 98);
   Rename (sub pR 98) (sub pO 120); Mkdir (sub pR 98); Touch (sub (sub pO 120) 103)].

Lemma seq3_ops_x3 : ops_x3 (cfgo true) w0 None seq3_ops.
Proof.
  assert (GR : gpath pR) by (split; [discriminate | reflexivity]).
  assert (GO : gpath pO) by (split; [discriminate | reflexivity]).
  assert (Na : forall n, valid_name [n] = true -> npath (sub pR n)) by (intros; now apply npath_sub).
  assert (No : forall n, valid_name [n] = true -> npath (sub pO n)) by (intros; now apply npath_sub).
  assert (NS : forall p, ~ scope (cfgo true) (sub pO p)) by (intros p [H|H]; vm_compute in H; discriminate).
  unfold seq3_ops.
  eapply ops_x3_cons; [vm_compute; reflexivity | apply c3_x, c1_op; left; split; [apply co_mkdir; now apply Na | exact I] |].
  vm_compute hot_next.
  eapply ops_x3_cons; [vm_compute; reflexivity | |].
  { apply c3_x, c1_op. left. split; [|exact I]. apply co_quiet; [exact I|]. cbn [op_np].
    apply npath_sub; [apply npath_gpath; now apply Na | reflexivity]. }
  vm_compute hot_next.
  eapply ops_x3_cons; [vm_compute; reflexivity | apply c3_x, c1_op; left; split; [apply co_mkdir; now apply Na | exact I] |].
  vm_compute hot_next.
  eapply ops_x3_cons; [vm_compute; reflexivity | |].
  { eapply c3_over; try (now apply Na); try reflexivity; try (vm_compute; reflexivity);
      try (right; vm_compute; reflexivity); try (vm_compute; discriminate). }
  vm_compute hot_next.
  eapply ops_x3_cons; [vm_compute; reflexivity | |].
  { apply c3_x. eapply c1_out; try (now apply Na); try (now apply No); try reflexivity; try (vm_compute; reflexivity);
      try (right; vm_compute; reflexivity); try (vm_compute; discriminate). apply NS. }
  vm_compute hot_next.
  eapply ops_x3_cons; [vm_compute; reflexivity | |].
  { split; [left; split; [apply co_mkdir; now apply Na | exact I]|]. split.
    - exists pR. split; [now left|]. split; [now left | reflexivity].
    - intros d [<-|[]]. vm_compute. reflexivity. }
  vm_compute hot_next.
  eapply ops_x3_cons; [vm_compute; reflexivity | |].
  { apply c3_x, c1_op. left. split; [|exact I]. apply co_quiet; [exact I|]. cbn [op_np].
    apply npath_sub; [apply npath_gpath; now apply No | reflexivity]. }
  exact I.
Qed.

(* by computation, with a fixed block shape (AOp; ARead 100; ATick 10; AEmit x4): the stream and the per-operation contracts *)
Lemma seq3_run :
  exists s0 s obs, pinit phx_P w0 = Some s0 /\ prun phx_P s0 (block_history seq3_ops) [] = Done (s, obs) /\
    sound_along phx_P s0 [] (block_history seq3_ops) = true /\
    collapse (p_out s) = collapse (concat (contracts_of (cfgo true) false w0 seq3_ops)) /\
    length (p_out s) = 18%nat /\ In (mk DirModified (sub pR 98) []) (p_out s).
Proof.
  eexists; eexists; eexists. split; [vm_compute; reflexivity|]. split; [vm_compute; reflexivity|].
  split; [vm_compute; reflexivity|]. split; [vm_compute; reflexivity|]. split; [vm_compute; reflexivity|].
  vm_compute. do 13 right. left. reflexivity.
Qed.

Theorem sound_pipeline_sequential P ops w s0 : let C := pc_reader P in
  c_faults C = [] -> c_fix_moveout C = true -> c_mask C = WATCHDOG_ALL -> pc_filter P = None -> wf_fs w ->
  fisdir (c_root C) (w_fs w) = true -> pinit P w = Some s0 -> ops_x3 C w None ops ->
  exists h s' obs, block_hist_x P s0 ops h /\ prun P s0 h [] = Done (s', obs) /\ sound_along P s0 [] h = true.
Proof.
  intros C Hf Hmo Hm HF W Hr Hi Hc.
  destruct (sound_pipeline_from_start P ops w s0 Hf Hmo Hm HF W Hr Hi Hc) as (h & s' & obs & chunks & H1 & H2 & H3 & _).
  exists h, s', obs. auto.
Qed.
