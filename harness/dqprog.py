"""Client programs for the delay queue (C17) and the inotify buffer (C08) under the deterministic scheduler:
program generator, runner on the REAL code, adapter trace -> model labels, and helpers."""
from __future__ import annotations

UNIT = 0.125          # seconds per model time unit (dyadic: exact in binary floating point)
DELAY_UNITS = 4       # 0.5 s = InotifyBuffer.delay


def units(sched):
    return int(round((sched.clock - 1000.0) / UNIT))


class Elem:
    """A queue element with an identity; two Elems are never == unless identical."""

    def __init__(self, i):
        self.i = i

    def __repr__(self):
        return f"E{self.i}"


# ------------------------------------------------------------------ C17: DelayedQueue
def gen_dq_program(rng, max_puts=4):
    """producer: puts (delayed or not) with gaps around the delay; other: removes / close with gaps."""
    n = rng.randint(1, max_puts)
    gaps = [0, 0, 1, DELAY_UNITS - 1, DELAY_UNITS, DELAY_UNITS + 1]
    prod, ids = [], []
    for i in range(1, n + 1):
        if rng.random() < 0.6:
            prod.append(["sleep", rng.choice(gaps)])
        prod.append(["put", i, rng.random() < 0.6])
        ids.append(i)
    other = []
    for _ in range(rng.randint(0, 3)):
        other.append(["sleep", rng.choice(gaps)])
        if rng.random() < 0.75:
            k = rng.randint(1, min(2, n))
            other.append(["remove", sorted(rng.sample(ids, k))])
        else:
            other.append(["close"])
    close_at_end = rng.random() < 0.5
    return {"prod": prod, "other": other, "final_sleep": 3 * DELAY_UNITS, "close_at_end": close_at_end}


def run_dq_program(prog, chooser, max_steps=4000, release_yield=True):
    from harness import detsched as ds
    ds.install()
    from watchdog.utils.delayed_queue import DelayedQueue

    s = ds.Scheduler(chooser, max_steps=max_steps, drain_steps=200)
    q = DelayedQueue(DELAY_UNITS * UNIT)
    elems = {}

    def elem(i):
        if i not in elems:
            elems[i] = Elem(i)
        return elems[i]

    def do(ops):
        for op in ops:
            if op[0] == "sleep":
                if op[1] > 0:
                    ds._sleep(op[1] * UNIT)
                continue
            s.yield_point("op")
            if op[0] == "put":
                q.put(elem(op[1]), delay=op[2])
                s.log("put", op[1], op[2], units(s))
            elif op[0] == "remove":
                ids = set(op[1])
                r = q.remove(lambda e: e.i in ids)
                s.log("removed", r.i if r is not None else None, units(s))
            elif op[0] == "close":
                q.close()
                s.log("closed", units(s))

    def prod():
        do(prog["prod"])

    def other():
        do(prog["other"])
        ds._sleep(prog["final_sleep"] * UNIT)
        if prog.get("close_at_end"):
            do([["close"]])
            ds._sleep(UNIT)

    def cons():
        while True:
            s.yield_point("op")
            s.log("get_called", units(s))
            x = q.get()
            s.log("got", x.i if x is not None else None, units(s))
            if x is None:
                break

    s.spawn("prod", prod)
    s.spawn("other", other)
    s.spawn("cons", cons, role="lib")
    # also schedule right after every lock release: what a call does between leaving its critical section and returning
    # (close() publishing its flag after the wake-up, say) can be overtaken by the other threads
    saved_yar = ds.YIELD_AFTER_RELEASE
    ds.YIELD_AFTER_RELEASE = release_yield
    try:
        s.run()
    finally:
        ds.YIELD_AFTER_RELEASE = saved_yar
    # what is left in the queue, through the public API
    # (after the run no scheduler is active: the twin lock is taken immediately by this thread)
    left = []
    while True:
        r = q.remove(lambda e: True)
        if r is None:
            break
        left.append(r.i)
    return s, left


def next_park(trace, i):
    """Label at which the thread of trace[i] parks next ('@ret' if it logs a got first, None if it never runs again)."""
    t = trace[i][0]
    for j in range(i + 1, len(trace)):
        if trace[j][0] != t:
            continue
        if trace[j][1] == "@log":
            if trace[j][2] == "got":
                return "@ret"
            continue
        return trace[j][1]
    return None


def consumer_labels(trace, i, phase):
    """Model labels performed by the consumer thread in the step trace[i]; returns (labels, new phase)."""
    lab = trace[i][1]
    nxt = next_park(trace, i)
    if lab in ("op", "Condition.wait", "start"):
        return [], phase
    if lab.startswith("sleep"):
        if phase == "DELAY" and nxt is not None and not nxt.startswith("sleep"):
            return ["delay"], "POP"
        return [], phase
    if (lab == "Lock.acquire" and phase == "ENTER") or lab == "Condition.reacquire":
        if nxt is None:
            return ["enter"], "UNKNOWN"
        if nxt == "Condition.wait" or nxt == "@ret":
            return ["enter"], "ENTER"
        if nxt.startswith("sleep"):
            return ["enter"], "DELAY"
        if nxt == "Lock.acquire":
            return ["enter", "delay"], "POP"
        return ["enter"], "ENTER"
    if lab == "Lock.acquire" and phase == "POP":
        return ["pop"], "ENTER"
    return [], phase


RELEASED = "Lock.released"      # park label of detsched's opt-in scheduling point after a lock release


def section_events(s):
    """s.events with the time field of the entries that are written AFTER a call returned (put / removed / got / closed:
    the time is their last field) replaced by the virtual time of the call's last critical section.  With the scheduling
    point after the lock release the entry is written one step of the same thread later than the section, and the clock
    may have ticked in between; the order of the entries is unchanged (it is the order in which the calls returned)."""
    steps: dict[str, list] = {}
    clock = 0
    out = []
    for ent in s.timeline:
        t, lab = ent[0], ent[1]
        if t == "<clock>":
            clock = int(round(float(lab.split()[-1]) / UNIT))
            continue
        if lab != "@log":
            steps.setdefault(t, []).append((lab, clock))
            continue
        ev = (t,) + tuple(ent[2:])
        if ev[1] in ("put", "removed", "got", "closed"):
            st = steps.get(t, [])
            k = len(st) - 1
            if k >= 1 and st[k][0] == RELEASED:
                k -= 1
            if k >= 0:
                ev = ev[:-1] + (st[k][1],)
        out.append(ev)
    return out


def consumer_labels_ry(trace, i, phase):
    """consumer_labels for runs with the scheduling point after every lock release: the consumer parks once more
    (RELEASED) after the enter section and after the pop section; whether the delay wait is needed is decided in the
    step that follows the release, with the clock of that step."""
    lab = trace[i][1]
    nxt = next_park(trace, i)
    if lab in ("op", "Condition.wait", "start"):
        return [], phase
    if (lab == "Lock.acquire" and phase == "ENTER") or lab == "Condition.reacquire":
        if nxt is None:
            return ["enter"], "UNKNOWN"
        if nxt == RELEASED:
            return ["enter"], "AFTER_ENTER"
        return ["enter"], "ENTER"                  # Condition.wait: blocked again
    if lab == RELEASED and phase == "AFTER_ENTER":
        if nxt is None:
            return [], "UNKNOWN"
        if nxt == "@ret":
            return [], "ENTER"                     # closed: get() returned the end marker
        if nxt.startswith("sleep"):
            return [], "DELAY"
        if nxt == "Lock.acquire":
            return ["delay"], "POP"                # not delayed, or the delay is already over
        return [], "ENTER"
    if lab.startswith("sleep"):
        if phase == "DELAY" and nxt is not None and not nxt.startswith("sleep"):
            return ["delay"], "POP"
        return [], phase
    if lab == "Lock.acquire" and phase == "POP":
        return ["pop"], "AFTER_POP"
    if lab == RELEASED and phase == "AFTER_POP":
        return [], "ENTER"
    return [], phase


def dq_labels(prog, s):
    """The model label sequence of a finished run (C17 programs)."""
    from harness.core import Atom
    trace = s.timeline
    ops = {"prod": [o for o in prog["prod"] if o[0] != "sleep"],
           "other": [o for o in prog["other"] if o[0] != "sleep"] + ([["close"]] if prog.get("close_at_end") else [])}
    cur = {"prod": 0, "other": 0}
    labels = []
    phase = "ENTER"
    clock = 0
    ry = any(e[1] == RELEASED for e in trace)
    for i, ent in enumerate(trace):
        t, lab = ent[0], ent[1]
        if lab == "@log":
            continue
        if t == "<clock>":
            new = int(round(float(lab.split()[-1]) / UNIT))
            if new > clock:
                labels.append([Atom("tick"), new - clock])
                clock = new
            continue
        if t in ("prod", "other"):
            k = cur[t]
            if lab == "op":
                if k < len(ops[t]) and ops[t][k][0] == "close":
                    labels.append(Atom("close1"))
            elif lab == "Lock.acquire":
                if k >= len(ops[t]):
                    return None        # more critical sections than calls: the code's locking structure is not the model's
                op = ops[t][k]
                cur[t] = k + 1
                if op[0] == "put":
                    labels.append([Atom("put"), op[1], op[2]])
                elif op[0] == "remove":
                    labels.append([Atom("remove"), list(op[1])])
                else:
                    labels.append(Atom("close2"))
            continue
        if t == "cons":
            ls, phase = (consumer_labels_ry if ry else consumer_labels)(trace, i, phase)
            labels += [Atom(x) for x in ls]
    return labels


# ------------------------------------------------------------------ C08: InotifyBuffer over a scripted Inotify
ROOT = b"/watched"
IN_MOVED_FROM, IN_MOVED_TO, IN_CREATE, IN_IGNORED, IN_DELETE_SELF, IN_ISDIR = 0x40, 0x80, 0x100, 0x8000, 0x400, 0x40000000


def gen_buf_program(rng, max_events=6):
    """A native event sequence over {from(c), to(c), other, ignored, delete_self}, cut into batches, with gaps."""
    n = rng.randint(1, max_events)
    evs, cookie, open_from = [], 0, []
    for _ in range(n):
        r = rng.random()
        if r < 0.3:
            cookie += 1
            evs.append(["from", cookie])
            open_from.append(cookie)
        elif r < 0.6 and open_from:
            c = open_from.pop(rng.randrange(len(open_from)))
            evs.append(["to", c])
        elif r < 0.68:
            cookie += 1
            evs.append(["to", cookie])          # move in from outside: no partner
        elif r < 0.74:
            evs.append(["ign", 0])
        elif r < 0.78:
            evs.append(["ign", 1] if rng.random() < 0.5 else ["dself", 1])
        elif r < 0.82:
            evs.append(["dself", 0])
        else:
            evs.append(["other"])
    # cut into batches
    batches, cur = [], []
    for e in evs:
        cur.append(e)
        if rng.random() < 0.45:
            batches.append(cur)
            cur = []
    if cur:
        batches.append(cur)
    gaps = [0, 0, 1, DELAY_UNITS - 1, DELAY_UNITS, DELAY_UNITS + 1]
    feeder = []
    for b in batches:
        feeder.append(["sleep", rng.choice(gaps)])
        feeder.append(["feed", b])
    return {"feeder": feeder, "final_sleep": 3 * DELAY_UNITS, "close_at_end": rng.random() < 0.4}


def number_events(prog):
    """Assign kernel positions 1.. to the events of the program; returns list of batches [[(id, kind)...]...]."""
    k = 0
    out = []
    for op in prog["feeder"]:
        if op[0] == "feed":
            b = []
            for e in op[1]:
                k += 1
                b.append((k, e))
            out.append(b)
    return out


_patched = False


def _patch_buffer_module():
    """Scripted Inotify in the inotify_buffer namespace + logging wrappers on DelayedQueue.put/remove."""
    global _patched
    from harness import detsched as ds
    from watchdog.observers import inotify_buffer
    from watchdog.utils import delayed_queue
    if _patched:
        return
    _patched = True

    class ScriptedInotify:
        def __init__(self, path, *, recursive=False, event_mask=None, follow_symlink=False):
            self._path = path
            self.batches = []
            self.closed = False
            self.handed = 0

        @property
        def path(self):
            return self._path

        def read_events(self):
            s = ds.CUR
            s.yield_point("read_events", lambda: bool(self.batches) or self.closed)
            if self.batches:
                self.handed += 1
                b = self.batches.pop(0)
                s.log("read", [e._vid for e in b], units(s))
                return b
            return []

        def close(self):
            self.closed = True

    inotify_buffer.Inotify = ScriptedInotify
    DQ = delayed_queue.DelayedQueue
    oput, orem = DQ.put, DQ.remove

    def desc(x):
        if isinstance(x, tuple):
            return ["p", x[0]._vid, x[1]._vid]
        return ["s", x._vid] if hasattr(x, "_vid") else repr(x)

    def put(self, element, *, delay=False):
        r = oput(self, element, delay=delay)
        s = ds.CUR
        if s is not None and hasattr(element, "_vid") or isinstance(element, tuple):
            s.log("q.put", desc(element), bool(delay), units(s))
        return r

    def remove(self, predicate):
        r = orem(self, predicate)
        s = ds.CUR
        if s is not None and s.me() is not None:
            s.log("q.remove", desc(r) if r is not None else None, units(s))
        return r

    DQ.put = put
    DQ.remove = remove
    DQ._verif_desc = staticmethod(desc)


def make_event(vid, kind):
    from watchdog.observers.inotify_c import InotifyEvent
    k = kind[0]
    if k == "from":
        e = InotifyEvent(1, IN_MOVED_FROM, kind[1], b"n%d" % vid, ROOT + b"/n%d" % vid)
    elif k == "to":
        e = InotifyEvent(1, IN_MOVED_TO, kind[1], b"n%d" % vid, ROOT + b"/n%d" % vid)
    elif k == "other":
        e = InotifyEvent(1, IN_CREATE, 0, b"n%d" % vid, ROOT + b"/n%d" % vid)
    elif k == "ign":
        e = InotifyEvent(1 if kind[1] else 2, IN_IGNORED, 0, b"", ROOT if kind[1] else ROOT + b"/sub")
    elif k == "dself":
        e = InotifyEvent(1 if kind[1] else 2, IN_DELETE_SELF, 0, b"", ROOT if kind[1] else ROOT + b"/sub")
    else:
        raise ValueError(kind)
    e._vid = vid
    return e


def run_buf_program(prog, chooser, max_steps=6000):
    from harness import detsched as ds
    ds.install()
    _patch_buffer_module()
    from watchdog.observers.inotify_buffer import InotifyBuffer

    s = ds.Scheduler(chooser, max_steps=max_steps, drain_steps=300)
    batches = number_events(prog)
    box = {}

    def feeder():
        buf = InotifyBuffer(ROOT)          # starts the reader thread
        box["buf"] = buf
        s.spawn("cons", cons, role="lib")
        bi = 0
        for op in prog["feeder"]:
            if op[0] == "sleep":
                if op[1] > 0:
                    ds._sleep(op[1] * UNIT)
            else:
                s.yield_point("op")
                buf._inotify.batches.append([make_event(v, k) for v, k in batches[bi]])
                bi += 1
        ds._sleep(prog["final_sleep"] * UNIT)
        if prog.get("close_at_end"):
            buf.close()
            s.log("closed", units(s))
            ds._sleep(UNIT)

    def cons():
        buf = box["buf"]
        from watchdog.utils.delayed_queue import DelayedQueue
        while True:
            s.yield_point("op")
            x = buf.read_event()
            s.log("got", DelayedQueue._verif_desc(x) if x is not None else None, units(s))
            if x is None:
                break

    s.spawn("feeder", feeder)
    s.run()
    return s


def buf_sched(prog, s):
    """Model schedule (see ocaml/m_grouping.ml) of a finished run."""
    from harness.core import Atom
    trace = s.timeline
    out = []
    phase = "ENTER"
    clock = 0
    for i, ent in enumerate(trace):
        t, lab = ent[0], ent[1]
        if lab == "@log":
            continue
        if t == "<clock>":
            new = int(round(float(lab.split()[-1]) / UNIT))
            if new > clock:
                out.append([Atom("q"), [Atom("tick"), new - clock]])
                clock = new
            continue
        if t == "InotifyBuffer":
            if lab == "Lock.acquire":
                out.append(Atom("r"))
            continue
        if t == "feeder":
            # buf.close(): stop() = Event.set (then on_thread_stop: inotify.close(); queue.close(): _closed = True) ...
            if lab == "Event.set":
                out.append([Atom("q"), Atom("close1")])
            elif lab == "Lock.acquire":
                out.append([Atom("q"), Atom("close2")])
            continue
        if t == "cons":
            ls, phase = consumer_labels(trace, i, phase)
            out += [[Atom("q"), Atom(x)] for x in ls]
    out.append(Atom("rend"))
    return out


def buf_case(prog, s):
    from harness.core import Atom, sx
    batches = []
    for b in number_events(prog):
        batches.append([[v, (Atom("other") if k[0] == "other" else [Atom(k[0]), k[1]])] for v, k in b])
    return sx([DELAY_UNITS, batches, buf_sched(prog, s)])
