(* C17 - Delay queue: FIFO, never early, loses or duplicates nothing; close() unblocks.
   Statements only; each proof is `exact <lemma>`.  [reachable delay s] quantifies over every
   finite label list, i.e. every interleaving of any number of put/remove/close calls with
   the consumer's steps and every pattern of clock ticks. *)
Require Import WD.Base.Prelude WD.Model.DelayQueue WD.Proofs.DelayQueueProofs.
From Coq Require Import Permutation.
Local Open Scope N_scope.

(* Elements leave through get() in the order they were put in. *)
Theorem C17_fifo : forall delay s, reachable delay s ->
  sublist (map fst (got s)) (map e_id (puts s)).
Proof. exact fifo. Qed.
Print Assumptions C17_fifo.

(* A delayed element is never returned before its delay has elapsed since insertion
   (element identities unique: the same object is not put twice). *)
Theorem C17_never_early : forall delay s, reachable delay s ->
  NoDup (map e_id (puts s)) ->
  forall id t, In (id, t) (got s) ->
  forall e, In e (puts s) -> e_id e = id -> e_delayed e = true -> e_tins e + delay <= t.
Proof. exact reachable_early. Qed.
Print Assumptions C17_never_early.

(* An element put without delay passes the delay wait at once when it is at the head. *)
Theorem C17_nodelay_immediate : forall delay s h, pc s = CHead h -> e_delayed h = false ->
  exists s', step delay s GetDelay = Some s' /\ pc s' = CPop h.
Proof. exact nodelay_immediate. Qed.
Print Assumptions C17_nodelay_immediate.

(* Nothing is lost and nothing is duplicated: at every moment the elements ever put are exactly
   those returned by get(), those returned by remove() and those still queued ... *)
Theorem C17_partition : forall delay s, reachable delay s ->
  Permutation (map e_id (puts s)) (map fst (got s) ++ removed s ++ map e_id (q s)).
Proof. exact partition. Qed.
Print Assumptions C17_partition.

(* ... each in exactly one of the three (at most once by get, at most once by remove, never both). *)
Theorem C17_at_most_once : forall delay s, reachable delay s -> NoDup (map e_id (puts s)) ->
  NoDup (map fst (got s) ++ removed s ++ map e_id (q s)).
Proof. exact at_most_once. Qed.
Print Assumptions C17_at_most_once.

(* An element taken by remove() - also while the consumer is already waiting on it - is never
   returned by get(). *)
Theorem C17_removed_not_returned : forall delay s, reachable delay s -> NoDup (map e_id (puts s)) ->
  forall id, In id (removed s) -> ~ In id (map fst (got s)) /\ ~ In id (map e_id (q s)).
Proof. exact removed_not_returned. Qed.
Print Assumptions C17_removed_not_returned.

(* After close() has completed, the consumer is not blocked, and a get() that starts (or resumes
   after having been woken) returns the end marker at once without handing out an element. *)
Theorem C17_close_unblocks : forall delay s, reachable delay s -> cl s = Closed ->
  pc s <> CWait /\
  (pc s = CIdle \/ pc s = CWoken ->
   exists s', step delay s GetEnter = Some s' /\ ends s' = S (ends s) /\ pc s' = CIdle /\ got s' = got s).
Proof. exact close_unblocks. Qed.
Print Assumptions C17_close_unblocks.

(* The consumer only ever blocks on an empty queue whose close() has not completed: no lost wake-up. *)
Theorem C17_blocks_only_when_empty_and_open : forall delay s, reachable delay s -> pc s = CWait ->
  q s = [] /\ cl s <> Closed.
Proof. exact wait_only_when_empty_open. Qed.
Print Assumptions C17_blocks_only_when_empty_and_open.

(* Non-vacuity: a run with a delayed element, a remover that takes it while the consumer waits on
   it, a later element, and close(). *)
Example C17_nonvacuous :
  exists s, run 5 init [Put 1 true; GetEnter; Tick 2; Remove [1]; Put 2 false; Tick 3; GetDelay; GetPop;
                        GetEnter; GetDelay; GetPop; GetEnter; Close1; Close2; GetEnter] = Some s /\
    got s = [(2, 5)] /\ removed s = [1] /\ ends s = 1%nat /\ cl s = Closed /\ NoDup (map e_id (puts s)).
Proof. eexists. split; [vm_compute; reflexivity|]. repeat split. repeat constructor; simpl; intuition discriminate. Qed.
