(* C11 - An event filter only removes events; it never alters the rest of the stream.
   Only statements; every proof is `exact <lemma>`.

   What is proved here (all over the executable models Emitter.v / MaskTable.v, the latter tied to
   the source by the regenerated table Gen/MaskTableGen.v):
     C11_mask_is_source      the model of get_event_mask_from_filter = the table in the source
     C11_table               TABLE LEMMA: every native flag that matters for a filter is in its mask
     C11_mask_app            mask (F1 ++ F2) = mask F1 | mask F2
     C11_emit_commutes       filtered emitter = class filter applied to the unfiltered emitter's output
     C11_emit_transparent    a raw event the filtered watch is not sent yields nothing the filter accepts
     C11_emit_transparent_pair   same for a paired move when either half is outside the mask
     C11_stop_preserved      the raw event that stops the emitter is always sent
     C11_emit_stream         the two lemmas lifted to streams of single raw events
     C11_mask_move_whole     the mask never contains one half of IN_MOVE without the other
     C11_item_stream         ... and to streams of items (singles and paired moves) as handed over under the mask
     C11_table_refuted_pinned    the table of the pinned tree (finding F6)
   What is NOT proved: C11_full, the statement over whole operation histories.  It needs the kernel,
   reader (watch bookkeeping, pairing through the delay queue) and skip-repeats-queue models that are
   being built separately (Kernel.v, Reader.v, Grouping.v, Pipeline.v); the pipeline lemma "deleting
   raw events whose flag is outside needed_for changes neither the watch-state trajectory nor the
   accepted output" is what remains, C11_table + C11_emit_stream being its emitter/table half. *)
Require Import WD.Base.Prelude WD.Base.BStr WD.Model.SubEvents WD.Model.Emitter WD.Model.MaskTable.
Require Import WD.Gen.MaskTableGen WD.Proofs.MaskTableProofs WD.Proofs.C11Proofs.

(* The full property.  [events F full recursive h] = the events delivered to the handler of a watch
   with event filter F (None = no filter) over the operation history h; [paced] = the pacing condition
   of C01.  To be instantiated with Pipeline.events when that model exists. *)
Definition C11_full (history : Type) (paced : history -> Prop)
    (events : option (list evbase) -> bool -> bool -> history -> list nevent) : Prop :=
  forall (F : option (list evbase)) (full_events recursive : bool) (h : history), paced h ->
    stutter_eq (events F full_events recursive h)
               (filter (fun e => accepts F (ev_cls e)) (events None full_events recursive h)).

(* The hand-written model of get_event_mask_from_filter is the table found in the source. *)
Theorem C11_mask_is_source : forall recursive F,
  mask_of_filter recursive F = Gen.mask_of_filter_gen recursive F.
Proof. exact mask_of_filter_eq_gen. Qed.
Print Assumptions C11_mask_is_source.

(* TABLE LEMMA.  Bound of the underlying sweep: 2 recursive settings x (empty filter + 13 classes:
   11 concrete, 2 bases) x 16 flags, against the generated table; arbitrary filter lists by the
   fold/lor lemma. *)
Theorem C11_table : forall (F : option (list evbase)) (recursive : bool) (b : N),
  In b (needed_for F recursive) -> flag_set b (mask_of_filter recursive F) = true.
Proof. exact table_lemma. Qed.
Print Assumptions C11_table.

Theorem C11_table_source : forall (F : option (list evbase)) (recursive : bool) (b : N),
  In b (needed_for F recursive) -> flag_set b (Gen.mask_of_filter_gen recursive F) = true.
Proof. exact table_lemma_gen. Qed.
Print Assumptions C11_table_source.

Theorem C11_mask_app : forall recursive l1 l2,
  mask_of_filter recursive (Some (l1 ++ l2))
  = Some (N.lor (effective_mask (mask_of_filter recursive (Some l1)))
                (effective_mask (mask_of_filter false (Some l2)))).
Proof. exact mask_of_filter_app. Qed.
Print Assumptions C11_mask_app.

(* Filtering commutes with emission: what an emitter constructed with filter F puts on the event queue
   for an item = the accepted part of what the unfiltered emitter puts there; the stop request is the same. *)
Theorem C11_emit_commutes : forall F full_events recursive watch_path content it,
  emit_filtered F full_events recursive watch_path content it
  = (filter (fun e => accepts F (ev_cls e)) (fst (emit full_events recursive watch_path content it)),
     snd (emit full_events recursive watch_path content it)).
Proof. exact emit_filtered_commutes. Qed.
Print Assumptions C11_emit_commutes.

(* A raw event that shares no user-space event bit with the mask the filter is compiled into
   (so the kernel does not send it to the filtered watch) yields no event the filter accepts -
   for every mask value, every path, normal and full emitter, any directory content. *)
Theorem C11_emit_transparent : forall F full_events recursive watch_path content e,
  delivered (effective_mask (mask_of_filter recursive F)) (r_mask e) = false ->
  filter (fun ev => accepts F (ev_cls ev)) (fst (emit full_events recursive watch_path content (Single e))) = [].
Proof. exact emit_transparent_single. Qed.
Print Assumptions C11_emit_transparent.

Theorem C11_emit_transparent_pair : forall F full_events recursive watch_path content f t,
  flag_set IN_MOVED_FROM (mask_of_filter recursive F) = false \/
  flag_set IN_MOVED_TO (mask_of_filter recursive F) = false ->
  filter (fun ev => accepts F (ev_cls ev)) (fst (emit full_events recursive watch_path content (Pair f t))) = [].
Proof. exact emit_transparent_pair. Qed.
Print Assumptions C11_emit_transparent_pair.

Theorem C11_stop_preserved : forall F full_events recursive watch_path content e,
  snd (emit full_events recursive watch_path content (Single e)) = true ->
  delivered (effective_mask (mask_of_filter recursive F)) (r_mask e) = true.
Proof. exact stop_preserved. Qed.
Print Assumptions C11_stop_preserved.

(* Streams of single raw events, same view of the tree: the filtered watch (which is sent only the
   events of its mask) queues exactly the accepted part of what the unfiltered watch queues. *)
Theorem C11_emit_stream : forall F full_events recursive watch_path content (rs : list raw),
  flat_map (fun e => fst (emit_filtered F full_events recursive watch_path content (Single e)))
           (filter (fun e => delivered (effective_mask (mask_of_filter recursive F)) (r_mask e)) rs)
  = filter (fun ev => accepts F (ev_cls ev))
           (flat_map (fun e => fst (emit full_events recursive watch_path content (Single e))) rs).
Proof. exact emit_stream. Qed.
Print Assumptions C11_emit_stream.

(* The mask never splits a move: IN_MOVED_FROM is asked for exactly when IN_MOVED_TO is. *)
Theorem C11_mask_move_whole : forall recursive F,
  flag_set IN_MOVED_FROM (mask_of_filter recursive F) = flag_set IN_MOVED_TO (mask_of_filter recursive F).
Proof. exact mask_move_whole. Qed.
Print Assumptions C11_mask_move_whole.

(* Streams of items (single events and paired moves).  [handed_over M it] is what the buffer of a watch
   with kernel mask M hands to its emitter in place of the item [it] of the unfiltered watch (same paths,
   same view of the tree): undelivered singles vanish, a pair with one half outside M would arrive as
   the other half alone.  The filtered watch queues exactly the accepted part. *)
Theorem C11_item_stream : forall F full_events recursive watch_path content (its : list item),
  flat_map (fun it => fst (emit_filtered F full_events recursive watch_path content it))
           (flat_map (handed_over (effective_mask (mask_of_filter recursive F))) its)
  = filter (fun ev => accepts F (ev_cls ev))
           (flat_map (fun it => fst (emit full_events recursive watch_path content it)) its).
Proof. exact emit_item_stream. Qed.
Print Assumptions C11_item_stream.

Theorem C11_item_stream_refuted_pinned :
  exists F full_events recursive watch_path content its,
    flat_map (fun it => fst (emit_filtered F full_events recursive watch_path content it))
             (flat_map (handed_over (effective_mask (mask_of_filter_pinned recursive F))) its)
    <> filter (fun ev => accepts F (ev_cls ev))
              (flat_map (fun it => fst (emit full_events recursive watch_path content it)) its).
Proof. exact emit_item_stream_refuted_pinned. Qed.
Print Assumptions C11_item_stream_refuted_pinned.

(* The table of the pinned tree (frozen copy): the table lemma is false.  Finding F6. *)
Theorem C11_table_refuted_pinned :
  exists F recursive b, In b (needed_for F recursive) /\ flag_set b (mask_of_filter_pinned recursive F) = false.
Proof. exact table_refuted_pinned. Qed.
Print Assumptions C11_table_refuted_pinned.

(* the three reproduced faces of F6, and a fourth found by the sweep *)
Theorem C11_pinned_refuted_move_out :          (* [FileDeletedEvent]: a move out of the tree is a deletion *)
  In IN_MOVED_FROM (needed_for (Some [Concrete FileDeleted]) false) /\
  flag_set IN_MOVED_FROM (mask_of_filter_pinned false (Some [Concrete FileDeleted])) = false.
Proof. exact table_refuted_pinned_move_out. Qed.
Print Assumptions C11_pinned_refuted_move_out.

Theorem C11_pinned_refuted_new_directory :     (* recursive: a directory created later is not followed *)
  In IN_CREATE (needed_for (Some [Concrete FileDeleted]) true) /\
  flag_set IN_CREATE (mask_of_filter_pinned true (Some [Concrete FileDeleted])) = false.
Proof. exact table_refuted_pinned_new_directory. Qed.
Print Assumptions C11_pinned_refuted_new_directory.

Theorem C11_pinned_refuted_base_class :        (* a base class selects nothing but IN_DELETE_SELF *)
  In IN_MODIFY (needed_for (Some [AnyEvent]) false) /\
  flag_set IN_MODIFY (mask_of_filter_pinned false (Some [AnyEvent])) = false /\
  In IN_MOVED_TO (needed_for (Some [AnyMoved]) false) /\
  flag_set IN_MOVED_TO (mask_of_filter_pinned false (Some [AnyMoved])) = false /\
  mask_of_filter_pinned false (Some [AnyEvent]) = Some IN_DELETE_SELF.
Proof. exact table_refuted_pinned_base_class. Qed.
Print Assumptions C11_pinned_refuted_base_class.

Theorem C11_pinned_refuted_dirmodified_delete : (* [DirModifiedEvent]: deleting an entry modifies its parent *)
  In IN_DELETE (needed_for (Some [Concrete DirModified]) false) /\
  flag_set IN_DELETE (mask_of_filter_pinned false (Some [Concrete DirModified])) = false.
Proof. exact table_refuted_pinned_dirmodified_delete. Qed.
Print Assumptions C11_pinned_refuted_dirmodified_delete.

(* ------------------------------------------------------------------ non-vacuity *)
(* the filter [FileDeletedEvent] on a non-recursive watch: the mask is DELETE_SELF|MOVE|DELETE;
   an IN_MODIFY event is not delivered and indeed yields only a rejected FileModified, while an
   unpaired IN_MOVED_FROM is delivered and yields the accepted FileDeleted. *)
Example C11_nonvacuous :
  let F := Some [Concrete FileDeleted] in
  let e_mod := {| r_wd := 1; r_mask := IN_MODIFY; r_cookie := 0; r_name := [120]; r_path := probe_entry |}%N in
  let e_out := {| r_wd := 1; r_mask := IN_MOVED_FROM; r_cookie := 9; r_name := [120]; r_path := probe_entry |}%N in
  mask_of_filter false F = Some 1728%N /\
  needed_for F false = [IN_DELETE_SELF; IN_MOVED_FROM; IN_MOVED_TO; IN_DELETE] /\
  delivered 1728 (r_mask e_mod) = false /\
  map ev_cls (fst (emit false false probe_root (fun _ => probe_tree) (Single e_mod))) = [FileModified] /\
  delivered 1728 (r_mask e_out) = true /\
  map ev_cls (fst (emit_filtered F false false probe_root (fun _ => probe_tree) (Single e_out))) = [FileDeleted] /\
  map ev_cls (fst (emit false false probe_root (fun _ => probe_tree) (Single e_out))) = [FileDeleted; DirModified].
Proof. vm_compute. repeat split. Qed.

(* the stream theorem on a stream where something is dropped and something is kept *)
Example C11_stream_nonvacuous :
  let F := Some [AnyMoved] in
  let mkr m p := {| r_wd := 1; r_mask := m; r_cookie := 0; r_name := []; r_path := p |}%N in
  let rs := [mkr IN_CREATE probe_entry; mkr (N.lor IN_MOVED_TO IN_ISDIR) probe_entry2; mkr IN_OPEN probe_entry] in
  map ev_cls (flat_map (fun e => fst (emit true true probe_root (fun _ => probe_tree) (Single e))) rs)
    = [FileCreated; DirModified; DirMoved; DirModified; DirCreated; FileCreated; FileOpened] /\
  map (fun e => r_mask e) (filter (fun e => delivered (effective_mask (mask_of_filter true F)) (r_mask e)) rs)
    = [IN_CREATE; N.lor IN_MOVED_TO IN_ISDIR] /\
  map ev_cls (flat_map (fun e => fst (emit_filtered F true true probe_root (fun _ => probe_tree) (Single e)))
                (filter (fun e => delivered (effective_mask (mask_of_filter true F)) (r_mask e)) rs))
    = [DirMoved].
Proof. vm_compute. repeat split. Qed.

(* a paired directory move under a recursive watch: moved, two parents, synthetic sub-moves *)
Example C11_pair_nonvacuous :
  map (fun e => (ev_cls e, ev_synth e))
      (fst (emit false true probe_root (fun _ => probe_tree)
              (Pair (probe_raw (N.lor IN_MOVED_FROM IN_ISDIR) probe_entry)
                    (probe_raw (N.lor IN_MOVED_TO IN_ISDIR) probe_entry2))))
  = [(DirMoved, false); (DirModified, false); (DirModified, false); (DirMoved, true); (FileMoved, true)].
Proof. vm_compute. reflexivity. Qed.

(* the item-stream theorem on a stream with a pair that is kept and a pair that is dropped *)
Example C11_item_stream_nonvacuous :
  let pr := Pair (probe_raw IN_MOVED_FROM probe_entry) (probe_raw IN_MOVED_TO probe_entry2) in
  let its := [pr; Single (probe_raw IN_OPEN probe_entry)] in
  (* [FileMovedEvent]: the pair is handed over, the open is not *)
  flat_map (handed_over (effective_mask (mask_of_filter false (Some [Concrete FileMoved])))) its = [pr] /\
  map ev_cls (flat_map (fun it => fst (emit_filtered (Some [Concrete FileMoved]) false false probe_root (fun _ => probe_tree) it)) [pr])
    = [FileMoved] /\
  (* [FileOpenedEvent]: the pair is dropped as a whole *)
  flat_map (handed_over (effective_mask (mask_of_filter false (Some [Concrete FileOpened])))) its
    = [Single (probe_raw IN_OPEN probe_entry)].
Proof. vm_compute. repeat split. Qed.
