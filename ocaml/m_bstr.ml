open Sexp
open Conv
let run = function
  | L [A "join"; a; b] -> sx_bytes (BStr.join (bytes_of a) (bytes_of b))
  | L [A "dirname"; a] -> sx_bytes (BStr.dirname (bytes_of a))
  | L [A "basename"; a] -> sx_bytes (BStr.basename (bytes_of a))
  | L [A "starts"; p; s] -> sx_bool (BStr.starts (bytes_of p) (bytes_of s))
  | L [A "replace_all"; o; n; s] -> sx_bytes (BStr.replace_all (bytes_of o) (bytes_of n) (bytes_of s))
  | L [A "replace_first"; o; n; s] -> sx_bytes (BStr.replace_first (bytes_of o) (bytes_of n) (bytes_of s))
  | _ -> failwith "bstr: bad case"
