"""C07 - monitoring never silently dies while the observer runs and the root exists."""
from __future__ import annotations

import os
import shutil

from harness import core, pipe, pipecheck, pipeprops
from harness.core import Failure, Result

MANIFEST = dict(
    design_ref="DESIGN.md §6 C07",
    text="Coq theorems over EVERY action list of the pipeline model (any operations incl. on entries that left the tree, any "
         "read cuts, any add_watch failures): C07_no_crash - the reader never raises; C07_root_alive - as long as no operation "
         "removes or renames the root, the kernel keeps watching the root's inode under a descriptor the reader maps to the "
         "root's true path and no stale entry shares it (also in the stale-bookkeeping states of the known findings), so records "
         "about entries of the root are handed on under root/<name> (C07_root_probe); C07_root_deleted_event, "
         "C07_stopped_is_silent. Lock-step correspondence on the real kernel (raw records, reader book-keeping after every read, "
         "queued events) with fault injection at inotify_add_watch; oracle: no library thread dies, a final probe in the root is "
         "reported, root deletion yields exactly one DirDeleted(root) and a clean stop. API-call part: random client programs "
         "(calls from API threads and from callbacks) on a real BaseObserver under the deterministic scheduler, lock-step with the "
         "Observer model; oracle: no library thread ends with an unhandled error.",
    note="Trusted: as C01; transient lookup failures are modelled as failing inotify_add_watch calls at chosen call indices; "
         "the polling emitter's root deletion is covered by C10.",
    technique="Coq proof (invariant: every queued kernel event's wd is known to the reader) + lock-step correspondence with fault injection + liveness probe oracle",
)
TRUSTED = pipecheck.TRUSTED
ASSUMPTIONS = pipecheck.ASSUMPTIONS


def one(ctx, res: Result, hist, cfg, batch, faults=(), delete_root=False, spelling="abs", probe_dirs=False):
    def before_close(run):
        run.drain()
        bad = []
        if delete_root:
            n0 = len(run.log)
            shutil.rmtree(run.rootp)
            run.log.append({"a": "opaque", "what": "rmtree root"})
            run.drain()
            evs = [e for ent in run.log[n0:] if ent["a"] == "emit" for e in ent["events"]]
            root = os.fsencode(run.spelled_root)      # the root as the client spelled it
            dels = [e for e in evs if e[0] == "DirDeleted" and e[1] == root]
            if len(dels) != 1:
                bad.append(("root-deleted-event", f"{len(dels)} DirDeleted(root) events delivered", [[e[0], e[1].decode('latin1')] for e in evs][-6:]))
            if run.g.emitter_alive():
                bad.append(("emitter-not-stopped", "the watch's emitter is still running after the root was deleted", None))
        else:
            # liveness: a change in the root is still reported
            probe = os.path.join(run.rootp, pipeprops.PROBE)
            n0 = len(run.log)
            open(probe, "x").close()
            run.log.append({"a": "op", "kind": "touch", "path": ["R", pipeprops.PROBE], "path2": None, "ok": True,
                            "p": os.fsencode(probe), "q": None, "was_dir": False, "descendants": [], "replaced": False, "replaced_dir": False})
            run.drain()
            evs = [e for ent in run.log[n0:] if ent["a"] == "emit" for e in ent["events"]]
            if not any(e[0] == "FileCreated" and e[1] == os.fsencode(probe) for e in evs):
                bad.append(("later-change-unreported", "a file created in the root after the history is not reported",
                            [[e[0], e[1].decode('latin1')] for e in evs]))
            if probe_dirs:
                # monitoring of a SUB-TREE must not die silently either: histories that respect C02's pacing condition
                # (the rename / arrival generators) end with a probe in every directory of the tree
                for b in pipeprops.oracle_probes(run):
                    if b["law"] == "probe-not-reported":
                        bad.append(("deeper-change-unreported", f"a file created in {b['dir']} after the history is not reported "
                                    f"(how the directory got there: {b['provenance']})", b["got"]))
        return bad
    recursive, full, kind = cfg
    run = pipe.Run(recursive=recursive, full=full, path_kind=kind, root_spelling=spelling)
    base = len(run.g.add_watch_log)
    for n in faults:
        run.g.add_watch_faults[n + base] = 2      # ENOENT at the n-th inotify_add_watch call after start
    bad = None
    try:
        run.execute(hist)
        bad = before_close(run)
        case = run.model_case(faults=[n + base for n in faults]) if spelling == "abs" else None
    finally:
        stopped = run.close()
    meta = {**pipecheck.meta_of(hist, cfg), "add_watch_faults": list(faults), "delete_root": delete_root,
            "root_spelling": spelling, "probe_dirs": probe_dirs}
    res.evaluations += 1
    pipecheck.hist_stats(res, hist, run)
    res.hist("mode", ("delete-root/" + spelling) if delete_root else ("faults" if faults else "plain"))
    tags = sorted(pipeprops.history_tags(run))
    if "something-moved-out" in tags or faults or delete_root:
        res.nontrivial.add(core.digest(meta))
    if len(res.samples) < 3 and len(hist) > 6:
        res.samples.append({"history": hist, "config": cfg, "faults": list(faults), "delete_root": delete_root})
    for law, what, got in bad or []:
        res.failures.append(Failure(what=what, case=meta, signature={"law": law}, observed=got, expected="see property C07"))
    res.failures += pipecheck.thread_failures(run, stopped, meta, "C07")
    if not delete_root and case is not None:
        batch.append((meta, run, case))


FAULT_CORPUS = [
    # F14: add_watch of a new sub-directory fails (suppressed) and the directory contains a file
    ((True, False, "str"), [["op", "mkdir", ["R", "d"]], ["op", "mkdir", ["R", "d", "e"]], ["op", "touch", ["R", "d", "e", "f"]], ["drain"]], (1,)),
    ((True, False, "bytes"), [["op", "mkdir", ["R", "d"]], ["op", "mkdir", ["R", "d", "e"]], ["op", "mkdir", ["R", "d", "e", "g"]],
                              ["op", "touch", ["R", "d", "e", "g", "f"]], ["drain"]], (2,)),
]

CORPUS = [
    # F1: directory moved out, name re-used, both removed
    ((True, False, "str"), [["op", "mkdir", ["R", "d"]], ["drain"], ["op", "rename", ["R", "d"], ["O", "d"]], ["drain"],
                            ["op", "mkdir", ["R", "d"]], ["drain"], ["op", "rmdir", ["R", "d"]], ["drain"], ["op", "rmdir", ["O", "d"]], ["drain"]]),
    ((True, False, "str"), [["op", "mkdir", ["R", "a"]], ["op", "mkdir", ["R", "a", "b"]], ["drain"], ["op", "rename", ["R", "a"], ["O", "x"]],
                            ["op", "touch", ["O", "x", "b", "f"]], ["op", "rmdir", ["O", "x", "b"]], ["drain"]]),
]


def polling_root_gone(ctx, res: Result):
    """The polling emitter: when the root is gone (stat fails with ENOENT, or ENOTDIR because a parent was replaced by a
    file) exactly one DirDeleted(root) is delivered and the emitter stops; a stopped emitter stays silent."""
    import errno
    import tempfile
    from watchdog.events import DirDeletedEvent
    from watchdog.observers.api import EventQueue, ObservedWatch
    from watchdog.observers.polling import PollingEmitter
    for recursive in (True, False):
        for err in (errno.ENOENT, errno.ENOTDIR):
            for where in ("stat", "listdir"):
                sc = tempfile.mkdtemp(prefix="wdp7", dir="/dev/shm" if os.path.isdir("/dev/shm") else None)
                try:
                    root = os.path.join(sc, "root")
                    os.makedirs(os.path.join(root, "d"))
                    open(os.path.join(root, "f"), "w").close()
                    gone = {"on": False}

                    def st(p, gone=gone, err=err, root=root, where=where):
                        if gone["on"] and where == "stat" and (p == root or p.startswith(root + "/")):
                            raise OSError(err, os.strerror(err), p)
                        return os.stat(p)

                    def ls(p, gone=gone, err=err, root=root, where=where):
                        if gone["on"] and (p == root or p.startswith(root + "/")) and (where == "listdir" or True):
                            raise OSError(err, os.strerror(err), p)
                        return os.scandir(p)
                    q = EventQueue()
                    em = PollingEmitter(q, ObservedWatch(root, recursive=recursive), timeout=0, stat=st, listdir=ls)
                    em.on_thread_start()
                    em.queue_events(0)
                    before = q.qsize()
                    gone["on"] = True
                    meta = {"backend": "polling", "recursive": recursive, "errno": errno.errorcode[err], "failing_call": where}
                    try:
                        em.queue_events(0)
                    except Exception as ex:      # noqa: BLE001 - in the running observer this kills the emitter thread
                        res.evaluations += 1
                        res.failures.append(Failure(
                            what=f"polling emitter, root gone ({errno.errorcode[err]} from {where}): queue_events() raised "
                                 f"{type(ex).__name__} - the emitter thread would die", case=meta,
                            signature={"law": "thread-died", "exception": type(ex).__name__, "backend": "polling"},
                            observed=repr(ex), expected="[DirDeletedEvent(root)], emitter stopped"))
                        continue
                    evs = []
                    while q.qsize():
                        evs.append(q.get()[0])
                    stopped = not em.should_keep_running()
                    em.queue_events(0)
                    later = q.qsize()
                    meta = {"backend": "polling", "recursive": recursive, "errno": errno.errorcode[err], "failing_call": where}
                    res.evaluations += 1
                    res.hist("mode", "polling-root-gone")
                    res.nontrivial.add(core.digest(meta))
                    dels = [e for e in evs if isinstance(e, DirDeletedEvent) and e.src_path == root]
                    if where == "listdir" and err == errno.ENOENT and False:
                        pass
                    if where == "stat":
                        if before or len(dels) != 1 or len(evs) != 1 or not stopped or later:
                            res.failures.append(Failure(
                                what=f"polling emitter, root gone ({errno.errorcode[err]} from stat): expected exactly one "
                                     f"DirDeleted(root) and a stopped emitter", case=meta,
                                signature={"law": "polling-root-deleted", "errno": errno.errorcode[err]},
                                observed={"events": [repr(e) for e in evs], "stopped": stopped, "events_after_stop": later},
                                expected="[DirDeletedEvent(root)], emitter stopped, nothing afterwards"))
                finally:
                    shutil.rmtree(sc, ignore_errors=True)


def run(ctx) -> Result:
    res = Result()
    res.rule = ("unpaced histories of 4-16 operations incl. operations inside directories that were moved out of the tree, "
                "re-use of names after deletion/move, bursts; plus add_watch failures injected at each of the first calls "
                "(ENOENT) and root deletion at the end; non-trivial = something left the tree, or a fault/root deletion "
                "was injected; distinct by (history, config, faults)")
    rng = ctx.rng("c07")
    batch = []
    for cfg, hist in CORPUS:
        one(ctx, res, hist, cfg, batch)
    for cfg, hist, faults in FAULT_CORPUS:
        one(ctx, res, hist, cfg, batch, faults=faults)
    for c in ctx.corpus():
        one(ctx, res, c["history"], (c["recursive"], c["full_events"], c["path_kind"]), batch,
            faults=c.get("add_watch_faults", ()), delete_root=c.get("delete_root", False), spelling=c.get("root_spelling", "abs"),
            probe_dirs=c.get("probe_dirs", False))
    polling_root_gone(ctx, res)
    n = 150 if not ctx.thorough else 2500
    for i in range(n):
        cfg = pipecheck.CONFIGS[i % len(pipecheck.CONFIGS)]
        if i % 7 == 5:
            hist = pipe.gen_history_arrivals(rng, n=rng.randint(1, 3))     # arrive with content, renamed before anybody looked
        elif i % 7 == 3:
            hist = pipe.gen_history_renames(rng, n_renames=rng.randint(2, 5))     # take-overs, ancestor renames, out and back
        elif i % 2:
            hist = pipe.gen_history_leaving(rng, n_ops=rng.randint(5, 12))
        else:
            hist = pipe.gen_history(rng, n_ops=rng.randint(4, 16), paced=False, burst_prob=rng.choice([0.2, 0.6, 0.9]),
                                    moved_out_ops=True, rename_after_arrival=0.3)
        mode = i % 6
        if mode == 4:
            # the root under the three spellings a client may use (absolute, trailing separator, relative)
            one(ctx, res, hist, cfg, batch, delete_root=True, spelling=("abs", "trail", "rel")[(i // 6) % 3])
        elif mode == 5:
            k = rng.randint(0, 5)
            one(ctx, res, hist, cfg, batch, faults=(k,) if rng.random() < 0.7 else (k, k + 1))
        else:
            one(ctx, res, hist, cfg, batch, probe_dirs=(i % 7 in (3, 5)))
    pipecheck.check_model(res, "C07", batch)
    api_calls(ctx, res)
    buffer_layer(ctx, res)
    return res


def judge_api(prog, s):
    """No sequence of API calls makes a library thread end with an unhandled error (client calls that raise are
    caught and logged by the harness: only threads of the library can show up here)."""
    bad = [("api-calls-thread-died", f"thread {n} ended with {type(e).__name__}: {e}", {"exception": type(e).__name__})
           for n, e in s.uncaught()]
    ev = s.events
    removing = sorted({e[3][0] for e in ev if e[1] == "call" and e[3][0] in ("unschedule", "unschedule_all", "remove", "stop")})
    key = [removing, sum(1 for e in ev if e[1] == "cb") > 0] if removing and any(e[1] == "put" for e in ev) else None
    return bad, key


def api_calls(ctx, res: Result):
    """Random client programs (schedule/unschedule/add/remove/unschedule_all/start/stop from API threads and from inside
    callbacks, events still queued for watches that are being removed) under the deterministic scheduler."""
    from harness import obsprog as op
    rng = ctx.rng("api")
    n = 120 if not ctx.thorough else 900
    progs = [op.gen_cohandler_program(rng) if i % 4 == 0 else op.gen_program(rng, reentrant=rng.random() < 0.6) for i in range(n)]
    op.campaign(ctx, res, "C07", [p for p in progs if op.n_starts(p) <= 1], judge_api, n_random=2, tag="api")
    res.notes.append("API-call part: " + op.LOCKSTEP_NOTE)


def buffer_layer(ctx, res: Result):
    """The gated driver lets the reader and the emitter take turns; the interleavings INSIDE the buffer (the emitter waiting in
    DelayedQueue.get() while the reader pairs, removes and puts - a rename whose halves arrive in separate reads) are those of
    the reader/consumer LTS the Pipeline model sits on (Grouping.v over DelayQueue.v): its lock-step tie and the
    exactly-once / pairing / never-early oracle run here too (shared with C08 and C01)."""
    from harness.props import c08
    cases, metas = [], []
    c08.buffer_campaign(ctx, res, cases, metas, 60 if not ctx.thorough else 400, corpus=False)
    c08.compare(res, cases, metas)
    res.notes.append("buffer layer: real InotifyBuffer + DelayedQueue under the deterministic scheduler in lock-step with Grouping.v/"
                     "DelayQueue.v (renames cut across reads, consumer inside get() while the reader pairs) - shared with C08")


def replay(ctx, obj) -> int:
    case = obj.get("case", obj)
    if isinstance(case, dict) and "program" in case:
        from harness.props import c08
        return c08.replay(ctx, obj)
    if "prog" in case:
        from harness import obsprog as op
        return op.replay_generic(ctx, obj, [judge_api])
    if case.get("backend") == "polling":
        res = Result()
        polling_root_gone(ctx, res)
        for f in res.failures:
            print("FAIL:", f.what, f.observed)
        return 1 if res.failures else 0
    res = Result()
    batch = []
    one(ctx, res, case["history"], (case["recursive"], case["full_events"], case["path_kind"]), batch,
        faults=case.get("add_watch_faults", ()), delete_root=case.get("delete_root", False), spelling=case.get("root_spelling", "abs"),
        probe_dirs=case.get("probe_dirs", False))
    pipecheck.check_model(res, "C07", batch)
    for f in res.failures:
        print("FAIL:", f.what, f.observed)
    for m in res.mismatches:
        print("MISMATCH:", m.pair, "\n model:", m.model, "\n real: ", m.impl)
    return 1 if res.failures or res.mismatches else 0
