(* Replaying abstract event streams on the flat tree: created / deleted / moved cores shared by the
   Windows and the FSEvents contracts (C20).  The moved core is the "sequential exact re-keys equal
   prefix rename" argument on component paths. *)
Require Import WD.Base.Prelude WD.Base.BStr WD.Model.SubEvents WD.Proofs.SubEventsProofs.
Require Import WD.Model.PlatFs WD.Proofs.PlatFsProofs.
Require Import Coq.Sorting.Permutation.

(* ---------------------------------------------------------------- modified events do not matter *)
Definition essential (e : aev) : bool := match e with AModified _ _ => false | _ => true end.

Lemma replay_app v a b : replay v (a ++ b) = replay (replay v a) b.
Proof. unfold replay. apply fold_left_app. Qed.

Lemma replay_essential es : forall v, replay v es = replay v (filter essential es).
Proof.
  induction es as [|e es IH]; intros v; [reflexivity|].
  destruct e; cbn [filter essential]; cbn [replay fold_left replay1]; try apply IH.
Qed.

(* ---------------------------------------------------------------- created *)
Lemma replay_created_list {A} (D : list A) (kf : A -> kind) (pf : A -> path) (sf : A -> bool) : forall v,
  replay v (map (fun x => ACreated (kf x) (pf x) (sf x)) D) = v ++ map (fun x => (pf x, kf x)) D.
Proof.
  induction D as [|x D IH]; intros v; cbn [map]; [now rewrite app_nil_r|].
  cbn [replay fold_left replay1]. fold (replay (v ++ [(pf x, kf x)]) (map (fun x => ACreated (kf x) (pf x) (sf x)) D)).
  rewrite IH, <- app_assoc. reflexivity.
Qed.

(* ---------------------------------------------------------------- moved: sequential exact re-keys *)
Definition rekey1 (a b : path) (x : path * kind) : path * kind :=
  if path_eqb (fst x) a then (b, snd x) else x.
Definition rekeys (L : list (path * path)) (x : path * kind) : path * kind :=
  fold_left (fun x ab => rekey1 (fst ab) (snd ab) x) L x.
Definition srcb (q : path) (L : list (path * path)) : bool := existsb (fun ab => path_eqb q (fst ab)) L.

Lemma replay_moved_list {A} (M : list A) (kf : A -> kind) (sf df : A -> path) (bf : A -> bool) : forall v,
  replay v (map (fun m => AMoved (kf m) (sf m) (df m) (bf m)) M)
  = map (rekeys (map (fun m => (sf m, df m)) M)) v.
Proof.
  induction M as [|m M IH]; intros v; cbn [map].
  - unfold rekeys. simpl. now rewrite map_id.
  - cbn [replay fold_left replay1].
    fold (replay (map (fun x => if path_eqb (fst x) (sf m) then (df m, snd x) else x) v)
                 (map (fun m => AMoved (kf m) (sf m) (df m) (bf m)) M)).
    rewrite IH, map_map. apply map_ext. intros x. reflexivity.
Qed.

Lemma path_eqb_sym a b : path_eqb a b = path_eqb b a.
Proof.
  destruct (path_eqb a b) eqn:E1, (path_eqb b a) eqn:E2; try reflexivity.
  - apply path_eqb_eq in E1. subst. rewrite path_eqb_refl in E2. discriminate.
  - apply path_eqb_eq in E2. subst. rewrite path_eqb_refl in E1. discriminate.
Qed.

(* if no target is a source and every target is [Rf] of its source, the chain of exact re-keys maps
   a source q to Rf q and leaves everything else alone *)
Lemma rekeys_spec (Rf : path -> path) : forall L,
  (forall ab ab', In ab L -> In ab' L -> snd ab <> fst ab') ->
  (forall ab, In ab L -> snd ab = Rf (fst ab)) ->
  forall q k, rekeys L (q, k) = if srcb q L then (Rf q, k) else (q, k).
Proof.
  induction L as [|[a b] L IH]; intros T R q k; [reflexivity|].
  assert (T' : forall ab ab', In ab L -> In ab' L -> snd ab <> fst ab') by (intros; apply T; now right).
  assert (R' : forall ab, In ab L -> snd ab = Rf (fst ab)) by (intros; apply R; now right).
  cbn [rekeys fold_left fst snd]. fold (rekeys L (rekey1 a b (q, k))).
  unfold rekey1. cbn [fst snd srcb existsb].
  destruct (path_eqb q a) eqn:E.
  - apply path_eqb_eq in E. subst q. cbn [orb].
    rewrite IH by assumption.
    assert (Hb : srcb b L = false).
    { unfold srcb. apply not_true_is_false. intros H. apply existsb_exists in H as (ab' & Hin & Hq).
      apply path_eqb_eq in Hq. eapply (T (a, b) ab'); [now left | now right | exact Hq]. }
    rewrite Hb. f_equal. apply (R (a, b)). now left.
  - cbn [orb]. rewrite IH by assumption. reflexivity.
Qed.

Lemma path_eqb_app_nil a x : path_eqb (a ++ x) a = match x with [] => true | _ => false end.
Proof.
  destruct x as [|y x].
  - rewrite app_nil_r. apply path_eqb_refl.
  - apply not_true_is_false. intros H. apply path_eqb_eq in H.
    apply (f_equal (@length bytes)) in H. rewrite app_length in H. simpl in H. lia.
Qed.

Lemma skipn_app_len {A} (a b : list A) : skipn (length a) (a ++ b) = b.
Proof. induction a; simpl; auto. Qed.

Section Rename.
  Variable f : fs.
  Variables s d : path.
  Hypothesis C : closed_fs f.
  Hypothesis Hs : s <> [].
  Hypothesis Hd : d <> [].
  Hypothesis Hms : fs_mem f s = true.
  Hypothesis Hmd : fs_mem f d = false.
  Hypothesis Hsd : under s d = false.

  Let R (e : entry) : entry :=
    if under s (e_path e) then Entry (reprefix s d (e_path e)) (e_kind e) (e_ino e) else e.

  Lemma ds_incomparable : under d s = false.
  Proof. destruct (mem_in _ _ Hms) as (e & He & <-). now apply (no_orphans f d). Qed.

  Lemma nothing_under_d e : In e f -> under d (e_path e) = false.
  Proof. now apply no_orphans. Qed.

  (* the renamed tree, entry by entry *)
  Lemma R_path e : In e f ->
    (under s (e_path e) = true /\ e_path (R e) = d ++ skipn (length s) (e_path e)) \/
    (under s (e_path e) = false /\ R e = e /\ under d (e_path e) = false).
  Proof.
    intros He. unfold R. destruct (under s (e_path e)) eqn:U.
    - left. split; reflexivity.
    - right. repeat split. now apply nothing_under_d.
  Qed.

  Lemma isdir_after_rename : fs_isdir (apply_op f (ORename s d)) d = fs_isdir f s.
  Proof.
    cbn [apply_op]. fold R. unfold fs_isdir, lookup.
    assert (H : forall l, (forall e, In e l -> In e f) ->
      match find (fun e => path_eqb (e_path e) d) (map R l) with Some e => kind_eqb (e_kind e) KDir | None => false end =
      match find (fun e => path_eqb (e_path e) s) l with Some e => kind_eqb (e_kind e) KDir | None => false end).
    { induction l as [|e l IH]; intros Hl; [reflexivity|]. cbn [map find].
      assert (He : In e f) by (apply Hl; now left).
      assert (IH' := IH (fun x Hx => Hl x (or_intror Hx))).
      destruct (R_path e He) as [(U & P)|(U & P & Ud)].
      - rewrite P. pose proof (under_split _ _ U) as E.
        assert (Hq : path_eqb (e_path e) s = match skipn (length s) (e_path e) with [] => true | _ => false end)
          by (rewrite <- (path_eqb_app_nil s), <- E; reflexivity).
        rewrite path_eqb_app_nil, Hq.
        destruct (skipn (length s) (e_path e)); [|exact IH'].
        unfold R. rewrite U. reflexivity.
      - rewrite P.
        assert (path_eqb (e_path e) d = false) as ->.
        { apply not_true_is_false. intros H. apply path_eqb_eq in H. rewrite H, under_refl' in Ud. discriminate. }
        assert (path_eqb (e_path e) s = false) as ->.
        { apply not_true_is_false. intros H. apply path_eqb_eq in H. rewrite H, under_refl' in U. discriminate. }
        exact IH'. }
    apply H. auto.
  Qed.

  Lemma below_after_rename : below (apply_op f (ORename s d)) d = below f s.
  Proof.
    cbn [apply_op]. fold R. unfold below.
    assert (H : forall l, (forall e, In e l -> In e f) ->
      flat_map (fun e => if under d (e_path e) && negb (path_eqb (e_path e) d)
                         then [(skipn (length d) (e_path e), e_kind e)] else []) (map R l) =
      flat_map (fun e => if under s (e_path e) && negb (path_eqb (e_path e) s)
                         then [(skipn (length s) (e_path e), e_kind e)] else []) l).
    { induction l as [|e l IH]; intros Hl; [reflexivity|]. cbn [map flat_map].
      assert (He : In e f) by (apply Hl; now left).
      rewrite (IH (fun x Hx => Hl x (or_intror Hx))). f_equal.
      destruct (R_path e He) as [(U & P)|(U & P & Ud)].
      - rewrite P, under_app, skipn_app_len, U. pose proof (under_split _ _ U) as E.
        assert (Hq : path_eqb (e_path e) s = match skipn (length s) (e_path e) with [] => true | _ => false end)
          by (rewrite <- (path_eqb_app_nil s), <- E; reflexivity).
        rewrite path_eqb_app_nil, Hq.
        unfold R. rewrite U. reflexivity.
      - rewrite P, Ud, U. reflexivity. }
    apply H. auto.
  Qed.

  (* sequential exact re-keys = prefix rename *)
  Lemma replay_rename (D : list (kind * path)) k b :
    (forall e, In e f -> under s (e_path e) = true -> e_path e <> s ->
               In (skipn (length s) (e_path e)) (map snd D)) ->
    replay (view_of f) (AMoved k s d b :: map (fun x => AMoved (fst x) (s ++ snd x) (d ++ snd x) true) D)
    = view_of (apply_op f (ORename s d)).
  Proof.
    intros Hcov.
    set (M := (k, [], b) :: map (fun x => (fst x, snd x, true)) D : list (kind * path * bool)).
    assert (EM : AMoved k s d b :: map (fun x => AMoved (fst x) (s ++ snd x) (d ++ snd x) true) D
                 = map (fun m => AMoved (fst (fst m)) (s ++ snd (fst m)) (d ++ snd (fst m)) (snd m)) M).
    { unfold M. cbn [map fst snd]. rewrite !app_nil_r, map_map. reflexivity. }
    rewrite EM, replay_moved_list.
    set (L := map (fun m : kind * path * bool => (s ++ snd (fst m), d ++ snd (fst m))) M).
    assert (HL : forall ab, In ab L -> exists r, ab = (s ++ r, d ++ r)).
    { intros ab H. unfold L in H. apply in_map_iff in H as (m & <- & _). eexists. reflexivity. }
    assert (Hspec : forall q k0, rekeys L (q, k0) = if srcb q L then (d ++ skipn (length s) q, k0) else (q, k0)).
    { apply (rekeys_spec (fun q => d ++ skipn (length s) q)).
      - intros ab ab' H1 H2 E. destruct (HL _ H1) as (r & ->). destruct (HL _ H2) as (r' & ->).
        cbn [fst snd] in E. symmetry in E. revert E. apply incomparable; [exact Hsd | apply ds_incomparable].
      - intros ab H1. destruct (HL _ H1) as (r & ->). cbn [fst snd]. now rewrite skipn_app_len. }
    cbn [apply_op]. unfold view_of. rewrite !map_map. apply map_ext_in. intros e He.
    rewrite Hspec. destruct (under s (e_path e)) eqn:U.
    - assert (srcb (e_path e) L = true) as ->; [|reflexivity].
      unfold srcb. apply existsb_exists.
      destruct (path_eqb (e_path e) s) eqn:Es.
      + apply path_eqb_eq in Es. exists (s ++ [], d ++ []). split.
        * unfold L, M. cbn [map fst snd]. now left.
        * cbn [fst]. rewrite app_nil_r, Es. apply path_eqb_refl.
      + assert (Hne : e_path e <> s) by (intros E; rewrite E, path_eqb_refl in Es; discriminate).
        specialize (Hcov e He U Hne). apply in_map_iff in Hcov as (x & Hx & Hin).
        exists (s ++ snd x, d ++ snd x). split.
        * unfold L, M. cbn [map]. right. rewrite map_map. apply in_map_iff. exists x. split; [reflexivity | exact Hin].
        * cbn [fst]. rewrite Hx, <- (under_split _ _ U). apply path_eqb_refl.
    - assert (srcb (e_path e) L = false) as ->; [|reflexivity].
      apply not_true_is_false. intros H. unfold srcb in H. apply existsb_exists in H as (ab & Hin & Hq).
      destruct (HL _ Hin) as (r & ->). cbn [fst] in Hq. apply path_eqb_eq in Hq.
      rewrite Hq, under_app in U. discriminate.
  Qed.
End Rename.

(* ---------------------------------------------------------------- deleted *)
Lemma filter_view' g f :
  view_of (filter (fun e => g (e_path e)) f) = filter (fun x => g (fst x)) (view_of f).
Proof.
  unfold view_of. induction f as [|e f IH]; simpl; [reflexivity|].
  destruct (g (e_path e)); simpl; now rewrite IH.
Qed.

(* ---------------------------------------------------------------- arriving trees *)
Lemma flat_map_nil {A B} (g : A -> list B) l : (forall x, In x l -> g x = []) -> flat_map g l = [].
Proof.
  induction l as [|x l IH]; intros H; [reflexivity|]. cbn [flat_map].
  rewrite (H x) by now left. apply IH. intros y Hy. apply H. now right.
Qed.

Lemma below_after_movein f d k i content :
  closed_fs f -> d <> [] -> fs_mem f d = false ->
  (forall e, In e content -> e_path e <> []) ->
  below (apply_op f (OMoveIn d k i content)) d = map (fun e => (e_path e, e_kind e)) content.
Proof.
  intros C Hd Hm Hc. cbn [apply_op]. unfold below. rewrite flat_map_app.
  rewrite flat_map_nil; [|intros e He; now rewrite (no_orphans f d C Hd Hm e He)].
  cbn [app flat_map e_path]. rewrite under_refl', path_eqb_refl. cbn [andb negb app].
  induction content as [|e c IH]; [reflexivity|]. cbn [map flat_map e_path e_kind].
  rewrite under_app, skipn_app_len, path_eqb_app_nil.
  destruct (e_path e) eqn:E; [exfalso; apply (Hc e); [now left | exact E]|].
  cbn [andb negb app]. f_equal. apply IH. intros x Hx. apply Hc. now right.
Qed.

Lemma below_none f p : closed_fs f -> p <> [] -> fs_mem f p = false -> forall g, below (f ++ [g]) p =
  (if under p (e_path g) && negb (path_eqb (e_path g) p) then [(skipn (length p) (e_path g), e_kind g)] else []).
Proof.
  intros C Hp Hm g. unfold below. rewrite flat_map_app.
  rewrite flat_map_nil; [|intros e He; now rewrite (no_orphans f p C Hp Hm e He)].
  cbn [app flat_map]. now rewrite app_nil_r.
Qed.

(* ---------------------------------------------------------------- replay respects permutations of the view *)
Lemma filter_perm {A} (g : A -> bool) l l' : Permutation l l' -> Permutation (filter g l) (filter g l').
Proof.
  induction 1 as [|x l l' P IH|x y l|l l' l'' P1 IH1 P2 IH2]; cbn [filter].
  - constructor.
  - destruct (g x); [now constructor | exact IH].
  - destruct (g x), (g y); try apply Permutation_refl. constructor.
  - eapply Permutation_trans; eauto.
Qed.

Lemma replay1_perm v v' e : Permutation v v' -> Permutation (replay1 v e) (replay1 v' e).
Proof.
  intros P. destruct e; cbn [replay1].
  - now apply Permutation_app_tail.
  - now apply filter_perm.
  - exact P.
  - now apply Permutation_map.
Qed.

Lemma replay_perm es : forall v v', Permutation v v' -> Permutation (replay v es) (replay v' es).
Proof.
  induction es as [|e es IH]; intros v v' P; [exact P|].
  cbn [replay fold_left]. apply IH. now apply replay1_perm.
Qed.
