"""A scripted stand-in for the kernel side of inotify, as seen from watchdog.observers.inotify_c.

`install()` replaces, in the inotify_c module namespace only, `inotify_init`, `inotify_add_watch`,
`inotify_rm_watch`, `os` (proxy: read/write/close/pipe are faked for fake descriptors, everything
else is the real os), `select` (proxy: poll() objects that block through `kernel.block`) and
`ctypes` (proxy: get_errno).  No source file of /repo is touched.

Every descriptor is a small state machine open -> closed; any use after close, double close,
or read of a descriptor that is not readable is recorded in `kernel.violations`.
"""
from __future__ import annotations

import errno as _errno
import os as _os
import struct
import types

FD_BASE = 1000

IN = dict(ACCESS=1, MODIFY=2, ATTRIB=4, CLOSE_WRITE=8, CLOSE_NOWRITE=0x10, OPEN=0x20, MOVED_FROM=0x40,
          MOVED_TO=0x80, CREATE=0x100, DELETE=0x200, DELETE_SELF=0x400, MOVE_SELF=0x800,
          UNMOUNT=0x2000, Q_OVERFLOW=0x4000, IGNORED=0x8000, ISDIR=0x40000000)


def pack_event(wd: int, mask: int, cookie: int, name: bytes, pad: int | None = None) -> bytes:
    """One struct inotify_event; the kernel pads the name with NULs to a multiple of 16 (>=1 NUL)."""
    if name:
        ln = (len(name) // 16 + 1) * 16 if pad is None else len(name) + pad
        body = name + b"\0" * (ln - len(name))
    else:
        ln = 0 if pad is None else pad
        body = b"\0" * ln
    return struct.pack("iIII", wd, mask, cookie, ln) + body


class Deadlock(Exception):
    pass


class FakeKernel:
    def __init__(self):
        self.fds: dict[int, dict] = {}
        self.next_fd = FD_BASE
        self.violations: list[str] = []
        self.errno = 0
        self.faults: dict[str, list] = {}     # call name -> list of (nth call (0-based), errno)
        self.calls: dict[str, int] = {}
        self.log: list[tuple] = []
        self.block = self._block_single        # replaced by the deterministic scheduler
        self.follow_inode = True

    # ---- helpers
    def _new_fd(self, kind, **kw):
        fd = self.next_fd
        self.next_fd += 1
        self.fds[fd] = dict(kind=kind, open=True, **kw)
        return fd

    def _use(self, fd, what):
        st = self.fds.get(fd)
        if st is None:
            self.violations.append(f"{what} on unknown descriptor {fd}")
            return None
        if not st["open"]:
            self.violations.append(f"{what} on closed descriptor {fd} ({st['kind']})")
            return None
        return st

    def _fault(self, name):
        n = self.calls.get(name, 0)
        self.calls[name] = n + 1
        for (k, e) in self.faults.get(name, []):
            if k == n:
                return e
        return 0

    def open_fds(self):
        return sorted(fd for fd, st in self.fds.items() if st["open"])

    def _block_single(self, pred, what):
        if not pred():
            raise Deadlock(what)

    # ---- libc entry points
    def inotify_init(self):
        e = self._fault("inotify_init")
        if e:
            self.errno = e
            return -1
        fd = self._new_fd("inotify", watches={}, by_key={}, next_wd=1, queue=[], chunks=[])
        self.log.append(("init", fd))
        return fd

    def inotify_add_watch(self, fd, path, mask):
        st = self._use(fd, "inotify_add_watch")
        e = self._fault("inotify_add_watch")
        if st is None:
            self.errno = _errno.EBADF
            return -1
        if e:
            self.errno = e
            return -1
        try:
            s = _os.stat(path)
            key = (s.st_dev, s.st_ino) if self.follow_inode else path
        except OSError as ex:
            self.errno = ex.errno
            return -1
        if key in st["by_key"]:
            wd = st["by_key"][key]
        else:
            wd = st["next_wd"]
            st["next_wd"] += 1
            st["by_key"][key] = wd
        st["watches"][wd] = dict(path=path, mask=mask, key=key)
        self.log.append(("add_watch", fd, path, wd))
        return wd

    def inotify_rm_watch(self, fd, wd):
        st = self._use(fd, "inotify_rm_watch")
        if st is None:
            self.errno = _errno.EBADF
            return -1
        if wd not in st["watches"]:
            self.errno = _errno.EINVAL
            return -1
        w = st["watches"].pop(wd)
        st["by_key"].pop(w["key"], None)
        st["queue"].append(pack_event(wd, IN["IGNORED"], 0, b""))
        self.log.append(("rm_watch", fd, wd))
        return 0

    # ---- scripting
    def path_gone(self, path):
        """The watched directory `path` was deleted: on every open inotify descriptor that watches it the kernel drops the
        watch and queues IN_DELETE_SELF (when in the mask) and IN_IGNORED - whether or not anybody has read them yet."""
        n = 0
        for fd, st in self.fds.items():
            if st["kind"] != "inotify" or not st["open"]:
                continue
            for wd, w in list(st["watches"].items()):
                if w["path"] == path or w["path"] == _os.fsencode(path) if isinstance(path, str) else w["path"] == path:
                    st["watches"].pop(wd)
                    st["by_key"].pop(w["key"], None)
                    if w["mask"] & IN["DELETE_SELF"]:
                        st["queue"].append(pack_event(wd, IN["DELETE_SELF"], 0, b""))
                    st["queue"].append(pack_event(wd, IN["IGNORED"], 0, b""))
                    self.log.append(("path_gone", fd, wd))
                    n += 1
        return n

    def feed(self, fd, *events: bytes):
        """Append raw inotify_event records to the descriptor's unread queue."""
        self.fds[fd]["queue"].extend(events)

    def inotify_fd(self):
        for fd, st in self.fds.items():
            if st["kind"] == "inotify" and st["open"]:
                return fd
        return None

    # ---- os entry points
    def is_fake(self, fd):
        return isinstance(fd, int) and fd in self.fds

    def pipe(self):
        e = self._fault("pipe")
        if e:
            raise OSError(e, _os.strerror(e))
        r = self._new_fd("pipe_r", data=0)
        w = self._new_fd("pipe_w", peer=r)
        return r, w

    def readable(self, fd):
        st = self.fds.get(fd)
        if st is None or not st["open"]:
            return False
        if st["kind"] == "inotify":
            return bool(st["queue"])
        if st["kind"] == "pipe_r":
            return st["data"] > 0
        return False

    def read(self, fd, n, max_events=None):
        st = self._use(fd, "read")
        if st is None:
            raise OSError(_errno.EBADF, "Bad file descriptor")
        if st["kind"] == "inotify":
            if not st["queue"]:
                self.violations.append(f"read of inotify descriptor {fd} that was not readable")
                return b""
            k = st.get("cut") or max_events or len(st["queue"])
            out = b"".join(st["queue"][:k])
            del st["queue"][:k]
            return out
        if st["kind"] == "pipe_r":
            st["data"] = 0
            return b"!"
        raise OSError(_errno.EBADF, "Bad file descriptor")

    def write(self, fd, data):
        st = self._use(fd, "write")
        if st is None:
            raise OSError(_errno.EBADF, "Bad file descriptor")
        if st["kind"] != "pipe_w":
            raise OSError(_errno.EBADF, "Bad file descriptor")
        peer = self.fds[st["peer"]]
        peer["data"] += len(data)
        return len(data)

    def close(self, fd):
        st = self.fds.get(fd)
        if st is None:
            self.violations.append(f"close of unknown descriptor {fd}")
            raise OSError(_errno.EBADF, "Bad file descriptor")
        if not st["open"]:
            self.violations.append(f"double close of descriptor {fd} ({st['kind']})")
            raise OSError(_errno.EBADF, "Bad file descriptor")
        st["open"] = False
        self.log.append(("close", fd))


class _Poll:
    def __init__(self, k: FakeKernel):
        self.k = k
        self.reg: list[int] = []

    def register(self, fd, mask=None):
        self.k._use(fd, "poll.register")
        self.reg.append(fd)

    def unregister(self, fd):
        self.reg.remove(fd)

    def poll(self, timeout=None):
        for fd in self.reg:
            self.k._use(fd, "poll")
        self.k.block(lambda: any(self.k.readable(fd) for fd in self.reg), "poll")
        return [(fd, 1) for fd in self.reg if self.k.readable(fd)]


class _Proxy:
    def __init__(self, real, **over):
        object.__setattr__(self, "_real", real)
        object.__setattr__(self, "_over", over)

    def __getattr__(self, name):
        over = object.__getattribute__(self, "_over")
        if name in over:
            return over[name]
        return getattr(object.__getattribute__(self, "_real"), name)


def install(kernel: FakeKernel):
    """Patch watchdog.observers.inotify_c to talk to `kernel`. Returns an undo function."""
    import ctypes as _ctypes
    import select as _select

    from watchdog.observers import inotify_c

    saved = {n: getattr(inotify_c, n) for n in ("inotify_init", "inotify_add_watch", "inotify_rm_watch", "os",
                                                  "select", "ctypes")}

    def os_read(fd, n):
        return kernel.read(fd, n) if kernel.is_fake(fd) else _os.read(fd, n)

    def os_write(fd, d):
        return kernel.write(fd, d) if kernel.is_fake(fd) else _os.write(fd, d)

    def os_close(fd):
        return kernel.close(fd) if kernel.is_fake(fd) else _os.close(fd)

    inotify_c.inotify_init = kernel.inotify_init
    inotify_c.inotify_add_watch = kernel.inotify_add_watch
    inotify_c.inotify_rm_watch = kernel.inotify_rm_watch
    inotify_c.os = _Proxy(_os, read=os_read, write=os_write, close=os_close, pipe=kernel.pipe)
    inotify_c.select = _Proxy(_select, poll=lambda: _Poll(kernel))
    inotify_c.ctypes = _Proxy(_ctypes, get_errno=lambda: kernel.errno)

    def undo():
        for n, v in saved.items():
            setattr(inotify_c, n, v)

    return undo
