"""Simulated process table behind `subprocess.Popen` and `kill_process` in the watchdog.tricks namespace (C18).

    table = ProcTable(sched, script)        # script[i] = behaviour of the i-th child spawned
    undo = install(table)                   # tricks.subprocess -> proxy with the fake Popen; tricks.kill_process -> fake
    ...
    undo()

Child behaviour (all times in seconds of the scheduler's virtual clock):
    {"self_exit": None | d,      # exits by itself d seconds after it was spawned
     "on_signal": "now" | d | "never"}   # reaction to the stop signal: dies at once / d seconds later / ignores it
SIGKILL (9) always kills at once.  A child's death is a fact of the table (`exit_time`), evaluated lazily against the
virtual clock: the clock only moves to deadlines of waiting threads, and `Popen.wait()` publishes the child's
exit time as its deadline, so no "child thread" is needed.  `kill_process` on a child that is already dead
raises ProcessLookupError (what os.getpgid does for a reaped pid).
Every Spawn / Kill / Exit is logged in `table.log` as (kind, pid, virtual time, scheduler step, extra).
"""
from __future__ import annotations

import subprocess as _real_subprocess
import types


class FakePopen:
    def __init__(self, table, pid, args, beh, now):
        self.table = table
        self.pid = pid
        self.args = args
        self.beh = beh
        self.spawn_time = now
        self.exit_time = None if beh.get("self_exit") is None else now + beh["self_exit"]
        self.exit_cause = None if self.exit_time is None else "self"
        self.returncode = None
        self.signalled = []

    # ---- table side
    def dead(self, now=None):
        now = self.table.now() if now is None else now
        return self.exit_time is not None and self.exit_time <= now + 1e-9

    def _die_at(self, t, cause):
        if self.exit_time is None or t < self.exit_time:
            self.exit_time = t
            self.exit_cause = cause

    # ---- Popen API used by watchdog
    def poll(self):
        # poll() is a system call (waitpid): a scheduling point.  What it reports is the child's state when the
        # thread is resumed, so a check made before calling poll() can be stale by then.
        self.table.sched.yield_point(f"Popen.poll({self.pid})")
        if self.dead():
            if self.returncode is None:
                self.returncode = 0 if self.exit_cause == "self" else -(self.signalled[-1] if self.signalled else 9)
                self.table._log("Reap", self.pid, self.exit_cause)
            return self.returncode
        return None

    def wait(self, timeout=None):
        s = self.table.sched
        if not self.dead():
            dl = self.exit_time
            if timeout is not None:
                dl = s.clock + timeout if dl is None else min(dl, s.clock + timeout)
            s.yield_point(f"Popen.wait({self.pid})", lambda: self.dead(), dl)
            if not self.dead():
                raise _real_subprocess.TimeoutExpired(self.args, timeout)
        return self.poll()


class ProcTable:
    def __init__(self, sched, script, default=None):
        self.sched = sched
        self.script = list(script)
        self.default = default or {"self_exit": None, "on_signal": "now"}
        self.procs: list[FakePopen] = []
        self.log: list[tuple] = []
        self.max_alive = 0

    def now(self):
        return self.sched.clock

    def _log(self, kind, pid, extra=None):
        self.log.append((kind, pid, self.now(), len(self.sched.trace), extra))

    def alive(self, now=None):
        return [p.pid for p in self.procs if not p.dead(now)]

    # ---- fakes
    def popen(self, args, **kw):
        i = len(self.procs)
        beh = self.script[i] if i < len(self.script) else self.default
        p = FakePopen(self, 100 + i, args, beh, self.now())
        self.procs.append(p)
        al = self.alive()
        self.max_alive = max(self.max_alive, len(al))
        self._log("Spawn", p.pid, list(al))
        return p

    def kill_process(self, pid, sig):
        p = next((q for q in self.procs if q.pid == pid), None)
        if p is None or p.dead():
            self._log("KillMiss", pid, sig)
            raise ProcessLookupError(3, "No such process")
        p.signalled.append(sig)
        self._log("Kill", pid, sig)
        if sig == 9:
            p._die_at(self.now(), "sigkill")
        else:
            r = p.beh.get("on_signal", "now")
            if r == "now":
                p._die_at(self.now(), "signal")
            elif r != "never":
                p._die_at(self.now() + r, "signal")

    def intervals(self):
        """(pid, spawn time, spawn step, exit time or None, cause)"""
        sp = {e[1]: e for e in self.log if e[0] == "Spawn"}
        return [(p.pid, p.spawn_time, sp[p.pid][3], p.exit_time, p.exit_cause) for p in self.procs]


def install(table: ProcTable):
    """Rebind the names watchdog.tricks looks up; returns an undo function."""
    import watchdog.tricks as tricks

    proxy = types.SimpleNamespace(**{k: getattr(_real_subprocess, k) for k in dir(_real_subprocess) if not k.startswith("__")})
    proxy.Popen = table.popen
    saved = (tricks.subprocess, tricks.kill_process)
    tricks.subprocess = proxy
    tricks.kill_process = table.kill_process

    def undo():
        tricks.subprocess, tricks.kill_process = saved
    return undo
