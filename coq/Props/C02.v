(* C02 - A recursive watch covers every directory that exists, under its current name.
   Only statements; every proof is `exact <lemma>`.  The theorems are about the model of the REPAIRED reader
   (c_fix_ignored = c_fix_movein = c_fix_simulate = true is the current code of /repo) without add_watch faults
   (c_faults = []), over the file-system + kernel model Fs.v.

   Vocabulary (Proofs/CoverProofs.v):
     wf_fs w        unique paths, unique inodes, fresh inode counter, every path is  d/n  with a valid name n, and
                    every entry that lies below another entry has its parent directory in the file system
     scope C p      p is the root or below it (recursive) / p is the root (non-recursive)
     Cover C t k r  every directory of t in scope has a kernel watch kw (watch_of_ino) with
                    _path_for_wd[kw] = its path and _wd_for_path[its path] = kw          (the C02 invariant)
     WInv C t k r   distinct live wds/inodes, no stale kernel watch, no stale _wd_for_path key, cookies fresh
     RSync C w k r  wf_fs w, the root is a directory, WInv, Cover, kernel queue empty, no move-out candidate pending
                    (pend r = None)
     mask_ok C      the event mask contains IN_CREATE, IN_MOVED_FROM, IN_MOVED_TO (WATCHDOG_ALL does) *)
Require Import WD.Base.Prelude WD.Base.BStr WD.Model.SubEvents WD.Model.Emitter WD.Model.Fs WD.Model.Reader
               WD.Model.Pipeline WD.Proofs.CoverProofs WD.Proofs.CoverOutProofs WD.Proofs.ReplayPipeProofs
               WD.Proofs.C11LagProofs WD.Proofs.TidyCoverProofs
               WD.Proofs.CutsProofs WD.Proofs.CutsReaderProofs WD.Proofs.CutsShapeProofs WD.Proofs.CutsPipeProofs.

(* ---- 1. well-formed file systems are closed under every applicable operation on normal paths *)
Theorem C02_wf_preserved : forall w o w', wf_fs w -> op_np o -> apply_op w o = Some w' -> wf_fs w'.
Proof. exact wf_apply_op. Qed.
Print Assumptions C02_wf_preserved.

(* os.walk over the model lists exactly the directories below p (used by construct and by the moved-in repair) *)
Theorem C02_walk_dirs : forall w p, wf_fs w -> fisdir p (w_fs w) = true ->
  forall x, In x (walk_dirs (w_fs w) p) <->
            exists e, In e (w_fs w) /\ f_path e = x /\ f_dir e = true /\ under p x = true.
Proof. exact walk_dirs_spec. Qed.
Print Assumptions C02_walk_dirs.

(* ---- 2a. Inotify.__init__ establishes the invariant: recursive - every directory below the root; non-recursive - the root *)
Theorem C02_construct_cover : forall C, c_faults C = [] -> forall w, wf_fs w -> fisdir (c_root C) (w_fs w) = true ->
  exists r k, construct C kinit (w_fs w) = Some (r, k) /\ WInv C (w_fs w) k r /\ Cover C (w_fs w) k r /\
              k_queue k = [] /\ mvf r = [] /\ pend r = None.
Proof. exact construct_cover. Qed.
Print Assumptions C02_construct_cover.

(* ---- 2b. one operation followed by one read of the whole kernel queue, from a synchronised state *)
(* Touch, Write, Chmod, Unlink: the watch state is untouched, one raw event per kernel record *)
Theorem C02_step_quiet : forall C w k r o w', RSync C w k r -> op_np o -> quiet_op o -> apply_op w o = Some w' ->
  let k1 := kernel_op k (w_fs w) o in
  exists evs, read_batch C (w_fs w') (r, drainq k1, []) (k_queue k1) = Done (r, drainq k1, evs) /\
              length evs = length (k_queue k1) /\ RSync C w' (drainq k1) r.
Proof. exact step_quiet. Qed.
Print Assumptions C02_step_quiet.

(* Mkdir: the new directory is watched under its path (no other key of _wd_for_path changes) *)
Theorem C02_step_mkdir : forall C, c_faults C = [] -> forall w k r p w', RSync C w k r -> npath p ->
  apply_op w (Mkdir p) = Some w' -> N.land IN_CREATE (c_mask C) <> 0%N ->
  let k1 := kernel_op k (w_fs w) (Mkdir p) in
  exists r' k' evs, read_batch C (w_fs w') (r, drainq k1, []) (k_queue k1) = Done (r', k', evs) /\ RSync C w' k' r' /\
    (forall x, x <> p -> alookup beqb x (wfp r') = alookup beqb x (wfp r)).
Proof. exact step_mkdir. Qed.
Print Assumptions C02_step_mkdir.

(* Rmdir: the entry is gone, kernel watch and both maps are cleaned (RSync includes: no stale watch, no stale key) *)
Theorem C02_step_rmdir : forall C w k r p w', RSync C w k r -> npath p -> p <> c_root C ->
  apply_op w (Rmdir p) = Some w' ->
  let k1 := kernel_op k (w_fs w) (Rmdir p) in
  exists r' k' evs, read_batch C (w_fs w') (r, drainq k1, []) (k_queue k1) = Done (r', k', evs) /\ RSync C w' k' r' /\
    Forall (rsafe C) evs.          (* no raw event announces the end of the root: the pipeline stays alive *)
Proof. exact step_rmdir. Qed.
Print Assumptions C02_step_rmdir.

(* Rename of a file - inside the tree, into it, out of it, replacing a file: both maps unchanged *)
Theorem C02_step_rename_file : forall C w k r p q w' ep, RSync C w k r -> npath p -> npath q ->
  N.land IN_MOVED_FROM (c_mask C) <> 0%N -> N.land IN_MOVED_TO (c_mask C) <> 0%N ->
  apply_op w (Rename p q) = Some w' -> flookup p (w_fs w) = Some ep -> f_dir ep = false ->
  fisdir (dirname p) (w_fs w) = true ->
  let k1 := kernel_op k (w_fs w) (Rename p q) in
  exists r' k' evs, read_batch C (w_fs w') (r, drainq k1, []) (k_queue k1) = Done (r', k', evs) /\ RSync C w' k' r' /\
    wfp r' = wfp r /\ pfw r' = pfw r.
Proof. exact step_rename_file. Qed.
Print Assumptions C02_step_rename_file.

(* Rename of a directory inside the tree (to a fresh name): the moved directory AND every directory below it are
   covered under the new prefix - the re-key loop with the C14 rewrite (replace_first). *)
Theorem C02_step_rename_dir_inside : forall C w k r p q w' ep, RSync C w k r -> npath p -> npath q ->
  c_recursive C = true -> N.land IN_MOVED_FROM (c_mask C) <> 0%N -> N.land IN_MOVED_TO (c_mask C) <> 0%N ->
  apply_op w (Rename p q) = Some w' -> flookup p (w_fs w) = Some ep -> f_dir ep = true ->
  scope C p -> p <> c_root C -> scope C q -> flookup q (w_fs w) = None ->
  let k1 := kernel_op k (w_fs w) (Rename p q) in
  exists r' k' evs, read_batch C (w_fs w') (r, drainq k1, []) (k_queue k1) = Done (r', k', evs) /\ RSync C w' k' r'.
Proof. exact step_rename_dir_inside. Qed.
Print Assumptions C02_step_rename_dir_inside.

(* Rename of a directory of the tree over an EMPTY directory of the tree: the re-key as above; the replaced directory's
   watch is dropped by the kernel and its IN_IGNORED takes its wd out of _path_for_wd while _wd_for_path[q] already
   belongs to the moved directory (the repaired `.get(path) == wd` test of F1 is what makes this work) *)
Theorem C02_step_rename_dir_over : forall C w k r p q w' ep v, RSync C w k r -> npath p -> npath q ->
  c_recursive C = true -> N.land IN_MOVED_FROM (c_mask C) <> 0%N -> N.land IN_MOVED_TO (c_mask C) <> 0%N ->
  apply_op w (Rename p q) = Some w' ->
  flookup p (w_fs w) = Some ep -> f_dir ep = true -> scope C p -> p <> c_root C -> scope C q -> q <> c_root C ->
  flookup q (w_fs w) = Some v -> f_dir v = true ->
  let k1 := kernel_op k (w_fs w) (Rename p q) in
  exists r' k' evs, read_batch C (w_fs w') (r, drainq k1, []) (k_queue k1) = Done (r', k', evs) /\ RSync C w' k' r' /\
    Forall (rsafe C) evs.
Proof. exact step_rename_dir_over. Qed.
Print Assumptions C02_step_rename_dir_over.

(* Rename of a directory into the tree from outside (to a fresh name, repaired code): add_dirs over walk_dirs covers
   the arrived directory and every directory below it *)
Theorem C02_step_rename_dir_in : forall C, c_faults C = [] -> forall w k r p q w' ep, RSync C w k r -> npath p -> npath q ->
  c_recursive C = true -> c_fix_movein C = true ->
  N.land IN_MOVED_FROM (c_mask C) <> 0%N -> N.land IN_MOVED_TO (c_mask C) <> 0%N ->
  apply_op w (Rename p q) = Some w' ->
  flookup p (w_fs w) = Some ep -> f_dir ep = true -> ~ scope C p -> under p (c_root C) = false -> scope C q ->
  flookup q (w_fs w) = None ->
  let k1 := kernel_op k (w_fs w) (Rename p q) in
  exists r' k' evs, read_batch C (w_fs w') (r, drainq k1, []) (k_queue k1) = Done (r', k', evs) /\ RSync C w' k' r'.
Proof. exact step_rename_dir_in. Qed.
Print Assumptions C02_step_rename_dir_in.

(* ... and OVER an empty directory v of the tree: while the reader installs the watches of the arrived tree it still records
   v under q (the kernel has already dropped v's watch); the first add_watch overwrites _wd_for_path[q], the IN_ATTRIB /
   IN_DELETE_SELF of v are reported under q, its IN_IGNORED removes the stale key of _path_for_wd and leaves the new
   _wd_for_path[q] alone.  This is a constructor of covered_op (co_rename_dir_in_over), hence an operation of every
   sequential / pipeline / cuts theorem below. *)
Theorem C02_step_rename_dir_in_over : forall C, c_faults C = [] -> forall w k r p q w' ep v, RSync C w k r -> npath p -> npath q ->
  c_recursive C = true -> c_fix_movein C = true ->
  N.land IN_MOVED_FROM (c_mask C) <> 0%N -> N.land IN_MOVED_TO (c_mask C) <> 0%N ->
  apply_op w (Rename p q) = Some w' ->
  flookup p (w_fs w) = Some ep -> f_dir ep = true -> ~ scope C p -> under p (c_root C) = false -> scope C q -> q <> c_root C ->
  flookup q (w_fs w) = Some v -> f_dir v = true ->
  let k1 := kernel_op k (w_fs w) (Rename p q) in
  exists r' k' evs, read_batch C (w_fs w') (r, drainq k1, []) (k_queue k1) = Done (r', k', evs) /\ RSync C w' k' r' /\
    Forall (rsafe C) evs.
Proof. exact step_rename_dir_in_over. Qed.
Print Assumptions C02_step_rename_dir_in_over.

(* Rename of a directory out of the tree: everything under the root is still covered; the departed sub-tree's watches
   and map entries are still there and the move-out candidate is set (pend = Some (cookie, old path)): the next record
   the reader processes forgets them (repair of F10; C02_out_pending / C02_pending_step below).  Pinned code
   (c_fix_moveout = false): pend stays None and they stay behind for ever. *)
Theorem C02_step_rename_dir_out : forall C w k r p q w' ep, RSync C w k r -> npath p -> npath q -> c_recursive C = true ->
  N.land IN_MOVED_FROM (c_mask C) <> 0%N -> N.land IN_MOVED_TO (c_mask C) <> 0%N ->
  apply_op w (Rename p q) = Some w' -> flookup p (w_fs w) = Some ep -> f_dir ep = true ->
  scope C p -> p <> c_root C -> ~ scope C q ->
  let k1 := kernel_op k (w_fs w) (Rename p q) in
  exists r' k' evs, read_batch C (w_fs w') (r, drainq k1, []) (k_queue k1) = Done (r', k', evs) /\
    wf_fs w' /\ isdir_in (c_root C) (w_fs w') /\ Cover C (w_fs w') k' r' /\ k_queue k' = [] /\
    wfp r' = wfp r /\ pfw r' = pfw r /\ k_watches k' = k_watches k /\
    pend r' = (if c_fix_moveout C then Some (k_next_cookie k, p) else None) /\
    mvf r' = aset N.eqb (k_next_cookie k) p (mvf r) /\ k_next_wd k' = k_next_wd k /\
    k_next_cookie k' = (k_next_cookie k + 1)%N /\ Forall (rsafe C) evs.
Proof. exact step_rename_dir_out. Qed.
Print Assumptions C02_step_rename_dir_out.

(* Rename of a directory under a non-recursive watch, or entirely outside the tree (target absent or an empty
   directory): both maps unchanged *)
Theorem C02_step_rename_dir_plain : forall C w k r p q w' ep, RSync C w k r -> npath p -> npath q ->
  N.land IN_MOVED_FROM (c_mask C) <> 0%N -> N.land IN_MOVED_TO (c_mask C) <> 0%N ->
  apply_op w (Rename p q) = Some w' -> flookup p (w_fs w) = Some ep -> f_dir ep = true ->
  p <> c_root C -> q <> c_root C -> under p (c_root C) = false ->
  (c_recursive C = false \/ (~ scope C p /\ ~ scope C q)) ->
  let k1 := kernel_op k (w_fs w) (Rename p q) in
  exists r' k' evs, read_batch C (w_fs w') (r, drainq k1, []) (k_queue k1) = Done (r', k', evs) /\ RSync C w' k' r' /\
    wfp r' = wfp r /\ pfw r' = pfw r.
Proof. exact step_rename_dir_plain. Qed.
Print Assumptions C02_step_rename_dir_plain.

(* the re-key loop by itself: run on its own key list, every binding below src moves to the same suffix below dst
   (j2 of RK), _path_for_wd follows, nothing else changes (j1, j3), and no key below src is left *)
Theorem C02_rekey_loop : forall src dst, src <> [] -> (forall rest, under src (dst ++ sep :: rest) = false) ->
  forall r0, (forall x wd, alookup beqb x (wfp r0) = Some wd -> under dst x = false) ->
  (forall x y wd, alookup beqb x (wfp r0) = Some wd -> alookup beqb y (wfp r0) = Some wd -> x = y) ->
  let r := rekey_loop (wfp r0) src dst r0 in
  RK src dst r0 r /\ (forall x, under src x = true -> alookup beqb x (wfp r) = None).
Proof. exact rekey_all. Qed.
Print Assumptions C02_rekey_loop.

(* all proved operation kinds in one statement (covered_op lists them with their side conditions) *)
Theorem C02_cover_step : forall C, c_faults C = [] -> forall w k r o w', mask_ok C -> RSync C w k r ->
  covered_op C w o -> apply_op w o = Some w' ->
  let k1 := kernel_op k (w_fs w) o in
  exists r' k' evs, read_batch C (w_fs w') (r, drainq k1, []) (k_queue k1) = Done (r', k', evs) /\ RSync C w' k' r' /\
    Forall (rsafe C) evs.
Proof. exact cover_step_safe. Qed.
Print Assumptions C02_cover_step.

(* the same on the pipeline: [AOp o; ARead (whole queue)] from a state whose reader-side buffer is idle *)
Theorem C02_cover_step_pipeline : forall P s o w', let C := pc_reader P in
  c_faults C = [] -> mask_ok C -> RSync C (p_world s) (p_k s) (p_r s) -> buf_ready (p_buf s) ->
  covered_op C (p_world s) o -> apply_op (p_world s) o = Some w' ->
  exists s' obs,
    prun P s [AOp o; ARead (length (k_queue (kernel_op (p_k s) (w_fs (p_world s)) o)))] [] = Done (s', obs) /\
    p_world s' = w' /\ RSync C (p_world s') (p_k s') (p_r s') /\ Cover C (w_fs (p_world s')) (p_k s') (p_r s').
Proof. exact pipe_cover_step. Qed.
Print Assumptions C02_cover_step_pipeline.

(* ---- 2c. sequential histories of any length: every operation is followed by a read of the whole queue.
   FULL statement: for every history of applicable operations on normal paths that leave the root and its ancestors
   alone, Cover holds at the end. *)
Definition C02_cover_sequential_full : Prop :=
  forall C, c_faults C = [] -> c_fix_ignored C = true -> c_fix_movein C = true -> c_fix_simulate C = true -> mask_ok C ->
  forall ops w, wf_fs w -> fisdir (c_root C) (w_fs w) = true ->
  Forall (fun o => op_np o /\ op_keeps_root C o) ops ->
  exists r0 k0 w' k' r', construct C kinit (w_fs w) = Some (r0, k0) /\ rrun C w k0 r0 ops = Some (w', k', r') /\
                         Cover C (w_fs w') k' r'.
(* PROVED PART: the extra hypothesis is [ops_covered]: every applicable operation of the history is one of
   Touch / Write / Chmod / Unlink / Mkdir / Rmdir (not the root) / Rename of a file (any direction, replacing or not) /
   Rename of a directory inside the tree to a fresh name (recursive watch) / into the tree from outside to a fresh name
   (recursive watch, repaired code) / under a non-recursive watch / entirely outside the tree.
   / over an empty directory of the tree (from inside the tree, or from outside: C02_step_rename_dir_in_over).
   This is the version from a synchronised state without directory move-outs (weaker mask hypothesis); histories with
   move-outs: C02_cover_sequential_partial below.
   NOT covered: operations on the root itself. *)
Theorem C02_cover_sequential_synced_partial : forall C, c_faults C = [] -> forall ops, mask_ok C -> forall w k r,
  RSync C w k r -> ops_covered C w ops ->
  exists w' k' r', rrun C w k r ops = Some (w', k', r') /\ RSync C w' k' r'.
Proof. exact cover_sequential. Qed.
Print Assumptions C02_cover_sequential_synced_partial.

Theorem C02_cover_from_start_synced_partial : forall C, c_faults C = [] -> forall ops w, mask_ok C -> wf_fs w ->
  fisdir (c_root C) (w_fs w) = true -> ops_covered C w ops ->
  exists r0 k0 w' k' r', construct C kinit (w_fs w) = Some (r0, k0) /\ rrun C w k0 r0 ops = Some (w', k', r') /\
                         wf_fs w' /\ Cover C (w_fs w') k' r'.
Proof. exact cover_from_start. Qed.
Print Assumptions C02_cover_from_start_synced_partial.

(* the same on the Pipeline model, through DelayQueue and Grouping: one block  AOp o; ARead (whole queue); ATick delay;
   AEmit x nit  per applicable operation; after every block the pipeline is synchronised and idle again (PSync) *)
Theorem C02_cover_sequential_pipeline_synced_partial : forall P, let C := pc_reader P in
  c_faults C = [] -> mask_ok C -> pc_filter P = None ->
  forall ops s, PSync P s -> ops_covered C (p_world s) ops ->
  exists h s' obs, block_hist P s ops h /\ prun P s h [] = Done (s', obs) /\ PSync P s' /\
    Cover C (w_fs (p_world s')) (p_k s') (p_r s').
Proof. exact blocks_cover. Qed.
Print Assumptions C02_cover_sequential_pipeline_synced_partial.

(* the state right after Inotify.__init__ is such a state *)
Theorem C02_pinit_sync : forall P w s0, c_faults (pc_reader P) = [] -> wf_fs w ->
  fisdir (c_root (pc_reader P)) (w_fs w) = true -> pinit P w = Some s0 -> PSync P s0 /\ p_world s0 = w /\ p_out s0 = [].
Proof. exact pinit_sync. Qed.
Print Assumptions C02_pinit_sync.

(* ================================================================== past directory move-outs (the repair of F10) *)
(* Vocabulary (Proofs/CoverOutProofs.v), current code only (c_fix_moveout = true):
     JSync C w k r       RSync up to junk: the kernel queue may hold IN_IGNORED records of descriptors the reader has
                         forgotten (unknown to _path_for_wd, no live watch) - they are skipped when read
     POut C w k r h c p  right after a directory left the tree: pend r = Some (c, p), kernel queue empty, Cover holds, the
                         departed sub-tree's watches and map entries are still there (they sit on directories at/below h),
                         and forgetting them (forget_tree) yields a synchronised state
     GS C w k r hot      hot = None: JSync; hot = Some h: POut for some (c, p)
     step_ok C w hot o   hot = None: covered_op or a directory of the tree moved out (covered_x);
                         hot = Some h: covered_op, acting in a directory of the tree (watched_parent - so it produces
                         a record) and notifying no directory at or below h
     hot_next            Some q after a directory move-out to q from a settled state, None otherwise *)

(* every covered step works from a state that is synchronised up to junk, and ends synchronised *)
Theorem C02_step_junk : forall C, c_faults C = [] -> c_fix_moveout C = true -> forall w k r o w', mask_ok C ->
  JSync C w k r -> covered_op C w o -> apply_op w o = Some w' ->
  let k1 := kernel_op k (w_fs w) o in
  exists r' k' evs, read_batch C (w_fs w') (r, drainq k1, []) (k_queue k1) = Done (r', k', evs) /\ RSync C w' k' r' /\
    Forall (rsafe C) evs.
Proof. exact cover_step_junk. Qed.
Print Assumptions C02_step_junk.

(* a directory of the tree moved out: the candidate is pending *)
Theorem C02_out_pending : forall C, c_fix_moveout C = true -> forall w k r p q w' ep,
  RSync C w k r -> npath p -> npath q -> c_recursive C = true ->
  N.land IN_MOVED_FROM (c_mask C) <> 0%N -> N.land IN_MOVED_TO (c_mask C) <> 0%N ->
  apply_op w (Rename p q) = Some w' -> flookup p (w_fs w) = Some ep -> f_dir ep = true ->
  scope C p -> p <> c_root C -> ~ scope C q ->
  let k1 := kernel_op k (w_fs w) (Rename p q) in
  exists r' k' evs, read_batch C (w_fs w') (r, drainq k1, []) (k_queue k1) = Done (r', k', evs) /\
    POut C w' k' r' q (k_next_cookie k) p /\ Forall (rsafe C) evs.
Proof. exact out_pout. Qed.
Print Assumptions C02_out_pending.

(* the next operation's first record forgets the departed sub-tree: synchronised again (up to the IN_IGNORED records
   the kernel queued for the forgotten descriptors), with exactly the events of the state in which the sub-tree was
   already forgotten *)
Theorem C02_pending_step : forall C, c_faults C = [] -> c_fix_moveout C = true -> forall w k r h c p o w', mask_ok C ->
  POut C w k r h c p -> covered_op C w o -> (forall d, In d (notified o) -> blw h d = false) -> apply_op w o = Some w' ->
  let k1 := kernel_op k (w_fs w) o in k_queue k1 <> [] ->
  exists r' k' evs, read_batch C (w_fs w') (r, drainq k1, []) (k_queue k1) = Done (r', k', evs) /\
    JSync C w' k' r' /\ Forall (rsafe C) evs /\
    exists kc rc k2, RSync C w kc rc /\
      read_batch C (w_fs w') (rc, drainq (kernel_op kc (w_fs w) o), []) (k_queue (kernel_op kc (w_fs w) o)) = Done (r', k2, evs).
Proof. exact pout_step. Qed.
Print Assumptions C02_pending_step.

(* an operation acting in a directory of the tree produces a record (full mask) *)
Theorem C02_record_produced : forall C w k r o, c_mask C = WATCHDOG_ALL -> wf_fs w -> Cover C (w_fs w) k r ->
  (forall kw, In kw (k_watches k) -> kw_mask kw = c_mask C) -> watched_parent C w o ->
  k_queue (kernel_op k (w_fs w) o) <> [].
Proof. exact record_produced. Qed.
Print Assumptions C02_record_produced.

(* ---- 2c past move-outs: histories of any length, every operation followed by a read of the whole queue; a directory
   move-out may be followed by anything in step_ok (re-creating the old name, moving the directory back in, renaming
   a former ancestor, ...).  Extra hypotheses w.r.t. C02_cover_sequential_full: the operation kinds of covered_op /
   move-out; the full event mask; the operation right after a move-out acts in a directory of the tree and not inside
   the departed directory. *)
Theorem C02_cover_sequential_partial : forall C, c_faults C = [] -> c_fix_moveout C = true -> c_mask C = WATCHDOG_ALL ->
  forall ops w k r hot, GS C w k r hot -> ops_x C w hot ops ->
  exists w' k' r' hot', rrun C w k r ops = Some (w', k', r') /\ GS C w' k' r' hot'.
Proof. exact cover_sequential_x. Qed.
Print Assumptions C02_cover_sequential_partial.

Theorem C02_cover_from_start_partial : forall C, c_faults C = [] -> c_fix_moveout C = true -> forall ops w,
  c_mask C = WATCHDOG_ALL -> wf_fs w -> fisdir (c_root C) (w_fs w) = true -> ops_x C w None ops ->
  exists r0 k0 w' k' r', construct C kinit (w_fs w) = Some (r0, k0) /\ rrun C w k0 r0 ops = Some (w', k', r') /\
                         wf_fs w' /\ Cover C (w_fs w') k' r'.
Proof. exact cover_from_start_x. Qed.
Print Assumptions C02_cover_from_start_partial.

(* ---- 2d. no stale descriptor in the reader's tables (what C11's tidy_from asks of the unfiltered run).
   tables_live k r := every key of _path_for_wd (pfw r) and every value of _wd_for_path (wfp r) - every entry of the two
   association lists - is the wd of a kernel watch of k.  It is part of the watch invariant WInv (clauses wi_pfw, wi_keys
   and wi_tight), hence of RSync; it holds in JSync states (the junk IN_IGNORED records are about descriptors that are in
   neither table) and, in the pending state right after a directory move-out, of the SETTLED state (the departed
   sub-tree forgotten: what the next record's settle_pending produces; C11's normal form). *)
Theorem C02_tables_live_synced : forall C w k r, RSync C w k r -> tables_live k r.
Proof. exact RSync_tables_live. Qed.
Print Assumptions C02_tables_live_synced.

Theorem C02_tables_live_inv : forall C w k r hot, GS C w k r hot -> tables_live (snd (settled r k)) (fst (settled r k)).
Proof. exact GS_tables_live. Qed.
Print Assumptions C02_tables_live_inv.

(* at every drained point (live_along) of the histories of C02_cover_from_start_partial, from construct() *)
Theorem C02_tables_live : forall C, c_faults C = [] -> c_fix_moveout C = true -> forall ops w,
  c_mask C = WATCHDOG_ALL -> wf_fs w -> fisdir (c_root C) (w_fs w) = true -> ops_x C w None ops ->
  exists r0 k0, construct C kinit (w_fs w) = Some (r0, k0) /\ live_along C w k0 r0 ops.
Proof. exact tables_live_from_start. Qed.
Print Assumptions C02_tables_live.

(* the same in C11's vocabulary: the hypothesis tidy_from of the C11 history theorems holds on these histories *)
Theorem C02_tidy_from : forall C full, c_faults C = [] -> c_fix_moveout C = true -> c_mask C = WATCHDOG_ALL ->
  forall ops w, wf_fs w -> fisdir (c_root C) (w_fs w) = true -> ops_x C w None ops -> tidy_from C full w ops.
Proof. exact tidy_from_covered. Qed.
Print Assumptions C02_tidy_from.

(* on the Pipeline model: one block AOp o; ARead (whole queue); ATick delay; AEmit x nit per applicable operation *)
Theorem C02_cover_sequential_pipeline_partial : forall P, let C := pc_reader P in
  c_faults C = [] -> c_fix_moveout C = true -> c_mask C = WATCHDOG_ALL -> pc_filter P = None ->
  forall ops s hot, PSx P s hot -> ops_x C (p_world s) hot ops ->
  exists h s' obs hot', block_hist_x P s ops h /\ prun P s h [] = Done (s', obs) /\ PSx P s' hot' /\
    Cover C (w_fs (p_world s')) (p_k s') (p_r s').
Proof. exact blocks_cover_x. Qed.
Print Assumptions C02_cover_sequential_pipeline_partial.

Theorem C02_pinit_psx : forall P w s0, c_faults (pc_reader P) = [] -> c_fix_moveout (pc_reader P) = true -> wf_fs w ->
  fisdir (c_root (pc_reader P)) (w_fs w) = true -> pinit P w = Some s0 -> PSx P s0 None /\ p_world s0 = w /\ p_out s0 = [].
Proof. exact pinit_psx. Qed.
Print Assumptions C02_pinit_psx.

(* the pinned code (cfgo false: c_fix_moveout = false AND c_fix_relabel = false, the code before the repairs of F10 and
   F10e; either repair alone covers this history, C02_f10d_either_repair) on the F10d history  mkdir R/b; mkdir R/b/b; mv R/b/b O/x; mv O/x R/n;
   mv R/b R/m; touch R/n/f : R/n is not covered at the end (its descriptor was re-keyed through the stale entry) *)
Theorem C02_f10d_pinned_refuted :
  exists w' k' r', run_ops (cfgo false) f10d_ops = Some (w', k', r') /\ k_queue k' = [] /\ ~ Cover (cfgo false) (w_fs w') k' r'.
Proof. exact f10d_pinned_refuted. Qed.
Print Assumptions C02_f10d_pinned_refuted.

Example C02_f10d_either_repair :
  (exists w' k' r', run_ops (cfgo2 false true) f10d_ops = Some (w', k', r') /\ Cover (cfgo2 false true) (w_fs w') k' r') /\
  (exists w' k' r', run_ops (cfgo2 true false) f10d_ops = Some (w', k', r') /\ Cover (cfgo2 true false) (w_fs w') k' r').
Proof. exact f10d_either_repair. Qed.

(* pinned code, F10b history  mkdir R/b; mv R/b O/x; mkdir R/b; mv R/b R/a : the departed directory keeps its kernel
   watch for ever (3 watches for the 2 directories of the tree); does not depend on c_fix_relabel *)
Theorem C02_f10b_pinned_stale :
  exists w' k' r', run_ops (cfgo false) f10b_ops = Some (w', k', r') /\ length (k_watches k') = 3%nat /\
    length (filter (fun e => f_dir e && scopeb (cfgo false) (f_path e)) (w_fs w')) = 2%nat.
Proof. exact f10b_pinned_stale. Qed.
Print Assumptions C02_f10b_pinned_stale.

(* ---- 2d. the probe: from a synchronised state, creating a fresh file [name] in ANY directory in scope makes the reader
   produce, first, a raw IN_CREATE event whose src_path is the real path d/name; the emitter turns it into
   FileCreatedEvent(d/name) + DirModifiedEvent(d). *)
Theorem C02_probe : forall C w k r de name w', RSync C w k r -> c_mask C = WATCHDOG_ALL ->
  In de (w_fs w) -> f_dir de = true -> scope C (f_path de) -> valid_name name = true ->
  let p := f_path de ++ sep :: name in
  apply_op w (Touch p) = Some w' ->
  let k1 := kernel_op k (w_fs w) (Touch p) in
  exists wd rest,
    let ev := {| r_wd := wd; r_mask := IN_CREATE; r_cookie := 0; r_name := name; r_path := p |} in
    read_batch C (w_fs w') (r, drainq k1, []) (k_queue k1) = Done (r, drainq k1, ev :: rest) /\
    forall full rec content, emit_single full rec (c_root C) content ev = ([mk FileCreated p []; parent_modified p], false).
Proof. exact probe. Qed.
Print Assumptions C02_probe.

(* non-recursive watch: creating something in a directory other than the root produces no kernel event at all,
   and every kernel watch is the root's *)
Theorem C02_flat : forall C w k r p w', RSync C w k r -> c_recursive C = false -> dirname p <> c_root C ->
  (apply_op w (Touch p) = Some w' -> k_queue (kernel_op k (w_fs w) (Touch p)) = []) /\
  (apply_op w (Mkdir p) = Some w' -> k_queue (kernel_op k (w_fs w) (Mkdir p)) = []).
Proof. exact flat. Qed.
Print Assumptions C02_flat.

Theorem C02_flat_watches : forall C w k r, RSync C w k r -> c_recursive C = false ->
  forall kw, In kw (k_watches k) -> alookup N.eqb (kw_wd kw) (pfw r) = Some (c_root C).
Proof. exact flat_watches. Qed.
Print Assumptions C02_flat_watches.

(* ---- 2e. the pinned code (c_fix_movein = false): a directory moved in from outside is never watched - Cover fails *)
Theorem C02_pinned_movein_refuted :
  exists C w ops, c_fix_movein C = false /\ c_fix_ignored C = true /\ c_fix_simulate C = true /\ c_faults C = [] /\
    mask_ok C /\ wf_fs w /\ fisdir (c_root C) (w_fs w) = true /\
    exists r0 k0 w' k' r', construct C kinit (w_fs w) = Some (r0, k0) /\ rrun C w k0 r0 ops = Some (w', k', r') /\
                           ~ Cover C (w_fs w') k' r'.
Proof. exact pinned_movein_refuted. Qed.
Print Assumptions C02_pinned_movein_refuted.

(* pinned code, mkdir a; rename a b before the first read: b is never watched *)
Theorem C02_pinned_mkdir_rename_refuted :
  exists s0 s obs, pinit (Px false) w0 = Some s0 /\
    prun (Px false) s0 [AOp (Mkdir (sub pR 97)); AOp (Rename (sub pR 97) (sub pR 98)); ARead 3] [] = Done (s, obs) /\
    k_queue (p_k s) = [] /\ ~ Cover (cfgx true false) (w_fs (p_world s)) (p_k s) (p_r s).
Proof. exact mkdir_rename_pinned_refuted. Qed.
Print Assumptions C02_pinned_mkdir_rename_refuted.

(* the operation kinds of the FULL step statement that are not proved in general, stated as Props, with the
   repaired model's behaviour on concrete instances below (C02_movein_example, C02_mkdir_rename_example) *)
Definition C02_step_full : Prop :=
  forall C, c_faults C = [] -> c_fix_ignored C = true -> c_fix_movein C = true -> c_fix_simulate C = true -> mask_ok C ->
  forall w k r o w', RSync C w k r -> op_np o -> op_keeps_root C o -> apply_op w o = Some w' ->
  let k1 := kernel_op k (w_fs w) o in
  exists r' k' evs, read_batch C (w_fs w') (r, drainq k1, []) (k_queue k1) = Done (r', k', evs) /\
                    wf_fs w' /\ Cover C (w_fs w') k' r'.

(* ---- non-vacuity *)
Example C02_w0_wf : wf_fs w0 /\ fisdir (c_root (cfgx true true)) (w_fs w0) = true /\ mask_ok (cfgx true true).
Proof. split; [exact w0_wf|]. split; [reflexivity|]. repeat split; vm_compute; discriminate. Qed.

(* the repaired code on the moved-in directory tree: the arrived directory and its sub-directory are covered *)
Example C02_movein_example :
  exists r0 k0 w' k' r', construct (cfgx true true) kinit (w_fs w0) = Some (r0, k0) /\
    rrun (cfgx true true) w0 k0 r0 [Rename (sub pO 100) (sub pR 100)] = Some (w', k', r') /\
    Cover (cfgx true true) (w_fs w') k' r' /\ fisdir (sub (sub pR 100) 101) (w_fs w') = true.
Proof. exact repaired_movein_example. Qed.

(* the pacing exception: mkdir a; rename a b; then the first read - the repaired MOVED_TO branch watches b *)
Example C02_mkdir_rename_example :
  exists s0 s obs, pinit (Px true) w0 = Some s0 /\
    prun (Px true) s0 [AOp (Mkdir (sub pR 97)); AOp (Rename (sub pR 97) (sub pR 98)); ARead 3] [] = Done (s, obs) /\
    fisdir (sub pR 98) (w_fs (p_world s)) = true /\ k_queue (p_k s) = [] /\
    Cover (cfgx true true) (w_fs (p_world s)) (p_k s) (p_r s).
Proof. exact mkdir_rename_example. Qed.

(* a history that exercises every constructor of covered_op (hypothesis of C02_cover_from_start_partial) *)
Example C02_ops_covered_nonvacuous :
  ops_covered (cfgx true true) w0
    [Mkdir (sub pR 97); Mkdir (sub (sub pR 97) 99); Touch (sub (sub pR 97) 102);
     Rename (sub pR 97) (sub pR 98);                                   (* directory with a sub-directory and a file *)
     Rename (sub (sub pR 98) 102) (sub pR 102);                        (* file *)
     Unlink (sub pR 102); Rmdir (sub (sub pR 98) 99); Rmdir (sub pR 98)].
Proof.
  assert (GR : gpath pR) by (split; [discriminate | reflexivity]).
  assert (Na : forall n, valid_name [n] = true -> npath (sub pR n)) by (intros; now apply npath_sub).
  assert (Nb : forall m n, valid_name [m] = true -> valid_name [n] = true -> npath (sub (sub pR m) n)).
  { intros. apply npath_sub; [apply npath_gpath; now apply Na | assumption]. }
  eapply ops_covered_cons; [vm_compute; reflexivity | apply co_mkdir; now apply Na |].
  eapply ops_covered_cons; [vm_compute; reflexivity | apply co_mkdir; now apply Nb |].
  eapply ops_covered_cons; [vm_compute; reflexivity | apply co_quiet; [exact I | now apply Nb] |].
  eapply ops_covered_cons; [vm_compute; reflexivity | |].
  { eapply co_rename_dir; try (now apply Na); try reflexivity; try (vm_compute; reflexivity);
      try (right; vm_compute; reflexivity); try (vm_compute; discriminate). }
  eapply ops_covered_cons; [vm_compute; reflexivity | |].
  { eapply co_rename_file; try (now apply Na); try (now apply Nb); try (vm_compute; reflexivity). }
  eapply ops_covered_cons; [vm_compute; reflexivity | apply co_quiet; [exact I | now apply Na] |].
  eapply ops_covered_cons; [vm_compute; reflexivity | apply co_rmdir; [now apply Nb | vm_compute; discriminate] |].
  eapply ops_covered_cons; [vm_compute; reflexivity | apply co_rmdir; [now apply Na | vm_compute; discriminate] |].
  exact I.
Qed.

(* the directory moves: entirely outside the tree, then into the tree *)
Example C02_ops_covered_dir_moves_nonvacuous :
  ops_covered (cfgx true true) w0
    [Rename (sub (sub pO 100) 101) (sub pO 101); Rename (sub pO 100) (sub pR 100);
     Mkdir (sub pR 97); Rename (sub pR 100) (sub pR 97)].                     (* over the empty directory a *)
Proof.
  assert (GR : gpath pR) by (split; [discriminate | reflexivity]).
  assert (GO : gpath pO) by (split; [discriminate | reflexivity]).
  assert (Na : forall n, valid_name [n] = true -> npath (sub pR n)) by (intros; now apply npath_sub).
  assert (No : forall n, valid_name [n] = true -> npath (sub pO n)) by (intros; now apply npath_sub).
  assert (Nb : forall m n, valid_name [m] = true -> valid_name [n] = true -> npath (sub (sub pO m) n)).
  { intros. apply npath_sub; [apply npath_gpath; now apply No | assumption]. }
  eapply ops_covered_cons; [vm_compute; reflexivity | |].
  { eapply co_rename_dir_plain; try (now apply No); try (now apply Nb); try (vm_compute; reflexivity);
      try (vm_compute; discriminate).
    right. split; intros [H|H]; vm_compute in H; discriminate. }
  eapply ops_covered_cons; [vm_compute; reflexivity | |].
  { eapply co_rename_dir_in; try (now apply No); try (now apply Na); try reflexivity; try (vm_compute; reflexivity);
      try (right; vm_compute; reflexivity).
    intros [H|H]; vm_compute in H; discriminate. }
  eapply ops_covered_cons; [vm_compute; reflexivity | apply co_mkdir; now apply Na |].
  eapply ops_covered_cons; [vm_compute; reflexivity | |].
  { eapply co_rename_dir_over; try (now apply Na); try reflexivity; try (vm_compute; reflexivity);
      try (right; vm_compute; reflexivity); try (vm_compute; discriminate). }
  exact I.
Qed.

(* ---- the F10 histories on the repaired model *)
Example C02_f10d_repaired :
  exists w' k' r', run_ops (cfgo true) f10d_ops = Some (w', k', r') /\ k_queue k' = [] /\ pend r' = None /\
    Cover (cfgo true) (w_fs w') k' r' /\ length (k_watches k') = 3%nat.
Proof. exact f10d_repaired. Qed.

Example C02_f10b_repaired :
  exists w' k' r', run_ops (cfgo true) f10b_ops = Some (w', k', r') /\ length (k_watches k') = 2%nat /\
    Cover (cfgo true) (w_fs w') k' r' /\ k_queue k' = [] /\ pend r' = None.
Proof. exact f10b_repaired. Qed.

(* they satisfy the hypothesis of C02_cover_from_start_partial / C02_tables_live / C02_tidy_from *)
Example C02_f10_ops_x_nonvacuous : ops_x (cfgo true) w0 None f10b_ops /\ ops_x (cfgo true) w0 None f10d_ops.
Proof.
  assert (GR : gpath pR) by (split; [discriminate | reflexivity]).
  assert (GO : gpath pO) by (split; [discriminate | reflexivity]).
  assert (Na : forall n, valid_name [n] = true -> npath (sub pR n)) by (intros; now apply npath_sub).
  assert (No : forall n, valid_name [n] = true -> npath (sub pO n)) by (intros; now apply npath_sub).
  assert (Nb : forall m n, valid_name [m] = true -> valid_name [n] = true -> npath (sub (sub pR m) n)).
  { intros. apply npath_sub; [apply npath_gpath; now apply Na | assumption]. }
  assert (NS : forall p, ~ scope (cfgo true) (sub pO p)) by (intros p [H|H]; vm_compute in H; discriminate).
  split.
  - unfold f10b_ops.
    eapply ops_x_cons; [vm_compute; reflexivity | apply cx_op, co_mkdir; now apply Na |].
    eapply ops_x_cons; [vm_compute; reflexivity | |].
    { eapply cx_out; try (now apply Na); try (now apply No); try reflexivity; try (vm_compute; reflexivity);
        try (right; vm_compute; reflexivity); try (vm_compute; discriminate). apply NS. }
    vm_compute hot_next.
    eapply ops_x_cons; [vm_compute; reflexivity | |].
    { split; [apply co_mkdir; now apply Na|]. split.
      - exists pR. split; [now left|]. split; [now left | reflexivity].
      - intros d [<-|[]]. vm_compute. reflexivity. }
    vm_compute hot_next.
    eapply ops_x_cons; [vm_compute; reflexivity | |].
    { apply cx_op. eapply co_rename_dir; try (now apply Na); try reflexivity; try (vm_compute; reflexivity);
        try (right; vm_compute; reflexivity); try (vm_compute; discriminate). }
    exact I.
  - unfold f10d_ops.
    eapply ops_x_cons; [vm_compute; reflexivity | apply cx_op, co_mkdir; now apply Na |].
    eapply ops_x_cons; [vm_compute; reflexivity | apply cx_op, co_mkdir; now apply Nb |].
    eapply ops_x_cons; [vm_compute; reflexivity | |].
    { eapply cx_out; try (now apply Nb); try (now apply No); try reflexivity; try (vm_compute; reflexivity);
        try (right; vm_compute; reflexivity); try (vm_compute; discriminate). apply NS. }
    vm_compute hot_next.
    eapply ops_x_cons; [vm_compute; reflexivity | |].
    { split; [|split].
      - eapply co_rename_dir_in; try (now apply Na); try (now apply No); try reflexivity; try (vm_compute; reflexivity);
          try (right; vm_compute; reflexivity). apply NS.
      - exists pR. split; [right; now left|]. split; [now left | reflexivity].
      - intros d [<-|[<-|[<-|[]]]]; vm_compute; reflexivity. }
    vm_compute hot_next.
    eapply ops_x_cons; [vm_compute; reflexivity | |].
    { apply cx_op. eapply co_rename_dir; try (now apply Na); try reflexivity; try (vm_compute; reflexivity);
        try (right; vm_compute; reflexivity); try (vm_compute; discriminate). }
    eapply ops_x_cons; [vm_compute; reflexivity | |].
    { apply cx_op. apply co_quiet; [exact I | now apply Nb]. }
    exact I.
Qed.

(* hence the F10 histories are tidy in the sense of C11 (an instance of C02_tidy_from, not a computation) *)
Example C02_tidy_from_f10 : forall full, tidy_from (cfgo true) full w0 f10b_ops /\ tidy_from (cfgo true) full w0 f10d_ops.
Proof.
  intros full. split.
  - apply C02_tidy_from; [reflexivity | reflexivity | reflexivity | exact w0_wf | vm_compute; reflexivity
                           | exact (proj1 C02_f10_ops_x_nonvacuous)].
  - apply C02_tidy_from; [reflexivity | reflexivity | reflexivity | exact w0_wf | vm_compute; reflexivity
                           | exact (proj2 C02_f10_ops_x_nonvacuous)].
Qed.

(* ================================================================== how the kernel's buffer is split between reads *)
(* reader level: the records of one operation read in several reads (rcut: read j takes the next n_j records, the reader's
   kernel holds the unread rest, every read starts with an empty event list; no operation in between) leave the reader
   and its kernel exactly where one big read leaves them, and the events of the reads, concatenated, are the events of
   the big read.  ignfree: the IN_IGNORED records in the queue are about descriptors that are no longer watched (true
   after every operation from every state of the sequential invariant: C02_kernel_frame). *)
Theorem C02_cut_reads : forall C, c_fix_moveout C = true -> forall t r k cuts r' k' raws,
  ignfree (k_queue k) k -> fold_right plus 0%nat cuts = length (k_queue k) ->
  read_batch C t (r, drainq k, []) (k_queue k) = Done (r', k', raws) ->
  exists Rs, rcut C t r k cuts = Done (r', k', Rs) /\ concat Rs = raws.
Proof. exact rcut_eq. Qed.
Print Assumptions C02_cut_reads.

Theorem C02_kernel_frame : forall C w k r hot t o, GS C w k r hot -> KQ (kernel_op k t o).
Proof. exact GS_kernel_KQ. Qed.
Print Assumptions C02_kernel_frame.

(* the pairing condition of the buffer-level theorem (C01_tie_cuts) holds for EVERY cut of the records of one operation
   from every state of the sequential invariant: the kernel queues the two halves of a rename back to back, a move record
   gives at most one event, no other record gives a move event (cut_paired: if a TO's FROM was delivered by an earlier
   read of the block, the TO is the first event of its read and the FROM the last event before it) *)
Theorem C02_cut_paired : forall C w k r hot o w' cuts, c_faults C = [] -> c_fix_moveout C = true -> c_mask C = WATCHDOG_ALL ->
  GS C w k r hot -> step_ok C w hot o -> apply_op w o = Some w' ->
  sum cuts = length (k_queue (kernel_op k (w_fs w) o)) -> cut_paired C (w_fs w') r (kernel_op k (w_fs w) o) cuts.
Proof. exact cut_paired_gs. Qed.
Print Assumptions C02_cut_paired.

(* pipeline level, one block  AOp o; ARead n1; ...; ARead nj; ATick delay; AEmit x nit  with n1 + ... + nj = the number of
   queued records (ANY such cut): the state after the block is synchronised exactly as after the block with one read, the
   reader state and kernel are those of the one big read, and the delivered events are the same. *)
Theorem C02_cover_block_cuts_partial : forall P s hot o w' cuts, let C := pc_reader P in
  c_faults C = [] -> c_fix_moveout C = true -> c_mask C = WATCHDOG_ALL -> pc_filter P = None ->
  PSx P s hot -> step_ok C (p_world s) hot o -> apply_op (p_world s) o = Some w' ->
  sum cuts = length (k_queue (kernel_op (p_k s) (w_fs (p_world s)) o)) ->
  exists nit s' obs raws, prun P s (cut_history P o cuts nit) [] = Done (s', obs) /\
    PSx P s' (hot_next C (p_world s) hot o) /\ p_world s' = w' /\
    p_out s' = p_out s ++ ReplayProofs.delivered C (pc_full P) w' raws /\
    read_batch C (w_fs w') (p_r s, drainq (kernel_op (p_k s) (w_fs (p_world s)) o), [])
               (k_queue (kernel_op (p_k s) (w_fs (p_world s)) o)) = Done (p_r s', p_k s', raws).
Proof. exact block_cuts. Qed.
Print Assumptions C02_cover_block_cuts_partial.

(* histories of any length (the histories of C02_cover_sequential_pipeline_partial); ct chooses the cut of every block,
   sum_cutter: its cuts add up to the number of queued records - nothing else is asked of it *)
Theorem C02_cover_sequential_pipeline_cuts_partial : forall P ct, let C := pc_reader P in
  c_faults C = [] -> c_fix_moveout C = true -> c_mask C = WATCHDOG_ALL -> pc_filter P = None -> sum_cutter P ct ->
  forall ops s hot, PSx P s hot -> ops_x C (p_world s) hot ops ->
  exists h s' obs hot', cut_hist P ct s ops h /\ prun P s h [] = Done (s', obs) /\ PSx P s' hot' /\
    Cover C (w_fs (p_world s')) (p_k s') (p_r s').
Proof. exact blocks_cover_cuts. Qed.
Print Assumptions C02_cover_sequential_pipeline_cuts_partial.

Example C02_sum_cutter_nonvacuous : forall P,
  sum_cutter P (fun s o => let n := length (k_queue (kernel_op (p_k s) (w_fs (p_world s)) o)) in [Nat.min 1 n; (n - Nat.min 1 n)%nat]).
Proof. exact sum_cutter_first. Qed.


(* mkdir R/a; mv R/a R/b read as [IN_MOVED_FROM] [IN_MOVED_TO] through the pipeline: same events, reader state and kernel
   as with one read of both records; DirMoved(R/a, R/b) is delivered; R/b is covered *)
Example C02_cut_rename_example :
  exists s0 sc sb oc ob, pinit (Px true) w0 = Some s0 /\
    prun (Px true) s0 hcut [] = Done (sc, oc) /\ prun (Px true) s0 hbig [] = Done (sb, ob) /\
    p_out sc = p_out sb /\ p_r sc = p_r sb /\ p_k sc = p_k sb /\
    In {| ev_cls := DirMoved; ev_src := sub pR 97; ev_dest := sub pR 98; ev_synth := false |} (p_out sc) /\
    k_queue (p_k sc) = [] /\ Cover (cfgx true true) (w_fs (p_world sc)) (p_k sc) (p_r sc).
Proof. exact cut_rename_example. Qed.

(* ================================================================== directory move-outs back to back *)
(* PJ = the move-out candidate is pending (POut) up to IN_IGNORED junk in the kernel queue.  The first record of the next
   batch - junk, or the first record of the next operation - forgets the departed sub-tree, and the rest of the batch is
   processed exactly as from the synchronised state (kC0, rC) in which it is already forgotten, WHATEVER the operation is
   (C02_pending_transfer; hypotheses: the operation notifies no directory at or below the departed directory's new place,
   and the batch is not empty).  Instances: a covered operation (C02_pending_step_junk) and ANOTHER directory move-out
   (C02_out_after_out: the second candidate is pending, the first one's descriptors are junk). *)
Theorem C02_pending_transfer : forall C, c_fix_moveout C = true -> forall w k r h c p o t' r2 k2 evs, PJ C w k r h c p ->
  (forall d, In d (notified o) -> blw h d = false) ->
  let k1 := kernel_op k (w_fs w) o in k_queue k1 <> [] ->
  let rC := fst (forget_tree (wfp r) p (rclr r) (kset_queue k [])) in
  let kC0 := kset_queue (snd (forget_tree (wfp r) p (rclr r) (kset_queue k []))) [] in
  read_batch C t' (rC, drainq (kernel_op kC0 (w_fs w) o), []) (k_queue (kernel_op kC0 (w_fs w) o)) = Done (r2, k2, evs) ->
  k_queue k2 = [] ->
  exists kb, read_batch C t' (r, drainq k1, []) (k_queue k1) = Done (r2, kb, evs) /\ kset_queue kb [] = k2 /\
             Forall (junk_ev kb r2) (k_queue kb).
Proof. exact pj_transfer. Qed.
Print Assumptions C02_pending_transfer.

Theorem C02_pending_step_junk : forall C, c_faults C = [] -> c_fix_moveout C = true -> forall w k r h c p o w',
  mask_ok C -> PJ C w k r h c p -> covered_op C w o ->
  (forall d, In d (notified o) -> blw h d = false) -> apply_op w o = Some w' ->
  let k1 := kernel_op k (w_fs w) o in k_queue k1 <> [] ->
  exists r' k' evs, read_batch C (w_fs w') (r, drainq k1, []) (k_queue k1) = Done (r', k', evs) /\
    JSync C w' k' r' /\ Forall (rsafe C) evs.
Proof. exact pj_step. Qed.
Print Assumptions C02_pending_step_junk.

Theorem C02_out_after_out : forall C, c_fix_moveout C = true -> forall w k r h c p p2 q2 w' ep,
  mask_ok C -> PJ C w k r h c p ->
  npath p2 -> npath q2 -> c_recursive C = true -> apply_op w (Rename p2 q2) = Some w' ->
  flookup p2 (w_fs w) = Some ep -> f_dir ep = true -> scope C p2 -> p2 <> c_root C -> ~ scope C q2 ->
  (forall d, In d (notified (Rename p2 q2)) -> blw h d = false) ->
  let k1 := kernel_op k (w_fs w) (Rename p2 q2) in k_queue k1 <> [] ->
  exists r' k' evs, read_batch C (w_fs w') (r, drainq k1, []) (k_queue k1) = Done (r', k', evs) /\
    PJ C w' k' r' q2 (k_next_cookie k) p2 /\ Forall (rsafe C) evs.
Proof. exact pj_out_step. Qed.
Print Assumptions C02_out_after_out.

(* histories: ops_x2 = ops_x where the operation right after a directory move-out may be another directory move-out (of a
   directory of the tree, to a place that is not inside the directory that has just left); invariant GS2 (JSync / PJ).
   Every history of C02_cover_sequential_partial is one of these (C02_ops_x_x2). *)
Theorem C02_cover_sequential_x2_partial : forall C, c_faults C = [] -> c_fix_moveout C = true -> c_mask C = WATCHDOG_ALL ->
  forall ops w k r hot, GS2 C w k r hot -> ops_x2 C w hot ops ->
  exists w' k' r' hot', rrun C w k r ops = Some (w', k', r') /\ GS2 C w' k' r' hot'.
Proof. exact cover_sequential_x2. Qed.
Print Assumptions C02_cover_sequential_x2_partial.

Theorem C02_cover_from_start_x2_partial : forall C, c_faults C = [] -> c_fix_moveout C = true -> forall ops w,
  c_mask C = WATCHDOG_ALL -> wf_fs w -> fisdir (c_root C) (w_fs w) = true -> ops_x2 C w None ops ->
  exists r0 k0 w' k' r', construct C kinit (w_fs w) = Some (r0, k0) /\ rrun C w k0 r0 ops = Some (w', k', r') /\
                         wf_fs w' /\ Cover C (w_fs w') k' r'.
Proof. exact cover_from_start_x2. Qed.
Print Assumptions C02_cover_from_start_x2_partial.

Theorem C02_cover_sequential_pipeline_x2_partial : forall P, let C := pc_reader P in
  c_faults C = [] -> c_fix_moveout C = true -> c_mask C = WATCHDOG_ALL -> pc_filter P = None ->
  forall ops s hot, PSx2 P s hot -> ops_x2 C (p_world s) hot ops ->
  exists h s' obs hot', block_hist_x P s ops h /\ prun P s h [] = Done (s', obs) /\ PSx2 P s' hot' /\
    Cover C (w_fs (p_world s')) (p_k s') (p_r s').
Proof. exact blocks_cover_x2. Qed.
Print Assumptions C02_cover_sequential_pipeline_x2_partial.

Theorem C02_ops_x_x2 : forall C ops w hot, ops_x C w hot ops -> ops_x2 C w hot ops.
Proof. exact ops_x_x2. Qed.
Print Assumptions C02_ops_x_x2.

(* mkdir R/a; mkdir R/b; mv R/a O/x; mv R/b O/y (two move-outs back to back); mkdir R/a; mv R/a R/b *)
Definition two_out_ops : list op :=
  [Mkdir (sub pR 97); Mkdir (sub pR 98); Rename (sub pR 97) (sub pO 120); Rename (sub pR 98) (sub pO 121);
   Mkdir (sub pR 97); Rename (sub pR 97) (sub pR 98)].

Example C02_two_out_ops_x2 : ops_x2 (cfgo true) w0 None two_out_ops.
Proof.
  assert (GR : gpath pR) by (split; [discriminate | reflexivity]).
  assert (GO : gpath pO) by (split; [discriminate | reflexivity]).
  assert (Na : forall n, valid_name [n] = true -> npath (sub pR n)) by (intros; now apply npath_sub).
  assert (No : forall n, valid_name [n] = true -> npath (sub pO n)) by (intros; now apply npath_sub).
  assert (NS : forall p, ~ scope (cfgo true) (sub pO p)) by (intros p [H|H]; vm_compute in H; discriminate).
  assert (X2 : forall w o w' ops hot, apply_op w o = Some w' -> step_ok2 (cfgo true) w hot o ->
                 ops_x2 (cfgo true) w' (is_dir_out (cfgo true) w o) ops -> ops_x2 (cfgo true) w hot (o :: ops)).
  { intros w o w' ops hot Ha Hs Hc. cbn [ops_x2]. rewrite Ha. now split. }
  unfold two_out_ops.
  eapply X2; [vm_compute; reflexivity | apply cx_op, co_mkdir; now apply Na |]. vm_compute is_dir_out.
  eapply X2; [vm_compute; reflexivity | apply cx_op, co_mkdir; now apply Na |]. vm_compute is_dir_out.
  eapply X2; [vm_compute; reflexivity | |].
  { eapply cx_out; try (now apply Na); try (now apply No); try reflexivity; try (vm_compute; reflexivity);
      try (right; vm_compute; reflexivity); try (vm_compute; discriminate). apply NS. }
  vm_compute is_dir_out.
  eapply X2; [vm_compute; reflexivity | |].
  { split; [|split].
    - eapply cx_out; try (now apply Na); try (now apply No); try reflexivity; try (vm_compute; reflexivity);
        try (right; vm_compute; reflexivity); try (vm_compute; discriminate). apply NS.
    - exists pR. split; [now left|]. split; [now left | reflexivity].
    - intros d [<-|[<-|[<-|[]]]]; vm_compute; reflexivity. }
  vm_compute is_dir_out.
  eapply X2; [vm_compute; reflexivity | |].
  { split; [apply cx_op, co_mkdir; now apply Na|]. split.
    - exists pR. split; [now left|]. split; [now left | reflexivity].
    - intros d [<-|[]]. vm_compute. reflexivity. }
  vm_compute is_dir_out.
  eapply X2; [vm_compute; reflexivity | |].
  { apply cx_op. eapply co_rename_dir; try (now apply Na); try reflexivity; try (vm_compute; reflexivity);
      try (right; vm_compute; reflexivity); try (vm_compute; discriminate). }
  exact I.
Qed.

(* hence (instance of the theorem) Cover holds at the end; computed: both departed directories have lost their watches *)
Example C02_two_out_instance :
  exists r0 k0 w' k' r', construct (cfgo true) kinit (w_fs w0) = Some (r0, k0) /\ rrun (cfgo true) w0 k0 r0 two_out_ops = Some (w', k', r') /\
                         wf_fs w' /\ Cover (cfgo true) (w_fs w') k' r'.
Proof. exact (C02_cover_from_start_x2_partial (cfgo true) eq_refl eq_refl two_out_ops w0 eq_refl w0_wf eq_refl C02_two_out_ops_x2). Qed.

Example C02_two_out_computed :
  exists w' k' r', run_ops (cfgo true) two_out_ops = Some (w', k', r') /\ length (k_watches k') = 2%nat /\ pend r' = None.
Proof. eexists _, _, _. split; [vm_compute; reflexivity|]. split; reflexivity. Qed.

(* ---- a directory with content moved in over an empty directory: mkdir R/t; mv O/d R/t (O/d contains the directory e) *)
Definition in_over_ops : list op := [Mkdir (sub pR 116); Rename (sub pO 100) (sub pR 116); Touch (sub (sub (sub pR 116) 101) 102)].

Example C02_in_over_ops_x : ops_x (cfgo true) w0 None in_over_ops.
Proof.
  assert (GR : gpath pR) by (split; [discriminate | reflexivity]).
  assert (GO : gpath pO) by (split; [discriminate | reflexivity]).
  assert (Na : forall n, valid_name [n] = true -> npath (sub pR n)) by (intros; now apply npath_sub).
  assert (No : forall n, valid_name [n] = true -> npath (sub pO n)) by (intros; now apply npath_sub).
  assert (NS : forall p, ~ scope (cfgo true) (sub pO p)) by (intros p [H|H]; vm_compute in H; discriminate).
  unfold in_over_ops.
  eapply ops_x_cons; [vm_compute; reflexivity | apply cx_op, co_mkdir; now apply Na |]. vm_compute hot_next.
  eapply ops_x_cons; [vm_compute; reflexivity | |].
  { apply cx_op. eapply co_rename_dir_in_over; try (now apply Na); try (now apply No); try reflexivity; try (vm_compute; reflexivity);
      try (right; vm_compute; reflexivity); try (vm_compute; discriminate). apply NS. }
  vm_compute hot_next.
  eapply ops_x_cons; [vm_compute; reflexivity | |].
  { apply cx_op, co_quiet; [exact I|]. apply npath_sub; [|reflexivity]. apply npath_gpath. apply npath_sub; [|reflexivity].
    apply npath_gpath. now apply Na. }
  exact I.
Qed.

Example C02_in_over_instance :
  exists r0 k0 w' k' r', construct (cfgo true) kinit (w_fs w0) = Some (r0, k0) /\ rrun (cfgo true) w0 k0 r0 in_over_ops = Some (w', k', r') /\
                         wf_fs w' /\ Cover (cfgo true) (w_fs w') k' r'.
Proof. exact (C02_cover_from_start_partial (cfgo true) eq_refl eq_refl in_over_ops w0 eq_refl w0_wf eq_refl C02_in_over_ops_x). Qed.

(* ================================================================== bursts of file-level operations *)
(* Several FILE-LEVEL operations (the class [burst_ok] of C03_burst_files_contract: touch, write, chmod of a file, unlink, file
   renames - nothing that creates, removes or renames a directory) applied back to back from a synchronised state, then
   everything read - in one read, or on the Pipeline model in reads cut arbitrarily with any ticks / queue_events calls before
   the final delay: the reader / kernel state is synchronised (RSync) and every directory is covered again.  Side condition:
   no record coalesced by the kernel across an operation border.  The "bursts" gap of C02_step_full is thereby narrowed to
   bursts that contain a directory operation. *)
Require Import WD.Model.Pipeline WD.Proofs.ContractProofs WD.Proofs.ReplayProofs WD.Proofs.TieProofs WD.Proofs.ReplaceProofs WD.Proofs.CutsPipeProofs WD.Proofs.SoundLooseProofs WD.Proofs.BurstProofs WD.Proofs.BurstReplayProofs.

Theorem C02_burst_files_cover : forall C w k r ops,
  c_faults C = [] -> c_fix_moveout C = true -> c_mask C = WATCHDOG_ALL ->
  RSync C w k r -> burst_ok C w ops ->
  let KB := fst (burst_end k w ops) in let wn := snd (burst_end k w ops) in
  k_queue KB = concat (seq_qs k w ops) ->
  exists r' raws, read_batch C (w_fs wn) (r, drainq KB, []) (k_queue KB) = Done (r', drainq KB, raws) /\
    RSync C wn (drainq KB) r' /\ Cover C (w_fs wn) (drainq KB) r'.
Proof. exact burst_files_cover. Qed.
Print Assumptions C02_burst_files_cover.

Theorem C02_burst_files_cover_pipeline : forall P s ops cuts L, pc_filter P = None -> let C := pc_reader P in
  c_faults C = [] -> c_fix_moveout C = true -> c_mask C = WATCHDOG_ALL ->
  RSync C (p_world s) (p_k s) (p_r s) -> buffer_idle (p_buf s) -> p_stopped s = false ->
  (forall id, In id (map fst (p_tbl s)) -> (id < p_next s)%N) ->
  burst_ok C (p_world s) ops ->
  let KB := fst (burst_end (p_k s) (p_world s) ops) in
  k_queue KB = concat (seq_qs (p_k s) (p_world s) ops) ->
  CutsPipeProofs.sum cuts = length (k_queue KB) -> Forall tick_or_emit L ->
  exists nit s' obs, prun P s (burst_hist P ops cuts L nit) [] = Done (s', obs) /\
    p_world s' = snd (burst_end (p_k s) (p_world s) ops) /\
    RSync C (p_world s') (p_k s') (p_r s') /\ Cover C (w_fs (p_world s')) (p_k s') (p_r s') /\
    buffer_idle (p_buf s') /\ p_stopped s' = false.
Proof. exact burst_files_cover_pipeline. Qed.
Print Assumptions C02_burst_files_cover_pipeline.

(* instance: see C01_burst_files_nonvacuous (the burst of six file-level operations on /s/R; RSync and Cover hold after it) *)
Example C02_burst_files_nonvacuous :
  exists r0 k0, construct (cfgx true true) kinit (w_fs rp_world) = Some (r0, k0) /\
    let KB := fst (burst_end k0 rp_world burst_ops) in let wn := snd (burst_end k0 rp_world burst_ops) in
    k_queue KB = concat (seq_qs k0 rp_world burst_ops) /\
    exists r' raws, read_batch (cfgx true true) (w_fs wn) (r0, drainq KB, []) (k_queue KB) = Done (r', drainq KB, raws) /\
      length raws = 11%nat /\
      (forall x, alookup beqb x (replay true pR (tree_of true pR rp_world) (delivered (cfgx true true) false wn raws))
               = alookup beqb x (tree_of true pR wn)) /\
      RSync (cfgx true true) wn (drainq KB) r' /\ Cover (cfgx true true) (w_fs wn) (drainq KB) r' /\
      flookup bf_ef (w_fs wn) = None /\ fexists bf_oa (w_fs wn) = true.
Proof. exact burst_replay_example. Qed.

(* ================================================================== a burst that CONTAINS directory operations: an arrival *)
(* The one shape of such a burst the code has a dedicated path for (_recursive_simulate): `mkdir p; <any sequence of mkdir /
   touch strictly below p>` ([below_op]; operations that fail are skipped) applied back to back from a synchronised state -
   a directory that is already populated when the reader looks at its IN_CREATE|IN_ISDIR.  The kernel queues exactly that one
   record (nothing at or below p is watched yet, so the operations below p notify nobody); the read of it watches p, walks p,
   watches every sub-directory found and fabricates create records: the state afterwards is synchronised (RSync) and every
   directory - the arrived ones included - is covered.  Hypotheses: recursive watch, p in scope, IN_CREATE in the mask,
   c_fix_simulate (the KeyError repair of the walk), no injected fault.  Excluded (stated-only still): any other burst with a
   directory operation (rmdir, directory renames, an operation elsewhere in the tree between the mkdir and the read). *)
Require Import WD.Proofs.BurstArrivalProofs.

Theorem C02_burst_arrival_cover : forall C w k r p rest, c_faults C = [] -> c_fix_simulate C = true ->
  RSync C w k r -> npath p -> c_recursive C = true -> scope C p -> N.land IN_CREATE (c_mask C) <> 0%N ->
  Forall (below_op p) rest ->
  forall w1, apply_op w (Mkdir p) = Some w1 ->
  let KB := fst (burst_end k w (Mkdir p :: rest)) in let wn := snd (burst_end k w (Mkdir p :: rest)) in
  length (k_queue KB) = 1%nat /\
  exists r' k' raws, read_batch C (w_fs wn) (r, drainq KB, []) (k_queue KB) = Done (r', k', raws) /\
    RSync C wn k' r' /\ Cover C (w_fs wn) k' r'.
Proof. exact burst_arrival_cover. Qed.
Print Assumptions C02_burst_arrival_cover.

(* instance (world w0: /s/R watched and empty): mkdir R/d; mkdir R/d/e; touch R/d/e/f; touch R/d/g, one read: three watches
   (R, R/d, R/d/e), four records in walk order *)
Example C02_burst_arrival_nonvacuous :
  exists r0 k0, construct (cfgx true true) kinit (w_fs w0) = Some (r0, k0) /\
    let KB := fst (burst_end k0 w0 (Mkdir ba_d :: ba_rest)) in let wn := snd (burst_end k0 w0 (Mkdir ba_d :: ba_rest)) in
    length (k_queue KB) = 1%nat /\
    exists r' k' raws, read_batch (cfgx true true) (w_fs wn) (r0, drainq KB, []) (k_queue KB) = Done (r', k', raws) /\
      RSync (cfgx true true) wn k' r' /\ Cover (cfgx true true) (w_fs wn) k' r' /\
      length (k_watches k') = 3%nat /\ map r_path raws = [ba_d; ba_e; ba_g; ba_f] /\
      fexists ba_f (w_fs wn) = true /\ fexists ba_g (w_fs wn) = true.
Proof. exact arrival_example. Qed.

(* the arrival burst on the Pipeline model: AOp (mkdir p); AOp ... (below p); ARead 1 (the one record); any ticks / queue_events
   calls; the delay; queue_events until the buffer is empty ([burst_hist] with the cut [1]).  The run does not crash, every
   queued event is justified (sound_along), the replay invariant of the accumulated stream is kept, the state is synchronised,
   covered and idle again - so arrival bursts, file-level bursts and single blocks can alternate. *)
Require Import WD.Model.Contract.

Theorem C02_burst_arrival_pipeline : forall P, pc_filter P = None -> let C := pc_reader P in c_faults C = [] -> c_fix_simulate C = true ->
  forall s p rest L recs t0,
  RSync C (p_world s) (p_k s) (p_r s) -> buffer_idle (p_buf s) -> p_stopped s = false ->
  (forall id, In id (map fst (p_tbl s)) -> (id < p_next s)%N) ->
  npath p -> c_recursive C = true -> scope C p -> N.land IN_CREATE (c_mask C) <> 0%N -> Forall (below_op p) rest ->
  forall w1, apply_op (p_world s) (Mkdir p) = Some w1 -> Forall tick_or_emit L ->
  TInv (c_recursive C) (c_root C) (replay (c_recursive C) (c_root C) t0 (p_out s)) (p_world s) ->
  exists nit s' obs, prun P s (burst_hist P (Mkdir p :: rest) [1%nat] L nit) [] = Done (s', obs) /\
    sound_along P s recs (burst_hist P (Mkdir p :: rest) [1%nat] L nit) = true /\
    p_world s' = snd (burst_end (p_k s) (p_world s) (Mkdir p :: rest)) /\
    TInv (c_recursive C) (c_root C) (replay (c_recursive C) (c_root C) t0 (p_out s')) (p_world s') /\
    RSync C (p_world s') (p_k s') (p_r s') /\ Cover C (w_fs (p_world s')) (p_k s') (p_r s') /\
    buffer_idle (p_buf s') /\ p_stopped s' = false /\ (forall id, In id (map fst (p_tbl s')) -> (id < p_next s')%N).
Proof. exact arrival_pipeline. Qed.
Print Assumptions C02_burst_arrival_pipeline.

Example C02_burst_arrival_pipeline_nonvacuous :
  exists s0 s obs, pinit (Px true) w0 = Some s0 /\ prun (Px true) s0 ba_history [] = Done (s, obs) /\
    p_out s = ba_events /\ sound_along (Px true) s0 [] ba_history = true /\ length (k_watches (p_k s)) = 3%nat.
Proof. exact arrival_pipeline_example. Qed.
