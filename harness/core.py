"""Shared machinery of the checks: Coq build + audit, model runner, evidence, verdicts.

Everything here runs under /venv/bin/python with PYTHONPATH=/repo/src (see ../check).
"""
from __future__ import annotations

import fcntl
import hashlib
import json
import os
import random
import re
import subprocess
import sys
import time
from dataclasses import dataclass, field
from pathlib import Path

VERIF = Path(__file__).resolve().parent.parent
REPO = Path(os.environ.get("WATCHDOG_REPO", "/repo"))
COQ = VERIF / "coq"
BIN = VERIF / "bin" / "wdmodel"
BUILD = VERIF / "build"
EVIDENCE = VERIF / "evidence"
REPLAYS = VERIF / "replays"
CORPUS = VERIF / "corpus"
NPROC = os.cpu_count() or 4

STD_AXIOMS_ALLOWED: dict[str, list[str]] = {}  # property -> allowed axiom names (none so far)

FORBIDDEN = [
    r"\bAdmitted\b", r"\badmit\b", r"\bAxiom\b", r"\bAxioms\b", r"\bParameter\b", r"\bParameters\b",
    r"\bConjecture\b", r"Unset\s+Guard", r"bypass_check", r"type-in-type", r"impredicative-set",
    r"Admit\s+Obligations", r"Unset\s+Positivity", r"Unset\s+Universe", r"\bnative_compute\b",
]


# ------------------------------------------------------------------ s-expressions
def sx(o) -> str:
    """Python value -> wire s-expression. bytes -> x<hex>; str -> code point list; bool -> 0/1."""
    if isinstance(o, bool):
        return "1" if o else "0"
    if isinstance(o, int):
        return str(o)
    if isinstance(o, (bytes, bytearray)):
        return "x" + bytes(o).hex()
    if isinstance(o, str):
        return "(" + " ".join(str(ord(c)) for c in o) + ")"
    if isinstance(o, Atom):
        return o.s
    if o is None:
        return "()"
    if isinstance(o, (list, tuple)):
        return "(" + " ".join(sx(x) for x in o) + ")"
    raise TypeError(f"sx: {type(o)}")


class Atom:
    def __init__(self, s: str):
        self.s = s

    def __repr__(self):
        return self.s


_tok = re.compile(r"[()]|[^\s()]+")


def parse_sx(s: str):
    """Wire s-expression -> nested lists of str atoms."""
    stack = [[]]
    for t in _tok.findall(s):
        if t == "(":
            stack.append([])
        elif t == ")":
            x = stack.pop()
            stack[-1].append(x)
        else:
            stack[-1].append(t)
    if len(stack) != 1 or len(stack[0]) != 1:
        raise ValueError("bad sexp: " + s[:200])
    return stack[0][0]


def unhex(a):
    """x<hex> atom -> bytes; list of ints -> str (code points)."""
    if isinstance(a, str):
        assert a.startswith("x"), a
        return bytes.fromhex(a[1:])
    return "".join(chr(int(c)) for c in a)


# ------------------------------------------------------------------ build
class Lock:
    def __enter__(self):
        BUILD.mkdir(exist_ok=True)
        self.f = open(BUILD / ".lock", "w")
        fcntl.flock(self.f, fcntl.LOCK_EX)
        return self

    def __exit__(self, *a):
        fcntl.flock(self.f, fcntl.LOCK_UN)
        self.f.close()


def sh(cmd, cwd=None, timeout=1800, env=None):
    p = subprocess.run(cmd, cwd=cwd, shell=isinstance(cmd, str), capture_output=True, text=True,
                       timeout=timeout, env=env)
    return p.returncode, p.stdout + p.stderr


def coq_files() -> list[Path]:
    return sorted(p for p in COQ.rglob("*.v") if "Extract" not in p.parts)


def strip_comments(src: str) -> str:
    out, depth, i, n = [], 0, 0, len(src)
    while i < n:
        if src.startswith("(*", i):
            depth += 1
            i += 2
        elif src.startswith("*)", i) and depth > 0:
            depth -= 1
            i += 2
        else:
            if depth == 0:
                out.append(src[i])
            i += 1
    return "".join(out)


def run_generators() -> tuple[bool, str]:
    """Regenerate the Coq files that are translated from /repo's current source (fail-closed)."""
    gen_dir = VERIF / "harness" / "translate"
    log = []
    ok = True
    if gen_dir.is_dir():
        for g in sorted(gen_dir.glob("gen_*.py")):
            rc, out = sh([sys.executable, str(g)], cwd=str(VERIF), timeout=120, env=dict(os.environ))
            log.append(f"[{g.name}] rc={rc}\n{out}")
            if rc != 0:
                ok = False
    return ok, "\n".join(log)


def build_coq(clean: bool = False) -> tuple[bool, str]:
    """Full .vo build of the development (never -vos/-vok). Returns (ok, log)."""
    with Lock():
        gok, glog = run_generators()
        if clean:
            sh("make clean >/dev/null 2>&1; find . -name '*.vo' -o -name '*.glob' -o -name '.*.aux' | xargs rm -f",
               cwd=str(COQ))
        vs = sorted(str(p.relative_to(COQ)) for p in coq_files())
        proj = "-Q . WD\n" + "\n".join(vs) + "\n"
        pf = COQ / "_CoqProject"
        if not pf.exists() or pf.read_text() != proj:
            pf.write_text(proj)
        rc, out = sh("coq_makefile -f _CoqProject -o Makefile", cwd=str(COQ), timeout=120)
        if rc != 0:
            return False, glog + out
        rc, out = sh(f"timeout 1500 make -k -j{NPROC}", cwd=str(COQ), timeout=1600)
        (BUILD / "coq.log").write_text(glog + out)
        return (rc == 0 and gok), glog + out


def closure(prop: str) -> list[Path]:
    """The .v files Props/<prop>.v depends on (transitively, inside this development)."""
    seen: dict[Path, None] = {}

    def visit(p: Path):
        if p in seen or not p.exists():
            return
        seen[p] = None
        src = strip_comments(p.read_text())
        for m in re.finditer(r"Require\s+(?:Import\s+|Export\s+)?(.*?)\.(?:\s|$)", src, re.S):
            for mod in m.group(1).split():
                if mod.startswith("WD."):
                    visit(COQ / (mod[3:].replace(".", "/") + ".v"))

    visit(COQ / "Props" / f"{prop}.v")
    return list(seen)


OBLIG = re.compile(r"^\s*(?:Local\s+|Global\s+)?(Lemma|Theorem|Corollary|Example|Fact|Remark|Proposition)\s+([A-Za-z_0-9']+)", re.M)


def obligations(prop: str) -> list[str]:
    names = []
    for f in closure(prop):
        names += [f"{f.relative_to(COQ)}:{m.group(2)}" for m in OBLIG.finditer(strip_comments(f.read_text()))]
    return names


@dataclass
class ProofStatus:
    ok: bool
    obligations: int
    discharged: int
    theorems: list[str]
    assumptions: list[str]
    problems: list[str]
    checker_cmd: str
    log_tail: str = ""


def audit(prop: str, build_ok: bool, build_log: str, thorough: bool = False) -> ProofStatus:
    problems: list[str] = []
    files = closure(prop)
    pfile = COQ / "Props" / f"{prop}.v"
    # 1. forbidden constructs anywhere in the development
    for f in coq_files():
        src = strip_comments(f.read_text())
        for pat in FORBIDDEN:
            for m in re.finditer(pat, src):
                problems.append(f"forbidden construct {m.group(0)!r} in {f.relative_to(COQ)}")
        # Variable/Hypothesis outside a Section
        depth = 0
        for line in src.splitlines():
            if re.match(r"\s*Section\b", line):
                depth += 1
            elif re.match(r"\s*End\b", line) and depth > 0:
                depth -= 1
            elif depth == 0 and re.match(r"\s*(Variable|Variables|Hypothesis|Hypotheses|Context)\b", line):
                problems.append(f"{line.strip()[:40]!r} outside a Section in {f.relative_to(COQ)}")
    # 2. all closure files compiled
    missing = [f for f in files if not f.with_suffix(".vo").exists()
               or f.with_suffix(".vo").stat().st_mtime < f.stat().st_mtime]
    for f in missing:
        problems.append(f"not compiled: {f.relative_to(COQ)}")
    # 3. Print Assumptions of the property file (recompile it alone to capture the output)
    theorems: list[str] = []
    assumptions: list[str] = []
    checker = f"cd coq && coq_makefile -f _CoqProject -o Makefile && make -j{NPROC} && coqc -Q . WD Props/{prop}.v"
    if pfile.exists():
        psrc = strip_comments(pfile.read_text())
        theorems = re.findall(r"^\s*Theorem\s+([A-Za-z_0-9']+)", psrc, re.M)
        printed = re.findall(r"Print\s+Assumptions\s+([A-Za-z_0-9']+)", psrc)
        for t in theorems:
            if t not in printed:
                problems.append(f"theorem {t} has no Print Assumptions")
        if not missing or missing == [pfile]:
            with Lock():
                rc, out = sh(f"timeout 900 coqc -Q . WD Props/{prop}.v", cwd=str(COQ), timeout=1000)
            if rc != 0:
                problems.append(f"Props/{prop}.v does not compile: " + out.strip()[-600:])
            else:
                closed = out.count("Closed under the global context")
                axioms = []
                for blk in re.split(r"(?=Axioms:)", out):
                    if blk.startswith("Axioms:"):
                        axioms += re.findall(r"^([A-Za-z_0-9'.]+)\s*:", blk, re.M)
                allowed = STD_AXIOMS_ALLOWED.get(prop, [])
                for a in axioms:
                    if a.split(".")[-1] not in allowed:
                        problems.append(f"theorem depends on axiom {a}")
                assumptions = sorted(set(axioms)) or ["Closed under the global context"]
                if closed + out.count("Axioms:") < len(printed):
                    problems.append("fewer Print Assumptions results than commands")
    else:
        problems.append(f"Props/{prop}.v missing")
    if not build_ok:
        # the build of some file failed; it matters only if it is in this property's closure
        bad = re.findall(r'File "\./([^"]+)", line \d+', build_log)
        rel = {str(f.relative_to(COQ)) for f in files}
        for b in bad:
            if b in rel:
                problems.append(f"build error in {b}")
    if thorough and not problems:
        with Lock():
            rc, out = sh(f"timeout 1500 coqchk -silent -o -Q . WD WD.Props.{prop}", cwd=str(COQ), timeout=1600)
        if rc != 0:
            problems.append("coqchk failed: " + out.strip()[-400:])
        else:
            assumptions.append("coqchk -o: " + " ".join(out.split())[-400:])
        checker += f" && coqchk -silent -o -Q . WD WD.Props.{prop}"
    obl = obligations(prop)
    ok = not problems
    return ProofStatus(ok, len(obl), len(obl) if ok else 0, theorems, assumptions, problems, checker,
                       build_log[-1500:] if not ok else "")


def runner_stale() -> bool:
    if not BIN.exists():
        return True
    t = BIN.stat().st_mtime
    srcs = list((COQ / "Model").glob("*.v")) + list((COQ / "Base").glob("*.v")) + \
        list((COQ / "Extract").glob("*.ext")) + [p for p in (VERIF / "ocaml").glob("*.ml") if p.name != "models.ml"] + [VERIF / "ocaml" / "build.sh"]
    return any(s.stat().st_mtime > t for s in srcs if s.exists())


def build_runner() -> tuple[bool, str]:
    with Lock():
        if not runner_stale():
            return True, ""
        rc, out = sh([str(VERIF / "ocaml" / "build.sh")], timeout=900)
        return rc == 0, out


def run_model(model: str, cases: list[str], timeout: int = 900) -> list:
    """Run the extracted model on wire-format cases; returns parsed results, aligned with cases."""
    if not cases:
        return []
    p = subprocess.run([str(BIN), model], input="\n".join(cases) + "\n", capture_output=True, text=True,
                       timeout=timeout)
    if p.returncode != 0:
        raise RuntimeError(f"model runner failed: {p.stderr[-400:]}")
    lines = p.stdout.splitlines()
    if len(lines) != len(cases):
        raise RuntimeError(f"model runner: {len(lines)} results for {len(cases)} cases")
    return [parse_sx(l) for l in lines]


# ------------------------------------------------------------------ results and verdicts
@dataclass
class Failure:
    """A concrete input/history/schedule on which the implementation breaks the property."""
    what: str                 # human-readable: which law failed
    case: object              # JSON-able replayable input
    signature: dict = field(default_factory=dict)   # keys used to match known findings
    observed: object = None
    expected: object = None


@dataclass
class Mismatch:
    """Model and implementation disagree on a case (not by itself a property failure)."""
    pair: str                 # name of the correspondence pair, e.g. "sub_moved_events"
    case: object
    model: object
    impl: object


@dataclass
class Result:
    evaluations: int = 0
    nontrivial: set = field(default_factory=set)
    rule: str = ""
    samples: list = field(default_factory=list)
    failures: list = field(default_factory=list)
    mismatches: list = field(default_factory=list)
    histograms: dict = field(default_factory=dict)
    traces_validated: int = 0
    exhaustive: bool = False
    notes: list = field(default_factory=list)

    def merge(self, o: "Result"):
        self.evaluations += o.evaluations
        self.nontrivial |= o.nontrivial
        self.samples += o.samples[: max(0, 6 - len(self.samples))]
        self.failures += o.failures
        self.mismatches += o.mismatches
        self.traces_validated += o.traces_validated
        for k, v in o.histograms.items():
            h = self.histograms.setdefault(k, {})
            for kk, vv in v.items():
                h[kk] = h.get(kk, 0) + vv
        self.notes += o.notes

    def hist(self, name: str, key):
        h = self.histograms.setdefault(name, {})
        key = str(key)
        h[key] = h.get(key, 0) + 1


def digest(o) -> str:
    return hashlib.sha1(json.dumps(o, sort_keys=True, default=repr).encode()).hexdigest()[:12]


@dataclass
class Ctx:
    prop: str
    tier: str
    seed: int
    search: bool = False      # failure-search mode (deeper generators)

    def rng(self, tag: str = "") -> random.Random:
        return random.Random(f"{self.seed}/{self.prop}/{tag}")

    @property
    def thorough(self) -> bool:
        return self.tier == "thorough" or self.search

    def corpus(self) -> list:
        d = CORPUS / self.prop
        out = []
        if d.is_dir():
            for f in sorted(d.glob("*.json")):
                out.append(json.loads(f.read_text()))
        return out


def load_known() -> dict:
    p = VERIF / "known_findings.json"
    if p.exists():
        return json.loads(p.read_text())
    return {"findings": [], "fixed": []}


def match_known(prop: str, f: Failure, known: dict):
    for k in known.get("findings", []):
        if k.get("property") != prop:
            continue
        m = k.get("match", {})
        if m and all(f.signature.get(kk) == vv for kk, vv in m.items()):
            return k
    return None


def write_replay(prop: str, obj: dict) -> Path:
    REPLAYS.mkdir(exist_ok=True)
    p = REPLAYS / f"{prop}-{digest(obj)}.json"
    p.write_text(json.dumps(obj, indent=1, default=repr))
    return p


def shrink_list(items: list, still_fails, max_rounds: int = 200) -> list:
    """Greedy delta debugging: drop chunks while the predicate still fails."""
    cur = list(items)
    n = 2
    rounds = 0
    while len(cur) >= 1 and rounds < max_rounds:
        rounds += 1
        chunk = max(1, len(cur) // n)
        reduced = False
        for i in range(0, len(cur), chunk):
            cand = cur[:i] + cur[i + chunk:]
            if cand != cur and still_fails(cand):
                cur = cand
                n = max(n - 1, 2)
                reduced = True
                break
        if not reduced:
            if chunk == 1:
                break
            n = min(len(cur), n * 2)
    return cur


def write_evidence(prop: str, ctx: Ctx, ps: ProofStatus, res: Result, wall: float, violations: int,
                   assumptions: list[str], trusted: list[str]):
    EVIDENCE.mkdir(exist_ok=True)
    cov = {
        "obligations": ps.obligations,
        "discharged": ps.discharged,
        "checker_cmd": ps.checker_cmd,
        "trusted_base": trusted,
        "theorems": ps.theorems,
        "print_assumptions": ps.assumptions,
        "proof_problems": ps.problems,
        "evaluations": res.evaluations,
        "distinct_nontrivial": len(res.nontrivial),
        "rule": res.rule,
        "samples": res.samples[:6] or ["(no generated case: proof obligations only)"],
        "traces_validated_against_impl": res.traces_validated,
        "correspondence_mismatches": len(res.mismatches),
        "input_distribution": res.histograms,
        "exhaustive": res.exhaustive,
        "notes": res.notes,
    }
    if ps.discharged < 1:
        # a broken proof: the proof-specific keys would not validate (discharged must be >= 1); report them under
        # other names so that the file still validates through the generic keys and says what happened
        cov["obligations_total"] = cov.pop("obligations")
        cov["obligations_discharged"] = cov.pop("discharged")
        cov["evaluations"] = max(cov["evaluations"], 1)
    ev = {
        "property_id": prop,
        "tier": ctx.tier,
        "seed": ctx.seed,
        "level": "proof",
        "coverage": cov,
        "assumptions": assumptions,
        "wall_s": round(wall, 2),
        "violations": violations,
    }
    target = EVIDENCE
    if str(REPO) != "/repo":
        # a run against another checkout (candidate fix, seeded change) must not overwrite the evidence of /repo
        target = BUILD / "evidence-other-tree"
        ev["coverage"]["notes"] = ev["coverage"].get("notes", []) + [f"run against WATCHDOG_REPO={REPO}"]
    target.mkdir(parents=True, exist_ok=True)
    (target / f"{prop}.json").write_text(json.dumps(ev, indent=1, default=repr))
