(* C03 - proofs: shape (soundness) lemmas about the emitter, per-operation completeness of the
   reader + buffer + emitter composition against the contract, the phantom-event refutation. *)
Require Import WD.Base.Prelude WD.Base.BStr WD.Model.SubEvents WD.Model.Emitter WD.Model.Fs WD.Model.Reader
               WD.Model.DelayQueue WD.Model.Grouping WD.Model.Pipeline WD.Model.Contract.
Require Import WD.Proofs.SubEventsProofs WD.Proofs.ReaderFixProofs.

(* ================================================================== 1. shape lemmas about [emit] *)
Definition cls_isdir (c : evclass) : bool := snd (what_of c).
Definition cls_what (c : evclass) : evwhat := fst (what_of c).

Definition item_head (it : Emitter.item) : raw := match it with Single e => e | Pair f _ => f end.
Definition item_paths (it : Emitter.item) : list bytes :=
  match it with Single e => [r_path e] | Pair f t => [r_path f; r_path t] end.

Lemma cls_isdir_moved d : cls_isdir (moved_cls d) = d.   Proof. destruct d; reflexivity. Qed.
Lemma cls_isdir_created d : cls_isdir (created_cls d) = d. Proof. destruct d; reflexivity. Qed.
Lemma cls_isdir_deleted d : cls_isdir (deleted_cls d) = d. Proof. destruct d; reflexivity. Qed.
Lemma cls_isdir_modified d : cls_isdir (modified_cls d) = d. Proof. destruct d; reflexivity. Qed.

Lemma sub_moved_synth src dest t e : In e (sub_moved src dest t) ->
  ev_synth e = true /\ exists k, ev_cls e = moved_cls k.
Proof.
  unfold sub_moved. intros H. apply in_map_iff in H as [[[k s] d] [<- _]]. simpl. split; [reflexivity|].
  eexists; reflexivity.
Qed.

Lemma sub_created_synth p t e : In e (sub_created p t) ->
  ev_synth e = true /\ exists k, ev_cls e = created_cls k.
Proof.
  unfold sub_created. intros H. apply in_map_iff in H as [[k s] [<- _]]. simpl. split; [reflexivity|].
  eexists; reflexivity.
Qed.

(* Every event [emit] produces is of one of four shapes. *)
Inductive shape (full rec : bool) (ct : bytes -> tree) (it : Emitter.item) (e : nevent) : Prop :=
| ShPrimary :                      (* the event about the item itself *)
    ev_synth e = false -> cls_isdir (ev_cls e) = is_directory (r_mask (item_head it)) ->
    (match it with
     | Single r => (ev_src e = r_path r /\ ev_dest e = []) \/
                   (ev_src e = [] /\ ev_dest e = r_path r /\ cls_what (ev_cls e) = WMoved /\ full = true)
     | Pair f t => ev_src e = r_path f /\ ev_dest e = r_path t /\ cls_what (ev_cls e) = WMoved
     end) ->
    shape full rec ct it e
| ShParent p :                     (* DirModified(dirname p) for a path the item names *)
    In p (item_paths it) -> e = parent_modified p -> shape full rec ct it e
| ShSubMoved f t :
    it = Pair f t -> is_directory (r_mask f) = true -> rec = true ->
    In e (sub_moved (r_path f) (r_path t) (ct (r_path t))) -> shape full rec ct it e
| ShSubCreated r :
    it = Single r -> is_moved_to (r_mask r) = true -> is_directory (r_mask r) = true -> rec = true ->
    In e (sub_created (r_path r) (ct (r_path r))) -> shape full rec ct it e.

Lemma emit_shape full rec root ct it e :
  In e (fst (emit full rec root ct it)) -> shape full rec ct it e.
Proof.
  destruct it as [r|f t]; cbn [emit].
  - unfold emit_single.
    set (m := r_mask r). set (p := r_path r). set (d := is_directory m).
    assert (Hprim : forall c, cls_isdir c = d -> shape full rec ct (Single r) (mk c p [])).
    { intros c Hc. apply ShPrimary; [reflexivity | exact Hc | left; split; reflexivity]. }
    assert (Hpar : shape full rec ct (Single r) (parent_modified p)).
    { apply ShParent with p; [left; reflexivity | reflexivity]. }
    destruct (is_moved_to m) eqn:Eto.
    { cbn [fst]. intros [<-|[<-|H]].
      - destruct full.
        + apply ShPrimary; [reflexivity | apply cls_isdir_moved |].
          right. repeat split. cbn. fold d. destruct d; reflexivity.
        + apply Hprim, cls_isdir_created.
      - exact Hpar.
      - destruct (d && rec) eqn:Edr; [|destruct H].
        apply andb_true_iff in Edr as [Hd Hr].
        eapply ShSubCreated; eauto. }
    destruct (is_attrib m || is_modify m).
    { cbn [fst]. intros [<-|[]]. apply Hprim, cls_isdir_modified. }
    destruct (is_delete m || is_moved_from m && negb full).
    { cbn [fst]. intros [<-|[<-|[]]]; [apply Hprim, cls_isdir_deleted | exact Hpar]. }
    destruct (is_moved_from m && full).
    { cbn [fst]. intros [<-|[<-|[]]]; [apply Hprim, cls_isdir_moved | exact Hpar]. }
    destruct (is_create m).
    { cbn [fst]. intros [<-|[<-|[]]]; [apply Hprim, cls_isdir_created | exact Hpar]. }
    destruct (is_delete_self m && beqb p root).
    { cbn [fst]. intros [<-|[]]. apply Hprim, cls_isdir_deleted. }
    destruct (negb d) eqn:Ed; [|intros []].
    apply negb_true_iff in Ed.
    destruct (is_open m); [cbn [fst]; intros [<-|[]]; apply Hprim; now rewrite Ed|].
    destruct (is_close_write m);
      [cbn [fst]; intros [<-|[<-|[]]]; [apply Hprim; now rewrite Ed | exact Hpar]|].
    destruct (is_close_nowrite m); [cbn [fst]; intros [<-|[]]; apply Hprim; now rewrite Ed|].
    intros [].
  - unfold emit_pair. cbn [fst]. intros [<-|[<-|[<-|H]]].
    + apply ShPrimary; [reflexivity | apply cls_isdir_moved |].
      cbn. repeat split. destruct (is_directory (r_mask f)); reflexivity.
    + apply ShParent with (r_path f); [left; reflexivity | reflexivity].
    + apply ShParent with (r_path t); [right; left; reflexivity | reflexivity].
    + destruct (is_directory (r_mask f) && rec) eqn:Edr; [|destruct H].
      apply andb_true_iff in Edr as [Hd Hr]. eapply ShSubMoved; eauto.
Qed.

(* C03_flavour: a non-synthetic event is either DirModified(parent) or has the flavour of the raw event *)
Theorem emit_flavour full rec root ct it e :
  In e (fst (emit full rec root ct it)) -> ev_synth e = false ->
  (exists p, In p (item_paths it) /\ e = parent_modified p) \/
  cls_isdir (ev_cls e) = is_directory (r_mask (item_head it)).
Proof.
  intros H Hs. destruct (emit_shape _ _ _ _ _ _ H) as [_ Hf _|p Hp ->|f t _ _ _ Hin|r _ _ _ _ Hin].
  - right; exact Hf.
  - left; eauto.
  - apply sub_moved_synth in Hin as [Hx _]. congruence.
  - apply sub_created_synth in Hin as [Hx _]. congruence.
Qed.

(* C03_synthetic_only_descendants *)
Theorem emit_synthetic full rec root ct it e :
  In e (fst (emit full rec root ct it)) -> ev_synth e = true ->
  rec = true /\ is_directory (r_mask (item_head it)) = true /\
  ((exists f t, it = Pair f t /\
      (r_path f <> [] -> r_path t <> [] -> last_is_sep (r_path t) = false ->
       wf_tree (ct (r_path t)) = true ->
       exists k rel, In (k, rel) (desc [] (ct (r_path t))) /\
         e = {| ev_cls := moved_cls (kdir k); ev_src := r_path f ++ relsuffix rel;
                ev_dest := r_path t ++ relsuffix rel; ev_synth := true |})) \/
   (exists r, it = Single r /\ is_moved_to (r_mask r) = true /\
      (r_path r <> [] -> last_is_sep (r_path r) = false -> wf_tree (ct (r_path r)) = true ->
       exists k rel, In (k, rel) (desc [] (ct (r_path r))) /\
         e = {| ev_cls := created_cls (kdir k); ev_src := r_path r ++ relsuffix rel;
                ev_dest := []; ev_synth := true |}))).
Proof.
  intros H Hs. destruct (emit_shape _ _ _ _ _ _ H) as [Hn _ _|p Hp ->|f t -> Hd Hr Hin|r -> Hto Hd Hr Hin].
  - congruence.
  - discriminate.
  - split; [exact Hr|]. split; [exact Hd|]. left. exists f, t. split; [reflexivity|].
    intros Hf Ht Hsep Hwf. unfold sub_moved in Hin.
    rewrite (sub_moved_correct _ _ Hf Ht Hsep _ Hwf) in Hin.
    rewrite map_map in Hin. apply in_map_iff in Hin as [[k rel] [<- Hin]].
    exists k, rel. split; [exact Hin|]. unfold expect_moved. cbn. destruct k; reflexivity.
  - split; [exact Hr|]. split; [exact Hd|]. right. exists r. split; [reflexivity|]. split; [exact Hto|].
    intros Hp Hsep Hwf. unfold sub_created in Hin.
    rewrite (sub_created_correct _ Hp Hsep _ Hwf) in Hin.
    rewrite map_map in Hin. apply in_map_iff in Hin as [[k rel] [<- Hin]].
    exists k, rel. split; [exact Hin|]. unfold expect_created. cbn. destruct k; reflexivity.
Qed.

(* C03_moved_pair_paths: the moved event of a pair carries the paths of its two halves *)
Theorem emit_pair_paths full rec root ct f t e :
  In e (fst (emit full rec root ct (Pair f t))) -> ev_synth e = false -> cls_what (ev_cls e) = WMoved ->
  ev_src e = r_path f /\ ev_dest e = r_path t /\ cls_isdir (ev_cls e) = is_directory (r_mask f).
Proof.
  intros H Hs Hw. destruct (emit_shape _ _ _ _ _ _ H) as [_ Hf Hp|p Hp ->|f' t' _ _ _ Hin|r Hit _ _ _ _].
  - destruct Hp as [H1 [H2 _]]. auto.
  - discriminate.
  - apply sub_moved_synth in Hin as [Hx _]. congruence.
  - discriminate.
Qed.

(* C03_parent_modified: a DirModified event names the parent of a path of the item, or the item's own path
   when the raw event says that the item is a directory (IN_ATTRIB / IN_MODIFY about a directory) *)
Theorem emit_dir_modified full rec root ct it e :
  In e (fst (emit full rec root ct it)) -> ev_cls e = DirModified ->
  ev_synth e = false /\ ev_dest e = [] /\
  ((exists p, In p (item_paths it) /\ ev_src e = dirname p) \/
   (exists r, it = Single r /\ ev_src e = r_path r /\ is_directory (r_mask r) = true)).
Proof.
  intros H Hc. destruct (emit_shape _ _ _ _ _ _ H) as [Hn Hf Hp|p Hp ->|f t _ _ _ Hin|r _ _ _ _ Hin].
  - split; [exact Hn|]. destruct it as [r|f t].
    + destruct Hp as [[H1 H2]|[_ [_ [Hw _]]]].
      * split; [exact H2|]. right. exists r. split; [reflexivity|]. split; [exact H1|].
        cbn in Hf. rewrite <- Hf, Hc. reflexivity.
      * rewrite Hc in Hw. discriminate.
    + destruct Hp as [_ [_ Hw]]. rewrite Hc in Hw. discriminate.
  - split; [reflexivity|]. split; [reflexivity|]. left. exists p. split; [exact Hp | reflexivity].
  - apply sub_moved_synth in Hin as [_ [k Hk]]. rewrite Hc in Hk. destruct k; discriminate.
  - apply sub_created_synth in Hin as [_ [k Hk]]. rewrite Hc in Hk. destruct k; discriminate.
Qed.

(* pairs made by the grouping of one batch are the two halves of one kernel rename *)
Definition pair_ok (C : cfg) (it : Emitter.item) : Prop :=
  match it with
  | Single _ => True
  | Pair f t => exists c, nkind_of C f = KFrom c /\ nkind_of C t = KTo c
  end.

Lemma pair_in_batch_ok C c t g g' :
  nkind_of C t = KTo c -> Forall (pair_ok C) g -> pair_in_batch C c t g = Some g' -> Forall (pair_ok C) g'.
Proof.
  intros Ht. revert g'. induction g as [|it g IH]; simpl; intros g' Hg H; [discriminate|].
  inversion Hg; subst.
  destruct (is_from_raw C c it) eqn:E.
  - destruct it as [f|]; [|discriminate]. inversion H; subst. constructor; [|assumption].
    simpl in E. destruct (nkind_of C f) eqn:Ef; try discriminate. apply N.eqb_eq in E. subst.
    exists cookie. auto.
  - destruct (pair_in_batch C c t g); [|discriminate]. inversion H; subst. constructor; auto.
Qed.

Lemma group_go_ok C b : forall g, Forall (pair_ok C) g -> Forall (pair_ok C) (group_go C b g).
Proof.
  induction b as [|e b IH]; intros g Hg; simpl; [exact Hg|].
  assert (Hs : Forall (pair_ok C) (g ++ [Single e])).
  { apply Forall_app. split; [exact Hg | constructor; [exact I | constructor]]. }
  destruct (nkind_of C e) eqn:Ek; try (apply IH; exact Hs).
  destruct (pair_in_batch C cookie e g) eqn:Ep; [|apply IH; exact Hs].
  apply IH. exact (pair_in_batch_ok C cookie e g l Ek Hg Ep).
Qed.

Lemma nkind_from C e c : nkind_of C e = KFrom c -> is_moved_from (r_mask e) = true /\ r_cookie e = c.
Proof.
  unfold nkind_of. destruct (is_moved_from (r_mask e)); [intros H; inversion H; auto|].
  destruct (is_moved_to (r_mask e)); [discriminate|].
  destruct (Emitter.is_ignored (r_mask e)); [discriminate|].
  destruct (is_delete_self (r_mask e)); discriminate.
Qed.

Lemma nkind_to C e c : nkind_of C e = KTo c -> is_moved_to (r_mask e) = true /\ r_cookie e = c.
Proof.
  unfold nkind_of. destruct (is_moved_from (r_mask e)); [discriminate|].
  destruct (is_moved_to (r_mask e)); [intros H; inversion H; auto|].
  destruct (Emitter.is_ignored (r_mask e)); [discriminate|].
  destruct (is_delete_self (r_mask e)); discriminate.
Qed.

Theorem group_batch_pair_cookie C b f t :
  In (Pair f t) (group_batch C b) ->
  r_cookie f = r_cookie t /\ is_moved_from (r_mask f) = true /\ is_moved_to (r_mask t) = true.
Proof.
  unfold group_batch. intros H. apply filter_In in H as [H _].
  assert (Hok := group_go_ok C b [] (Forall_nil _)). rewrite Forall_forall in Hok.
  destruct (Hok _ H) as [c [Hf Ht]]. apply nkind_from in Hf as [Hf1 Hf2]. apply nkind_to in Ht as [Ht1 Ht2].
  repeat split; congruence.
Qed.

(* ================================================================== 2. paths *)
Lemma valid_name_nosep n : valid_name n = true -> forall x, In x n -> N.eqb x sep = false.
Proof.
  unfold valid_name. destruct n as [|c n]; [discriminate|]. intros H x Hx.
  rewrite forallb_forall in H. specialize (H x Hx). apply andb_true_iff in H as [H _].
  now apply negb_true_iff in H.
Qed.

Lemma valid_name_ne n : valid_name n = true -> n <> [].
Proof. destruct n; [discriminate | discriminate]. Qed.

Lemma drop_to_sep_rev_app a b :
  (forall x, In x a -> N.eqb x sep = false) -> drop_to_sep_rev (a ++ sep :: b) = sep :: b.
Proof.
  induction a as [|c a IH]; intros H; simpl.
  - reflexivity.
  - rewrite (H c (or_introl eq_refl)). apply IH. intros x Hx. apply H. now right.
Qed.

Lemma basename_rev_app a b acc :
  (forall x, In x a -> N.eqb x sep = false) -> basename_rev (a ++ sep :: b) acc = rev a ++ acc.
Proof.
  revert acc; induction a as [|c a IH]; intros acc H; simpl.
  - reflexivity.
  - rewrite (H c (or_introl eq_refl)). rewrite IH by (intros x Hx; apply H; now right).
    now rewrite <- app_assoc.
Qed.

Lemma in_rev_nosep n : (forall x, In x n -> N.eqb x sep = false) -> forall x, In x (rev n) -> N.eqb x sep = false.
Proof. intros H x Hx. apply H. now apply in_rev. Qed.

Lemma basename_child d n : valid_name n = true -> basename (d ++ sep :: n) = n.
Proof.
  intros Hn. unfold basename. rewrite rev_app_distr. simpl. rewrite <- app_assoc. simpl.
  rewrite basename_rev_app by (apply in_rev_nosep, valid_name_nosep, Hn).
  now rewrite rev_involutive, app_nil_r.
Qed.

Lemma dirname_child d n :
  d <> [] -> last_is_sep d = false -> valid_name n = true -> dirname (d ++ sep :: n) = d.
Proof.
  intros Hd Hs Hn. unfold dirname. rewrite rev_app_distr. simpl. rewrite <- app_assoc. simpl.
  rewrite drop_to_sep_rev_app by (apply in_rev_nosep, valid_name_nosep, Hn).
  simpl. rewrite rev_involutive.
  unfold rstrip_sep. rewrite rev_app_distr. simpl.
  unfold last_is_sep in Hs. destruct (rev d) as [|c r] eqn:E.
  - apply (f_equal (@rev N)) in E. rewrite rev_involutive in E. simpl in E. contradiction.
  - simpl. rewrite Hs. rewrite <- E, rev_involutive.
    destruct d; [contradiction | reflexivity].
Qed.

Lemma starts_sep_name a n : valid_name n = true -> starts (a ++ [sep]) n = false.
Proof.
  intros Hn. destruct (starts (a ++ [sep]) n) eqn:E; [|reflexivity].
  apply starts_spec in E as [r Hr]. assert (H := valid_name_nosep n Hn sep).
  exfalso. assert (In sep n); [|apply H in H0; discriminate].
  rewrite Hr. apply in_app_iff. left. apply in_app_iff. right. left. reflexivity.
Qed.

Lemma Neqb_sym' x y : N.eqb x y = N.eqb y x.
Proof. apply N.eqb_sym. Qed.

Lemma under_child root d n : valid_name n = true ->
  under root (d ++ sep :: n) = beqb d root || under root d.
Proof.
  intros Hn. unfold under. revert d. induction root as [|x root IH]; intros d.
  - destruct d as [|c d]; simpl; [reflexivity | now rewrite andb_true_r].
  - destruct d as [|c d]; simpl.
    + rewrite starts_sep_name by exact Hn. now rewrite andb_false_r.
    + rewrite IH. rewrite (N.eqb_sym c x). destruct (N.eqb x c); reflexivity.
Qed.

Lemma under_longer root p : under root p = true -> beqb p root = false.
Proof.
  unfold under. intros H. apply starts_spec in H as [r ->]. apply beqb_neq. intros E.
  apply (f_equal (@length N)) in E. rewrite !app_length in E. simpl in E. lia.
Qed.

Lemma child_neq d n : beqb (d ++ sep :: n) d = false.
Proof.
  apply beqb_neq. intros E. apply (f_equal (@length N)) in E. rewrite app_length in E. simpl in E. lia.
Qed.

Lemma in_scope_child rec root d n :
  d <> [] -> last_is_sep d = false -> valid_name n = true ->
  in_scope rec root (d ++ sep :: n) = watched_dir rec root d.
Proof.
  intros Hd Hs Hn. unfold in_scope, watched_dir, is_child.
  rewrite under_child by exact Hn. rewrite dirname_child by assumption.
  destruct (beqb d root) eqn:E.
  - apply beqb_eq in E. subst d. rewrite child_neq. simpl. now rewrite orb_true_r.
  - simpl. destruct rec; simpl; [now rewrite andb_true_r | now rewrite andb_false_r].
Qed.

Lemma child_ne d n : d ++ sep :: n <> [].
Proof. destruct d; discriminate. Qed.

Lemma child_last_sep d n : valid_name n = true -> last_is_sep (d ++ sep :: n) = false.
Proof.
  intros Hn. change (d ++ sep :: n) with (d ++ [sep] ++ n). rewrite app_assoc.
  now apply last_is_sep_app_name.
Qed.

(* ================================================================== 3. kernel, reader, emitter on one event *)
Definition kset (k : kst) (q : list kraw) (c : N) : kst :=
  {| k_watches := k_watches k; k_next_wd := k_next_wd k; k_queue := q; k_next_cookie := c |}.

Lemma kset_self k : k = kset k (k_queue k) (k_next_cookie k).
Proof. destruct k; reflexivity. Qed.

Definition kev (w : kwatch) (bit : N) (isdir : bool) (cookie : N) (name : bytes) : kraw :=
  {| k_wd := kw_wd w; k_mask := if isdir then N.lor bit IN_ISDIR else bit; k_cookie := cookie; k_name := name |}.

Lemma knotify_hit k q c ino bit isdir ck name w :
  watch_of_ino k ino = Some w -> kw_mask w = WATCHDOG_ALL -> N.eqb (N.land bit WATCHDOG_ALL) 0 = false ->
  knotify (kset k q c) ino bit isdir ck name = kset k (kpush q (kev w bit isdir ck name)) c.
Proof.
  intros Hw Hm Hb. unfold knotify.
  change (watch_of_ino (kset k q c) ino) with (watch_of_ino k ino). rewrite Hw, Hm, Hb. reflexivity.
Qed.

Lemma knotify_miss k q c ino bit isdir ck name :
  watch_of_ino k ino = None -> knotify (kset k q c) ino bit isdir ck name = kset k q c.
Proof.
  intros Hw. unfold knotify.
  change (watch_of_ino (kset k q c) ino) with (watch_of_ino k ino). now rewrite Hw.
Qed.

Lemma kpush_nil e : kpush [] e = [e].
Proof. reflexivity. Qed.

Lemma kpush_snoc q l e : kraw_eqb l e = false -> kpush (q ++ [l]) e = q ++ [l; e].
Proof. intros H. unfold kpush. rewrite rev_app_distr. simpl. rewrite H. now rewrite <- app_assoc. Qed.

Lemma kpush_one l e : kraw_eqb l e = false -> kpush [l] e = [l; e].
Proof. apply (kpush_snoc []). Qed.

Lemma kpush_two a l e : kraw_eqb l e = false -> kpush [a; l] e = [a; l; e].
Proof. apply (kpush_snoc [a]). Qed.

Lemma kraw_neq_mask a b : N.eqb (k_mask a) (k_mask b) = false -> kraw_eqb a b = false.
Proof. intros H. unfold kraw_eqb. rewrite H. now rewrite andb_false_r. Qed.

Definition rpath (wdp name : bytes) : bytes := match name with [] => wdp | _ => join wdp name end.
Definition mkraw (e : kraw) (p : bytes) : raw :=
  {| r_wd := k_wd e; r_mask := k_mask e; r_cookie := k_cookie e; r_name := k_name e; r_path := p |}.

Lemma rpath_child d n :
  d <> [] -> last_is_sep d = false -> valid_name n = true -> rpath d n = d ++ sep :: n.
Proof.
  intros Hd Hs Hn. unfold rpath. rewrite <- (join_name d n Hd Hs Hn).
  destruct n; [discriminate | reflexivity].
Qed.

Section ReadOne.
  Variable C : cfg.

  (* The reader lemmas are stated for a state in which no directory IN_MOVED_FROM is pending ([pend r = None]: every
     quiescent state except right after a directory has been moved out); [read_one_to] also accepts the pending
     first half of its own rename. *)
  Lemma read_one_plain t r k acc e wdp :
    pend r = None ->
    alookup N.eqb (k_wd e) (pfw r) = Some wdp ->
    is_moved_from (k_mask e) = false -> is_moved_to (k_mask e) = false ->
    Emitter.is_ignored (k_mask e) = false ->
    is_directory (k_mask e) && is_create (k_mask e) = false ->
    read_one C t (r, k, acc) e = Done (r, k, acc ++ [mkraw e (rpath wdp (k_name e))]).
  Proof.
    intros H0 H1 H2 H3 H4 H5. rewrite read_one_body_eq by exact H0.
    unfold read_one_body. rewrite H1, H2, H3, H4. cbn [r_path].
    rewrite <- andb_assoc, H5, andb_false_r. reflexivity.
  Qed.

  Lemma read_one_from t r k acc e wdp :
    pend r = None ->
    alookup N.eqb (k_wd e) (pfw r) = Some wdp ->
    is_moved_from (k_mask e) = true -> Emitter.is_ignored (k_mask e) = false ->
    is_directory (k_mask e) && is_create (k_mask e) = false ->
    read_one C t (r, k, acc) e =
    Done ({| wfp := wfp r; pfw := pfw r;
             mvf := aset N.eqb (k_cookie e) (rpath wdp (k_name e)) (mvf r); calls := calls r;
             pend := if c_fix_moveout C && c_recursive C && is_directory (k_mask e)
                     then Some (k_cookie e, rpath wdp (k_name e)) else pend r |},
          k, acc ++ [mkraw e (rpath wdp (k_name e))]).
  Proof.
    intros H0 H1 H2 H4 H5. rewrite read_one_body_eq by exact H0.
    unfold read_one_body. rewrite H1, H2, H4. cbn [r_path].
    rewrite <- andb_assoc, H5, andb_false_r. reflexivity.
  Qed.

  (* the loop head on the second half of a rename: nothing pending, or the pending first half of this very rename *)
  Lemma settle_own r k e wdp :
    (forall c p, pend r = Some (c, p) -> c = k_cookie e) -> is_moved_to (k_mask e) = true ->
    alookup N.eqb (k_wd e) (pfw r) = Some wdp ->
    exists r0, settle_pending C r k e = (r0, k) /\ pfw r0 = pfw r.
  Proof.
    intros Hown Hto Hwd. unfold settle_pending. destruct (c_fix_moveout C); [|eexists; split; reflexivity].
    destruct (pend r) as [[c p]|] eqn:Ep; [|eexists; split; reflexivity].
    unfold amem. rewrite (Hown c p eq_refl), Hto, N.eqb_refl, Hwd. eexists; split; reflexivity.
  Qed.

  (* the second half of a rename: the bookkeeping may change, the event is the same in every branch *)
  Lemma read_one_to t r k acc e wdp :
    (forall c p, pend r = Some (c, p) -> c = k_cookie e) ->
    alookup N.eqb (k_wd e) (pfw r) = Some wdp ->
    is_moved_from (k_mask e) = false -> is_moved_to (k_mask e) = true ->
    Emitter.is_ignored (k_mask e) = false ->
    is_directory (k_mask e) && is_create (k_mask e) = false ->
    exists r' k', read_one C t (r, k, acc) e = Done (r', k', acc ++ [mkraw e (join wdp (k_name e))]).
  Proof.
    intros H0 H1 H2 H3 H4 H5. unfold read_one.
    destruct (settle_own r k e wdp H0 H3 H1) as [r0 [-> Hpfw]]. rewrite <- Hpfw in H1. clear H0 Hpfw. revert H1.
    generalize r0. clear r. intros r H1.
    unfold read_one_body. rewrite H1, H2, H3, H4.
    assert (H5' : forall b, b && is_directory (k_mask e) && is_create (k_mask e) = false).
    { intros b. now rewrite <- andb_assoc, H5, andb_false_r. }
    destruct (alookup N.eqb (k_cookie e) (mvf r)) as [msrc|].
    - destruct (alookup beqb msrc (wfp r)) as [mwd|].
      + cbn [r_path]. rewrite H5'. eexists; eexists; reflexivity.
      + destruct (c_fix_movein C && c_recursive C && is_directory (k_mask e) && fisdir _ t).
        * destruct (add_dirs C r k t _) as [r' k']. cbn [r_path]. rewrite H5'.
          eexists; eexists; reflexivity.
        * cbn [r_path]. rewrite H5'. eexists; eexists; reflexivity.
    - destruct (c_fix_movein C && c_recursive C && is_directory (k_mask e) && fisdir _ t).
      + destruct (add_dirs C r k t _) as [r' k']. cbn [r_path]. rewrite H5'.
        eexists; eexists; reflexivity.
      + cbn [r_path]. rewrite H5'. eexists; eexists; reflexivity.
  Qed.

  (* IN_CREATE|IN_ISDIR for a directory that is still empty when the reader looks: a watch may be added,
     nothing is simulated *)
  Lemma read_one_mkdir t r k acc e wdp :
    pend r = None ->
    alookup N.eqb (k_wd e) (pfw r) = Some wdp ->
    is_moved_from (k_mask e) = false -> is_moved_to (k_mask e) = false ->
    Emitter.is_ignored (k_mask e) = false ->
    content t (rpath wdp (k_name e)) = Node [] [] ->
    exists r' k', read_one C t (r, k, acc) e = Done (r', k', acc ++ [mkraw e (rpath wdp (k_name e))]).
  Proof.
    intros H0 H1 H2 H3 H4 H5. rewrite read_one_body_eq by exact H0.
    unfold read_one_body. rewrite H1, H2, H3, H4. cbn [r_path].
    fold (rpath wdp (k_name e)).
    destruct (c_recursive C && is_directory (k_mask e) && is_create (k_mask e)).
    - destruct (add_watch C r k t (rpath wdp (k_name e))) as [[[r3 k3] wd]|].
      + rewrite H5. cbn. eexists; eexists; reflexivity.
      + eexists; eexists; reflexivity.
    - eexists; eexists; reflexivity.
  Qed.

  Lemma read_one_ignored t r k acc e path :
    pend r = None ->
    k_mask e = IN_IGNORED ->
    alookup N.eqb (k_wd e) (pfw r) = Some path ->
    alookup beqb path (wfp r) = Some (k_wd e) ->
    read_one C t (r, k, acc) e =
    Done ({| wfp := aremove beqb path (wfp r); pfw := aremove N.eqb (k_wd e) (pfw r); mvf := mvf r;
             calls := calls r; pend := pend r |}, k, acc ++ [mkraw e (rpath path (k_name e))]).
  Proof.
    intros H0 Hm H1 H2. rewrite read_one_body_eq by exact H0.
    unfold read_one_body. rewrite H1, Hm.
    change (is_moved_from IN_IGNORED) with false. change (is_moved_to IN_IGNORED) with false.
    change (Emitter.is_ignored IN_IGNORED) with true. cbn iota. rewrite H1. cbn [wfp pfw].
    rewrite H2, N.eqb_refl. cbn [wfp pfw mvf calls pend].
    change (is_create IN_IGNORED) with false. rewrite andb_false_r. unfold mkraw, rpath. rewrite Hm. reflexivity.
  Qed.

  Lemma group_pair f t c :
    nkind_of C f = KFrom c -> nkind_of C t = KTo c -> group_batch C [f; t] = [Pair f t].
  Proof.
    intros Hf Ht. unfold group_batch. cbn [group_go app]. rewrite Hf, Ht. cbn [pair_in_batch is_from_raw].
    rewrite Hf, N.eqb_refl. reflexivity.
  Qed.
End ReadOne.

(* ---- file-system facts *)
Lemma filter_none {A} (f : A -> bool) l : (forall x, In x l -> f x = false) -> filter f l = [].
Proof.
  induction l as [|a l IH]; intros H; simpl; [reflexivity|].
  rewrite (H a (or_introl eq_refl)). apply IH. intros x Hx. apply H. now right.
Qed.

Lemma content_no_children t p :
  (forall e, In e t -> is_child p (f_path e) = false) -> content t p = Node [] [].
Proof.
  intros H. unfold content. destruct (fisdir p t); [|reflexivity].
  destruct (length t); [reflexivity|]. cbn [content_fuel].
  rewrite !filter_none; [reflexivity | |]; intros e He; rewrite (H e He); reflexivity.
Qed.

Lemma is_child_self p : is_child p p = false.
Proof. unfold is_child. rewrite (beqb_refl p). now rewrite andb_false_r. Qed.

Lemma has_children_false p t :
  has_children p t = false -> forall e, In e t -> is_child p (f_path e) = false.
Proof.
  unfold has_children. intros H e He. destruct (is_child p (f_path e)) eqn:E; [|reflexivity].
  assert (existsb (fun e => is_child p (f_path e)) t = true) by (apply existsb_exists; eauto). congruence.
Qed.

Lemma content_fresh_dir t p ino :
  has_children p t = false ->
  content (t ++ [{| f_path := p; f_ino := ino; f_dir := true |}]) p = Node [] [].
Proof.
  intros H. apply content_no_children. intros e He. apply in_app_iff in He as [He|[<-|[]]].
  - now apply has_children_false with t.
  - apply is_child_self.
Qed.

(* ---- the kernel drops a watch *)
Definition kdrop (k : kst) (wd : N) : kst :=
  {| k_watches := filter (fun x => negb (N.eqb (kw_wd x) wd)) (k_watches k); k_next_wd := k_next_wd k;
     k_queue := k_queue k; k_next_cookie := k_next_cookie k |}.

Definition kignored (w : kwatch) : kraw := {| k_wd := kw_wd w; k_mask := IN_IGNORED; k_cookie := 0; k_name := [] |}.

Lemma kgone_hit k q c ino w :
  watch_of_ino k ino = Some w -> kw_mask w = WATCHDOG_ALL ->
  kgone (kset k q c) ino false =
  kset (kdrop k (kw_wd w)) (kpush (kpush q (kev w IN_DELETE_SELF false 0 [])) (kignored w)) c.
Proof.
  intros Hw Hm. unfold kgone.
  change (watch_of_ino (kset k q c) ino) with (watch_of_ino k ino). rewrite Hw.
  rewrite (knotify_hit _ _ _ _ _ _ _ _ w Hw Hm) by reflexivity. reflexivity.
Qed.

Lemma kgone_miss k q c ino af :
  watch_of_ino k ino = None -> kgone (kset k q c) ino af = kset k q c.
Proof.
  intros Hw. unfold kgone. change (watch_of_ino (kset k q c) ino) with (watch_of_ino k ino). now rewrite Hw.
Qed.

Lemma find_filter_some {A} (f g : A -> bool) l x : find f l = Some x -> g x = true -> find f (filter g l) = Some x.
Proof.
  induction l as [|a l IH]; simpl; [discriminate|]. destruct (f a) eqn:Ef.
  - intros H Hg. inversion H; subst. rewrite Hg. simpl. now rewrite Ef.
  - intros H Hg. destruct (g a); simpl; [rewrite Ef|]; auto.
Qed.

Lemma find_filter_none {A} (f g : A -> bool) l : find f l = None -> find f (filter g l) = None.
Proof.
  induction l as [|a l IH]; simpl; [reflexivity|]. destruct (f a) eqn:Ef; [discriminate|].
  intros H. destruct (g a); simpl; [rewrite Ef|]; auto.
Qed.

Lemma watch_kdrop k wd ino w :
  watch_of_ino k ino = Some w -> kw_wd w <> wd -> watch_of_ino (kdrop k wd) ino = Some w.
Proof.
  intros H Hn. unfold watch_of_ino, kdrop. cbn [k_watches]. apply find_filter_some; [exact H|].
  apply negb_true_iff. now apply N.eqb_neq.
Qed.

Lemma watch_kdrop_none k wd ino : watch_of_ino k ino = None -> watch_of_ino (kdrop k wd) ino = None.
Proof. intros H. unfold watch_of_ino, kdrop. cbn [k_watches]. now apply find_filter_none. Qed.

Lemma alookup_aremove_neq {V} (m : list (N * V)) a b :
  a <> b -> alookup N.eqb a (aremove N.eqb b m) = alookup N.eqb a m.
Proof.
  intros Hn. induction m as [|[x v] m IH]; simpl; [reflexivity|].
  destruct (N.eqb b x) eqn:Eb.
  - apply N.eqb_eq in Eb. subst x. rewrite IH. destruct (N.eqb a b) eqn:Ea; [|reflexivity].
    apply N.eqb_eq in Ea. contradiction.
  - simpl. now rewrite IH.
Qed.

(* ---- what os.walk finds under a renamed directory *)
Lemma beqb_sym a b : beqb a b = beqb b a.
Proof.
  destruct (beqb a b) eqn:E.
  - apply beqb_eq in E. subst. symmetry. apply beqb_refl.
  - symmetry. apply beqb_neq. apply beqb_neq in E. congruence.
Qed.

Lemma beqb_app_head a b c : beqb (a ++ b) (a ++ c) = beqb b c.
Proof. induction a as [|x a IH]; simpl; [reflexivity|]. now rewrite N.eqb_refl. Qed.

Lemma beqb_len a b : length a <> length b -> beqb a b = false.
Proof. intros H. apply beqb_neq. intros E. subst. contradiction. Qed.

Lemma last_is_sep_app a b : b <> [] -> last_is_sep (a ++ b) = last_is_sep b.
Proof.
  intros Hb. unfold last_is_sep. rewrite rev_app_distr. destruct (rev b) eqn:E; [|reflexivity].
  apply (f_equal (@rev N)) in E. rewrite rev_involutive in E. contradiction.
Qed.

Lemma dirname_top n : valid_name n = true -> dirname (sep :: n) = [sep].
Proof.
  intros Hn. unfold dirname. change (rev (sep :: n)) with (rev n ++ [sep]).
  rewrite (drop_to_sep_rev_app (rev n) []) by (apply in_rev_nosep, valid_name_nosep, Hn). reflexivity.
Qed.

Lemma dirname_wf d n : last_is_sep d = false -> valid_name n = true ->
  dirname (d ++ sep :: n) = match d with [] => [sep] | _ => d end.
Proof.
  intros Hs Hn. destruct d as [|c d]; [now apply dirname_top|].
  apply dirname_child; [discriminate | exact Hs | exact Hn].
Qed.

Lemma filter_map_comm {A B} (f : B -> bool) (g : A -> B) l :
  filter f (map g l) = map g (filter (fun a => f (g a)) l).
Proof. induction l as [|a l IH]; simpl; [reflexivity|]. destruct (f (g a)); simpl; now rewrite IH. Qed.

Lemma filter_ext_in' {A} (f g : A -> bool) l : (forall a, In a l -> f a = g a) -> filter f l = filter g l.
Proof.
  induction l as [|a l IH]; intros H; simpl; [reflexivity|].
  rewrite (H a (or_introl eq_refl)). rewrite IH; [reflexivity|]. intros b Hb. apply H. now right.
Qed.

Section Ren.
  Variables (dp np dq nq : bytes) (t : fs).
  Let p := dp ++ sep :: np.
  Let q := dq ++ sep :: nq.
  Hypothesis Hdp : dp <> [].
  Hypothesis Hsp : last_is_sep dp = false.
  Hypothesis Hnp : valid_name np = true.
  Hypothesis Hdq : dq <> [].
  Hypothesis Hsq : last_is_sep dq = false.
  Hypothesis Hnq : valid_name nq = true.
  Hypothesis Hwf : forall e, In e t -> wf_path (f_path e).
  Hypothesis Hnoq : forall e, In e t -> beqb q (f_path e) = false.
  Hypothesis Hunder : forall e, In e t -> under q (f_path e) = false.

  Definition rnE (e : fent) : fent :=
    if beqb (f_path e) p then {| f_path := q; f_ino := f_ino e; f_dir := f_dir e |}
    else if under p (f_path e)
         then {| f_path := q ++ skipn (length p) (f_path e); f_ino := f_ino e; f_dir := f_dir e |}
         else e.

  Lemma frename_map : frename p q t = map rnE t.
  Proof. reflexivity. Qed.

  (* x is p or a well-formed path below p *)
  Record inp (x sx : bytes) : Prop :=
    { inp_eq : x = p ++ sx; inp_sx : sx = [] \/ exists s, sx = sep :: s; inp_last : last_is_sep x = false }.

  Lemma inp_p : inp p [].
  Proof. constructor; [now rewrite app_nil_r | now left | apply child_last_sep; exact Hnp]. Qed.

  Lemma under_split x : under p x = true -> exists s, x = p ++ sep :: s.
  Proof. unfold under. intros H. apply starts_spec in H as [r0 ->]. exists r0. now rewrite <- app_assoc. Qed.

  Lemma inp_under x sx : inp x sx -> beqb x p || under p x = true.
  Proof.
    intros [He [Hs|[s Hs]] _]; subst.
    - rewrite app_nil_r, beqb_refl. reflexivity.
    - apply orb_true_iff. right. unfold under. apply starts_spec. exists s. now rewrite <- app_assoc.
  Qed.

  Lemma inp_ne x sx : inp x sx -> x <> [].
  Proof. intros [He _ _]. subst. unfold p. destruct dp; discriminate. Qed.

  Lemma rn_last sx : inp (p ++ sx) sx -> last_is_sep (q ++ sx) = false.
  Proof.
    intros [_ [Hs|[s Hs]] Hl]; subst.
    - rewrite app_nil_r. apply child_last_sep. exact Hnq.
    - rewrite last_is_sep_app in * by discriminate. exact Hl.
  Qed.

  Lemma lenp : length p = length dp + 1 + length np.
  Proof. unfold p. rewrite app_length. simpl. lia. Qed.
  Lemma lenq : length q = length dq + 1 + length nq.
  Proof. unfold q. rewrite app_length. simpl. lia. Qed.

  (* the three kinds of entries *)
  Inductive cls (e : fent) : Prop :=
  | ClsP : f_path e = p -> f_path (rnE e) = q -> cls e
  | ClsUnder sd n : f_path e = p ++ sd ++ sep :: n -> f_path (rnE e) = q ++ sd ++ sep :: n ->
                    valid_name n = true -> inp (p ++ sd) sd -> cls e
  | ClsOut d n : f_path e = d ++ sep :: n -> last_is_sep d = false -> valid_name n = true ->
                 rnE e = e -> under p (f_path e) = false -> cls e.

  Lemma classify e : In e t -> cls e.
  Proof.
    intros He. destruct (Hwf e He) as [d [n [Hy [Hd Hn]]]].
    destruct (beqb (f_path e) p) eqn:E1.
    - apply ClsP; [now apply beqb_eq | unfold rnE; rewrite E1; reflexivity].
    - destruct (under p (f_path e)) eqn:E2.
      + rewrite Hy in E2. rewrite under_child in E2 by exact Hn.
        assert (Hsd : exists sd, d = p ++ sd /\ (sd = [] \/ exists s, sd = sep :: s)).
        { apply orb_true_iff in E2 as [E2|E2].
          - apply beqb_eq in E2. exists []. split; [now rewrite app_nil_r | now left].
          - apply under_split in E2 as [s Hs]. exists (sep :: s). split; [exact Hs | right; eauto]. }
        destruct Hsd as [sd [Hdd Hsd]].
        apply ClsUnder with sd n.
        * rewrite Hy, Hdd. now rewrite <- app_assoc.
        * unfold rnE. rewrite E1.
          assert (Hu : under p (f_path e) = true).
          { rewrite Hy. rewrite under_child by exact Hn. exact E2. }
          rewrite Hu. cbn [f_path]. rewrite Hy, Hdd, <- app_assoc, skipn_app_length. reflexivity.
        * exact Hn.
        * constructor; [reflexivity | exact Hsd | now rewrite <- Hdd].
      + apply ClsOut with d n; auto. unfold rnE. now rewrite E1, E2.
  Qed.

  Lemma rnE_dir e : f_dir (rnE e) = f_dir e.
  Proof. unfold rnE. destruct (beqb (f_path e) p); [reflexivity|]. destruct (under p (f_path e)); reflexivity. Qed.

  Lemma is_child_rename e x sx : In e t -> inp x sx ->
    is_child (q ++ sx) (f_path (rnE e)) = is_child x (f_path e).
  Proof.
    intros He Hx. assert (Hxe := inp_eq _ _ Hx).
    destruct (classify e He) as [Hy Hy'|sd n Hy Hy' Hn Hd|d n Hy Hd Hn Hid Hnu].
    - (* the directory itself *)
      rewrite Hy, Hy'. unfold is_child.
      replace (dirname q) with dq by (symmetry; apply dirname_child; assumption).
      replace (dirname p) with dp by (symmetry; apply dirname_child; assumption).
      rewrite (beqb_len dq), (beqb_len dp); [reflexivity | |].
      + rewrite Hxe, app_length, lenp. lia.
      + rewrite app_length, lenq. lia.
    - (* below the directory *)
      rewrite Hy, Hy'. unfold is_child.
      rewrite !app_assoc.
      rewrite (dirname_child (q ++ sd)), (dirname_child (p ++ sd));
        try exact Hn; try (apply rn_last; exact Hd); try (exact (inp_last _ _ Hd));
        try (intros E0; apply (f_equal (@length N)) in E0; rewrite app_length, ?lenp, ?lenq in E0; simpl in E0; lia).
      rewrite Hxe. rewrite <- !app_assoc. rewrite !beqb_app_head. reflexivity.
    - (* elsewhere *)
      rewrite Hid. unfold is_child. rewrite Hy. rewrite dirname_wf by assumption.
      assert (H1 : beqb (match d with [] => [sep] | _ => d end) x = false).
      { destruct (beqb _ x) eqn:E; [|reflexivity]. apply beqb_eq in E. exfalso.
        destruct d as [|c d].
        - rewrite <- E in Hx. apply inp_last in Hx. discriminate.
        - rewrite E in Hy. rewrite Hy in Hnu. rewrite under_child in Hnu by exact Hn.
          rewrite (inp_under _ _ Hx) in Hnu. discriminate. }
      assert (H2 : beqb (match d with [] => [sep] | _ => d end) (q ++ sx) = false).
      { destruct (beqb _ (q ++ sx)) eqn:E; [|reflexivity]. apply beqb_eq in E. exfalso.
        destruct d as [|c d].
        - assert (Hl : last_is_sep (q ++ sx) = false) by (apply rn_last; rewrite <- Hxe; exact Hx).
          rewrite <- E in Hl. discriminate.
        - rewrite E in Hy. assert (Hu := Hunder e He). rewrite Hy in Hu.
          rewrite under_child in Hu by exact Hn. apply orb_false_iff in Hu as [Hu1 Hu2].
          destruct (inp_sx _ _ Hx) as [->|[s ->]].
          + rewrite app_nil_r, beqb_refl in Hu1. discriminate.
          + unfold under in Hu2.
            change (q ++ sep :: s) with (q ++ [sep] ++ s) in Hu2. rewrite app_assoc in Hu2.
            rewrite starts_app in Hu2. discriminate. }
      now rewrite H1, H2.
  Qed.

  Lemma child_renamed e x sx : In e t -> inp x sx -> is_child x (f_path e) = true ->
    exists sy, inp (f_path e) sy /\ f_path (rnE e) = q ++ sy /\ basename (f_path (rnE e)) = basename (f_path e).
  Proof.
    intros He Hx Hc. assert (Hxe := inp_eq _ _ Hx).
    destruct (classify e He) as [Hy Hy'|sd n Hy Hy' Hn Hd|d n Hy Hd Hn Hid Hnu].
    - exfalso. rewrite Hy in Hc. unfold is_child in Hc.
      replace (dirname p) with dp in Hc by (symmetry; apply dirname_child; assumption).
      rewrite (beqb_len dp) in Hc; [discriminate|].
      rewrite Hxe, app_length, lenp. lia.
    - exists (sd ++ sep :: n). split; [|split].
      + constructor; [exact Hy | | rewrite Hy, app_assoc; apply child_last_sep; exact Hn].
        right. destruct (inp_sx _ _ Hd) as [->|[s ->]]; [exists n; reflexivity | exists (s ++ sep :: n); reflexivity].
      + exact Hy'.
      + rewrite Hy, Hy'. rewrite !app_assoc. now rewrite !basename_child.
    - exfalso. unfold is_child in Hc. rewrite Hy in Hc. rewrite dirname_wf in Hc by assumption.
      apply andb_true_iff in Hc as [Hc _]. apply beqb_eq in Hc. destruct d as [|c d].
      + rewrite <- Hc in Hx. apply inp_last in Hx. discriminate.
      + rewrite Hc in Hy. rewrite Hy in Hnu. rewrite under_child in Hnu by exact Hn.
        rewrite (inp_under _ _ Hx) in Hnu. discriminate.
  Qed.

  Lemma content_fuel_rename n : forall x sx, inp x sx ->
    content_fuel n (map rnE t) (q ++ sx) = content_fuel n t x.
  Proof.
    induction n as [|n IH]; intros x sx Hx; [reflexivity|]. cbn [content_fuel].
    rewrite !filter_map_comm, !map_map.
    f_equal.
    - rewrite (filter_ext_in' _ (fun e => is_child x (f_path e) && f_dir e)).
      2:{ intros e He. now rewrite (is_child_rename e x sx He Hx), rnE_dir. }
      apply map_ext_in. intros e He. apply filter_In in He as [He Hc]. apply andb_true_iff in Hc as [Hc _].
      destruct (child_renamed e x sx He Hx Hc) as [sy [Hy [Hy' Hb]]].
      rewrite Hb, Hy'. f_equal. now apply IH.
    - rewrite (filter_ext_in' _ (fun e => is_child x (f_path e) && negb (f_dir e))).
      2:{ intros e He. now rewrite (is_child_rename e x sx He Hx), rnE_dir. }
      apply map_ext_in. intros e He. apply filter_In in He as [He Hc]. apply andb_true_iff in Hc as [Hc _].
      destruct (child_renamed e x sx He Hx Hc) as [sy [Hy [Hy' Hb]]]. exact Hb.
  Qed.

  Lemma flookup_renamed e : flookup p t = Some e ->
    flookup q (map rnE t) = Some {| f_path := q; f_ino := f_ino e; f_dir := f_dir e |}.
  Proof.
    clear Hwf Hunder. induction t as [|a l IH]; simpl; [discriminate|]. intros H.
    assert (Hnoq' : forall e0, In e0 l -> beqb q (f_path e0) = false) by (intros; apply Hnoq; now right).
    assert (Ha := Hnoq a (or_introl eq_refl)).
    rewrite (beqb_sym p (f_path a)) in H.
    assert (Hr : rnE a = if beqb (f_path a) p then {| f_path := q; f_ino := f_ino a; f_dir := f_dir a |}
                         else if under p (f_path a)
                              then {| f_path := q ++ skipn (length p) (f_path a); f_ino := f_ino a; f_dir := f_dir a |}
                              else a) by reflexivity.
    rewrite Hr. clear Hr.
    destruct (beqb (f_path a) p) eqn:E1.
    - inversion H; subst. cbn [f_path]. now rewrite beqb_refl.
    - destruct (under p (f_path a)) eqn:Eu.
      + cbn [f_path]. apply under_split in Eu as [s Hs]. rewrite Hs, skipn_app_length.
        rewrite (beqb_len q); [|rewrite app_length; simpl; lia]. now apply IH.
      + rewrite Ha. now apply IH.
  Qed.

  Lemma content_rename : fisdir p t = true -> content (frename p q t) q = content t p.
  Proof.
    intros Hd. unfold content. rewrite Hd. rewrite frename_map.
    unfold fisdir in *. destruct (flookup p t) as [e|] eqn:E; [|discriminate].
    rewrite (flookup_renamed e E). cbn [f_dir]. rewrite Hd. rewrite map_length.
    rewrite <- (content_fuel_rename (length t) p [] inp_p). now rewrite app_nil_r.
  Qed.
End Ren.

Lemma wf_go_dirs k t (l : list fent) :
  (forall e, In e l -> valid_name (basename (f_path e)) = true) ->
  (forall d, wf_tree (content_fuel k t d) = true) ->
  (fix go (l : list (bytes * tree)) : bool :=
     match l with
     | [] => true
     | (n, sub) :: l' => valid_name n && wf_tree sub && go l'
     end) (map (fun e => (basename (f_path e), content_fuel k t (f_path e))) l) = true.
Proof.
  intros Hv Hk. induction l as [|a l IH]; simpl; [reflexivity|].
  rewrite (Hv a (or_introl eq_refl)), Hk. simpl. apply IH. intros e He. apply Hv. now right.
Qed.

Lemma content_fuel_wf t : (forall e, In e t -> valid_name (basename (f_path e)) = true) ->
  forall n d, wf_tree (content_fuel n t d) = true.
Proof.
  intros Hv. induction n as [|n IH]; intros d; [reflexivity|]. cbn [content_fuel wf_tree].
  apply andb_true_iff. split.
  - apply forallb_forall. intros x Hx. apply in_map_iff in Hx as [e [<- He]].
    apply filter_In in He as [He _]. now apply Hv.
  - apply wf_go_dirs; [|exact IH]. intros e He. apply filter_In in He as [He _]. now apply Hv.
Qed.

Lemma content_wf t d : (forall e, In e t -> wf_path (f_path e)) -> wf_tree (content t d) = true.
Proof.
  intros Hwf. unfold content. destruct (fisdir d t); [|reflexivity]. apply content_fuel_wf.
  intros e He. destruct (Hwf e He) as [d0 [n [-> [_ Hn]]]]. now rewrite basename_child.
Qed.

(* ================================================================== 4. completeness, one operation at a time *)
Definition delivers (C : cfg) (full : bool) (w : world) (k : kst) (r : rstate) (o : op) : Prop :=
  exists evs, deliver_one C full w k r o = Some evs /\
              collapse evs = collapse (contract (c_recursive C) full (c_root C) (w_fs w) o).

Ltac mask_facts := try reflexivity; try (rewrite ?andb_false_r; reflexivity).

Section Complete.
  Variable C : cfg.
  Variable full : bool.
  Variables (w : world) (k : kst) (r : rstate).
  Hypothesis Hq : k_queue k = [].
  Hypothesis Hpend : pend r = None.       (* no directory IN_MOVED_FROM is waiting for its second half *)

  Ltac own :=
    cbn [pend k_cookie kev]; intros c0 p0 Hc0;
    first [ rewrite Hpend in Hc0; discriminate
          | match type of Hc0 with context [if ?b then _ else _] =>
              destruct b; [inversion Hc0; reflexivity | rewrite Hpend in Hc0; discriminate] end ].

  Let rec := c_recursive C.
  Let root := c_root C.

  Ltac start_op Happ Hd Hs Hn :=
    unfold delivers, deliver_one; rewrite Happ;
    unfold contract; rewrite ?in_scope_child by assumption;
    cbn [kernel_op]; rewrite ?dirname_child, ?basename_child by assumption;
    rewrite (kset_self k), Hq.
  Ltac finish_path d n :=
    cbn [k_name kev app]; rewrite ?rpath_child by assumption; generalize (d ++ sep :: n); intros p;
    eexists; split; reflexivity.

  Lemma contract_touch d n w' :
    d <> [] -> last_is_sep d = false -> valid_name n = true ->
    cover C r k (w_fs w) d ->
    apply_op w (Touch (d ++ sep :: n)) = Some w' ->
    delivers C full w k r (Touch (d ++ sep :: n)).
  Proof.
    intros Hd Hs Hn Hcov Happ. start_op Happ Hd Hs Hn. unfold cover in Hcov.
    destruct (watched_dir (c_recursive C) (c_root C) d).
    - destruct Hcov as [wt [Hw [Hm [Hp Hf]]]].
      rewrite !(knotify_hit _ _ _ _ _ _ _ _ wt Hw Hm) by reflexivity.
      rewrite kpush_nil, kpush_one, kpush_two by (apply kraw_neq_mask; reflexivity).
      cbn [k_queue kset read_batch].
      rewrite !(read_one_plain C _ _ _ _ _ d) by (first [exact Hpend | exact Hp | reflexivity]).
      finish_path d n.
    - rewrite !knotify_miss by exact Hcov. eexists; split; reflexivity.
  Qed.

  Lemma contract_write d n w' :
    d <> [] -> last_is_sep d = false -> valid_name n = true ->
    cover C r k (w_fs w) d ->
    apply_op w (Write (d ++ sep :: n)) = Some w' ->
    delivers C full w k r (Write (d ++ sep :: n)).
  Proof.
    intros Hd Hs Hn Hcov Happ. start_op Happ Hd Hs Hn. unfold cover in Hcov.
    destruct (watched_dir (c_recursive C) (c_root C) d).
    - destruct Hcov as [wt [Hw [Hm [Hp Hf]]]].
      rewrite !(knotify_hit _ _ _ _ _ _ _ _ wt Hw Hm) by reflexivity.
      rewrite kpush_nil, kpush_one, kpush_two by (apply kraw_neq_mask; reflexivity).
      cbn [k_queue kset read_batch].
      rewrite !(read_one_plain C _ _ _ _ _ d) by (first [exact Hpend | exact Hp | reflexivity]).
      finish_path d n.
    - rewrite !knotify_miss by exact Hcov. eexists; split; reflexivity.
  Qed.

  Lemma contract_unlink d n w' :
    d <> [] -> last_is_sep d = false -> valid_name n = true ->
    cover C r k (w_fs w) d ->
    apply_op w (Unlink (d ++ sep :: n)) = Some w' ->
    delivers C full w k r (Unlink (d ++ sep :: n)).
  Proof.
    intros Hd Hs Hn Hcov Happ. start_op Happ Hd Hs Hn. unfold cover in Hcov.
    destruct (watched_dir (c_recursive C) (c_root C) d).
    - destruct Hcov as [wt [Hw [Hm [Hp Hf]]]].
      rewrite !(knotify_hit _ _ _ _ _ _ _ _ wt Hw Hm) by reflexivity.
      rewrite kpush_nil.
      cbn [k_queue kset read_batch].
      rewrite !(read_one_plain C _ _ _ _ _ d) by (first [exact Hpend | exact Hp | reflexivity]).
      finish_path d n.
    - rewrite !knotify_miss by exact Hcov. eexists; split; reflexivity.
  Qed.

  (* chmod of a file *)
  Lemma contract_chmod_file d n w' :
    d <> [] -> last_is_sep d = false -> valid_name n = true ->
    cover C r k (w_fs w) d ->
    fisdir (d ++ sep :: n) (w_fs w) = false ->
    apply_op w (Chmod (d ++ sep :: n)) = Some w' ->
    delivers C full w k r (Chmod (d ++ sep :: n)).
  Proof.
    intros Hd Hs Hn Hcov Hfile Happ. start_op Happ Hd Hs Hn. unfold cover in Hcov. rewrite Hfile.
    destruct (watched_dir (c_recursive C) (c_root C) d).
    - destruct Hcov as [wt [Hw [Hm [Hp Hf]]]].
      rewrite !(knotify_hit _ _ _ _ _ _ _ _ wt Hw Hm) by reflexivity.
      rewrite kpush_nil.
      cbn [k_queue kset read_batch].
      rewrite !(read_one_plain C _ _ _ _ _ d) by (first [exact Hpend | exact Hp | reflexivity]).
      finish_path d n.
    - rewrite !knotify_miss by exact Hcov. eexists; split; reflexivity.
  Qed.

  Lemma nevent_eqb_refl a : nevent_eqb a a = true.
  Proof.
    unfold nevent_eqb. rewrite !beqb_refl. destruct (ev_cls a), (ev_synth a); reflexivity.
  Qed.

  Lemma collapse_dup a l : collapse (a :: a :: l) = collapse (a :: l).
  Proof. cbn [collapse]. now rewrite nevent_eqb_refl. Qed.

  Lemma watched_child d n :
    valid_name n = true -> beqb (d ++ sep :: n) root = false ->
    watched_dir rec root (d ++ sep :: n) = true -> watched_dir rec root d = true.
  Proof.
    intros Hn Hr. unfold watched_dir. rewrite Hr. simpl. intros H. apply andb_true_iff in H as [-> H].
    rewrite under_child in H by exact Hn. simpl. exact H.
  Qed.

  Lemma kraw_neq_name a b : beqb (k_name a) (k_name b) = false -> kraw_eqb a b = false.
  Proof. intros H. unfold kraw_eqb. rewrite H. now rewrite andb_false_r. Qed.

  (* chmod of a directory: reported through the parent's watch and through its own watch *)
  Lemma contract_chmod_dir d n w' :
    d <> [] -> last_is_sep d = false -> valid_name n = true ->
    cover C r k (w_fs w) d -> cover C r k (w_fs w) (d ++ sep :: n) ->
    d ++ sep :: n <> root ->
    fisdir (d ++ sep :: n) (w_fs w) = true ->
    apply_op w (Chmod (d ++ sep :: n)) = Some w' ->
    delivers C full w k r (Chmod (d ++ sep :: n)).
  Proof.
    intros Hd Hs Hn Hcov Hcovp Hnr Hdir Happ. start_op Happ Hd Hs Hn. unfold cover in Hcov, Hcovp.
    rewrite Hdir. apply beqb_neq in Hnr.
    assert (Hwc := watched_child d n Hn Hnr). fold rec root in Hcov, Hcovp |- *.
    destruct (watched_dir rec root d).
    - destruct Hcov as [wt [Hw [Hm [Hp Hf]]]].
      rewrite !(knotify_hit _ _ _ _ _ _ _ _ wt Hw Hm) by reflexivity. rewrite kpush_nil.
      destruct (watched_dir rec root (d ++ sep :: n)).
      + destruct Hcovp as [wp [Hw' [Hm' [Hp' Hf']]]].
        rewrite !(knotify_hit _ _ _ _ _ _ _ _ wp Hw' Hm') by reflexivity.
        rewrite kpush_one by (apply kraw_neq_name; cbn; destruct n; [discriminate | reflexivity]).
        cbn [k_queue kset read_batch].
        rewrite (read_one_plain C _ _ _ _ _ d) by (first [exact Hpend | exact Hp | reflexivity]).
        rewrite (read_one_plain C _ _ _ _ _ (d ++ sep :: n)) by (first [exact Hpend | exact Hp' | reflexivity]).
        cbn [k_name kev app rpath]. rewrite ?rpath_child by assumption. generalize (d ++ sep :: n). intros p.
        eexists. split; [reflexivity|].
        match goal with |- collapse ?l = _ => let l' := eval cbv in l in change l with l' end.
        apply collapse_dup.
      + rewrite !knotify_miss by exact Hcovp.
        cbn [k_queue kset read_batch].
        rewrite (read_one_plain C _ _ _ _ _ d) by (first [exact Hpend | exact Hp | reflexivity]).
        finish_path d n.
    - rewrite !knotify_miss by exact Hcov.
      destruct (watched_dir rec root (d ++ sep :: n)); [specialize (Hwc eq_refl); discriminate|].
      rewrite !knotify_miss by exact Hcovp. eexists; split; reflexivity.
  Qed.

  Ltac start_rename Happ :=
    unfold delivers, deliver_one; rewrite Happ;
    unfold contract; rewrite ?in_scope_child by assumption;
    cbn [kernel_op]; rewrite ?dirname_child, ?basename_child by assumption;
    match goal with
    | |- context [ {| k_watches := k_watches k; k_next_wd := k_next_wd k; k_queue := k_queue k;
                      k_next_cookie := ?c |} ] =>
      change {| k_watches := k_watches k; k_next_wd := k_next_wd k; k_queue := k_queue k;
                k_next_cookie := c |} with (kset k (k_queue k) c)
    end; rewrite Hq.

  (* rename of a file: inside the scope, out of it, into it; the target is absent or a file (replaced) *)
  Lemma contract_rename_file dp np dq nq w' :
    dp <> [] -> last_is_sep dp = false -> valid_name np = true ->
    dq <> [] -> last_is_sep dq = false -> valid_name nq = true ->
    cover C r k (w_fs w) dp -> cover C r k (w_fs w) dq ->
    fisdir (dp ++ sep :: np) (w_fs w) = false -> fisdir (dq ++ sep :: nq) (w_fs w) = false ->
    apply_op w (Rename (dp ++ sep :: np) (dq ++ sep :: nq)) = Some w' ->
    delivers C full w k r (Rename (dp ++ sep :: np) (dq ++ sep :: nq)).
  Proof.
    intros Hdp Hsp Hnp Hdq Hsq Hnq Hcp Hcq Hfp Hfq Happ. start_rename Happ.
    rewrite Hfp, Hfq. unfold cover in Hcp, Hcq. fold rec root in Hcp, Hcq |- *.
    destruct (watched_dir rec root dp).
    - destruct Hcp as [wp [Hw [Hm [Hp Hf]]]].
      rewrite (knotify_hit _ _ _ _ _ _ _ _ wp Hw Hm) by reflexivity. rewrite kpush_nil.
      destruct (watched_dir rec root dq).
      + destruct Hcq as [wq [Hw' [Hm' [Hp' Hf']]]].
        rewrite (knotify_hit _ _ _ _ _ _ _ _ wq Hw' Hm') by reflexivity.
        rewrite kpush_one by (apply kraw_neq_mask; reflexivity).
        cbn [k_queue kset read_batch].
        rewrite (read_one_from C _ _ _ _ _ dp) by (first [exact Hpend | exact Hp | reflexivity]).
        match goal with |- context [read_one C ?t (?r1, ?k1, ?acc) ?e] =>
          destruct (read_one_to C t r1 k1 acc e dq) as [r' [k' Hrd]];
            [own | exact Hp' | reflexivity | reflexivity | reflexivity | reflexivity | rewrite Hrd] end.
        cbn [k_name kev app rpath]. rewrite ?rpath_child by assumption.
        rewrite (join_name dq nq) by assumption.
        generalize (dp ++ sep :: np) (dq ++ sep :: nq). intros p q.
        rewrite (group_pair C _ _ (k_next_cookie k)) by reflexivity.
        eexists. split; [reflexivity|].
        cbn. rewrite andb_false_r. reflexivity.
      + rewrite knotify_miss by exact Hcq.
        cbn [k_queue kset read_batch].
        rewrite (read_one_from C _ _ _ _ _ dp) by (first [exact Hpend | exact Hp | reflexivity]).
        cbn [k_name kev app rpath]. rewrite ?rpath_child by assumption.
        generalize (dp ++ sep :: np) (dq ++ sep :: nq). intros p q.
        eexists. split; [reflexivity|]. destruct full; reflexivity.
    - rewrite knotify_miss by exact Hcp.
      destruct (watched_dir rec root dq).
      + destruct Hcq as [wq [Hw' [Hm' [Hp' Hf']]]].
        rewrite (knotify_hit _ _ _ _ _ _ _ _ wq Hw' Hm') by reflexivity. rewrite kpush_nil.
        cbn [k_queue kset read_batch].
        match goal with |- context [read_one C ?t (?r1, ?k1, ?acc) ?e] =>
          destruct (read_one_to C t r1 k1 acc e dq) as [r' [k' Hrd]];
            [own | exact Hp' | reflexivity | reflexivity | reflexivity | reflexivity | rewrite Hrd] end.
        cbn [k_name kev app rpath]. rewrite (join_name dq nq) by assumption.
        generalize (dp ++ sep :: np) (dq ++ sep :: nq). intros p q.
        eexists. split; [reflexivity|]. destruct full; cbn; rewrite ?andb_false_r; reflexivity.
      + rewrite knotify_miss by exact Hcq. eexists; split; reflexivity.
  Qed.

  Lemma apply_mkdir_fs p w' :
    apply_op w (Mkdir p) = Some w' ->
    w_fs w' = w_fs w ++ [{| f_path := p; f_ino := w_next_ino w; f_dir := true |}].
  Proof.
    cbn [apply_op]. destruct (fisdir (dirname p) (w_fs w) && negb (fexists p (w_fs w))); [|discriminate].
    intros H. inversion H. reflexivity.
  Qed.

  (* mkdir; "no entry of the tree lies directly under the not yet existing path" is part of the
     well-formedness of the tree *)
  Lemma contract_mkdir d n w' :
    d <> [] -> last_is_sep d = false -> valid_name n = true ->
    cover C r k (w_fs w) d ->
    has_children (d ++ sep :: n) (w_fs w) = false ->
    apply_op w (Mkdir (d ++ sep :: n)) = Some w' ->
    delivers C full w k r (Mkdir (d ++ sep :: n)).
  Proof.
    intros Hd Hs Hn Hcov Hnc Happ. assert (Hfs := apply_mkdir_fs _ _ Happ).
    start_op Happ Hd Hs Hn. unfold cover in Hcov.
    destruct (watched_dir (c_recursive C) (c_root C) d).
    - destruct Hcov as [wt [Hw [Hm [Hp Hf]]]].
      rewrite !(knotify_hit _ _ _ _ _ _ _ _ wt Hw Hm) by reflexivity.
      rewrite kpush_nil.
      cbn [k_queue kset read_batch].
      match goal with |- context [read_one C ?t (?r1, ?k1, ?acc) ?e] =>
        destruct (read_one_mkdir C t r1 k1 acc e d) as [r' [k' Hrd]];
          [exact Hpend | exact Hp | reflexivity | reflexivity | reflexivity | | rewrite Hrd] end.
      { cbn [k_name kev]. rewrite rpath_child by assumption. rewrite Hfs. now apply content_fresh_dir. }
      finish_path d n.
    - rewrite !knotify_miss by exact Hcov. eexists; split; reflexivity.
  Qed.

  Lemma emit_delete_self_nonroot ct wd c nm p :
    beqb p root = false ->
    emit_single full rec root ct {| r_wd := wd; r_mask := IN_DELETE_SELF; r_cookie := c; r_name := nm; r_path := p |}
    = ([], false).
  Proof. intros H. unfold emit_single. cbn [r_mask r_path]. rewrite H. reflexivity. Qed.

  Lemma wd_distinct (w1 w2 : kwatch) a b :
    alookup N.eqb (kw_wd w1) (pfw r) = Some a -> alookup N.eqb (kw_wd w2) (pfw r) = Some b -> a <> b ->
    kw_wd w1 <> kw_wd w2.
  Proof. intros H1 H2 Hn E. rewrite E in H1. congruence. Qed.

  Lemma contract_rmdir d n w' :
    d <> [] -> last_is_sep d = false -> valid_name n = true ->
    cover C r k (w_fs w) d -> cover C r k (w_fs w) (d ++ sep :: n) ->
    d ++ sep :: n <> root ->
    apply_op w (Rmdir (d ++ sep :: n)) = Some w' ->
    delivers C full w k r (Rmdir (d ++ sep :: n)).
  Proof.
    intros Hd Hs Hn Hcov Hcovp Hnr Happ. start_op Happ Hd Hs Hn. unfold cover in Hcov, Hcovp.
    apply beqb_neq in Hnr. fold rec root in Hcov, Hcovp |- *.
    assert (Hdp : d <> d ++ sep :: n).
    { intros E. apply (f_equal (@length N)) in E. rewrite app_length in E. simpl in E. lia. }
    destruct (watched_dir rec root (d ++ sep :: n)).
    - destruct Hcovp as [wp [Hw' [Hm' [Hp' Hf']]]].
      rewrite (kgone_hit _ _ _ _ wp Hw' Hm'). rewrite kpush_nil.
      rewrite kpush_one by (apply kraw_neq_mask; reflexivity).
      destruct (watched_dir rec root d).
      + destruct Hcov as [wt [Hw [Hm [Hp Hf]]]].
        assert (Hne := wd_distinct wt wp _ _ Hp Hp' Hdp).
        rewrite (knotify_hit _ _ _ _ _ _ _ _ wt (watch_kdrop _ _ _ _ Hw Hne) Hm) by reflexivity.
        rewrite kpush_two by (apply kraw_neq_mask; reflexivity).
        cbn [k_queue kset read_batch].
        rewrite (read_one_plain C _ _ _ _ _ (d ++ sep :: n)) by (first [exact Hpend | exact Hp' | reflexivity]).
        rewrite (read_one_ignored C _ _ _ _ _ (d ++ sep :: n)) by (first [exact Hpend | exact Hp' | exact Hf' | reflexivity]).
        rewrite (read_one_plain C _ _ _ _ _ d)
          by (first [exact Hpend | cbn [pfw k_wd kev kignored]; rewrite alookup_aremove_neq by exact Hne; exact Hp | reflexivity]).
        cbn [k_name kev kignored app rpath]. rewrite ?rpath_child by assumption.
        revert Hnr. generalize (d ++ sep :: n). intros p Hnr.
        eexists. split; [reflexivity|].
        match goal with |- context [group_batch C ?l] =>
          let g := eval lazy in (group_batch C l) in change (group_batch C l) with g end.
        cbn [emit_all emit mkraw kev]. rewrite emit_delete_self_nonroot by exact Hnr.
        reflexivity.
      + rewrite knotify_miss by (apply watch_kdrop_none; exact Hcov).
        cbn [k_queue kset read_batch].
        rewrite (read_one_plain C _ _ _ _ _ (d ++ sep :: n)) by (first [exact Hpend | exact Hp' | reflexivity]).
        rewrite (read_one_ignored C _ _ _ _ _ (d ++ sep :: n)) by (first [exact Hpend | exact Hp' | exact Hf' | reflexivity]).
        cbn [k_name kev kignored app rpath].
        revert Hnr. generalize (d ++ sep :: n). intros p Hnr.
        eexists. split; [reflexivity|].
        match goal with |- context [group_batch C ?l] =>
          let g := eval lazy in (group_batch C l) in change (group_batch C l) with g end.
        cbn [emit_all emit mkraw kev]. rewrite emit_delete_self_nonroot by exact Hnr.
        reflexivity.
    - rewrite kgone_miss by exact Hcovp.
      destruct (watched_dir rec root d).
      + destruct Hcov as [wt [Hw [Hm [Hp Hf]]]].
        rewrite (knotify_hit _ _ _ _ _ _ _ _ wt Hw Hm) by reflexivity. rewrite kpush_nil.
        cbn [k_queue kset read_batch].
        rewrite (read_one_plain C _ _ _ _ _ d) by (first [exact Hpend | exact Hp | reflexivity]).
        finish_path d n.
      + rewrite knotify_miss by exact Hcov. eexists; split; reflexivity.
  Qed.

  Lemma sub_moved_synth_eq p q T :
    p <> [] -> q <> [] -> last_is_sep q = false -> wf_tree T = true -> sub_moved p q T = synth_moved p q T.
  Proof.
    intros Hp0 Hq0 Hs0 Hwf. unfold sub_moved, synth_moved. rewrite (sub_moved_correct _ _ Hp0 Hq0 Hs0 _ Hwf).
    rewrite map_map. apply map_ext. intros [k0 rel]. unfold expect_moved. cbn. destruct k0; reflexivity.
  Qed.

  Lemma sub_created_synth_eq q T :
    q <> [] -> last_is_sep q = false -> wf_tree T = true -> sub_created q T = synth_created q T.
  Proof.
    intros Hq0 Hs0 Hwf. unfold sub_created, synth_created. rewrite (sub_created_correct _ Hq0 Hs0 _ Hwf).
    rewrite map_map. apply map_ext. intros [k0 rel]. unfold expect_created. cbn. destruct k0; reflexivity.
  Qed.

  (* rename of a directory onto a name that does not exist: inside the scope (with the synthetic moved events
     of its descendants), out of it, into it (with synthetic created events).  The two facts about the tree
     (what os.walk finds under the new name afterwards is what it found under the old name before; names are
     valid) are hypotheses here and discharged from well-formedness of the tree below. *)
  Lemma contract_rename_dir_tree dp np dq nq w' :
    dp <> [] -> last_is_sep dp = false -> valid_name np = true ->
    dq <> [] -> last_is_sep dq = false -> valid_name nq = true ->
    cover C r k (w_fs w) dp -> cover C r k (w_fs w) dq ->
    fisdir (dp ++ sep :: np) (w_fs w) = true -> fisdir (dq ++ sep :: nq) (w_fs w) = false ->
    content (w_fs w') (dq ++ sep :: nq) = content (w_fs w) (dp ++ sep :: np) ->
    wf_tree (content (w_fs w) (dp ++ sep :: np)) = true ->
    apply_op w (Rename (dp ++ sep :: np) (dq ++ sep :: nq)) = Some w' ->
    delivers C full w k r (Rename (dp ++ sep :: np) (dq ++ sep :: nq)).
  Proof.
    intros Hdp Hsp Hnp Hdq Hsq Hnq Hcp Hcq Hfp Hfq Hct Hwf Happ. start_rename Happ.
    rewrite Hfp, Hfq. unfold cover in Hcp, Hcq. fold rec root in Hcp, Hcq |- *.
    assert (Hsm := sub_moved_synth_eq (dp ++ sep :: np) (dq ++ sep :: nq) _ (child_ne dp np) (child_ne dq nq)
                                      (child_last_sep dq nq Hnq) Hwf).
    assert (Hsc := sub_created_synth_eq (dq ++ sep :: nq) _ (child_ne dq nq) (child_last_sep dq nq Hnq) Hwf).
    rewrite <- Hct in Hsm, Hsc.
    destruct (watched_dir rec root dp).
    - destruct Hcp as [wp [Hw [Hm [Hp Hf]]]].
      rewrite (knotify_hit _ _ _ _ _ _ _ _ wp Hw Hm) by reflexivity. rewrite kpush_nil.
      destruct (watched_dir rec root dq).
      + destruct Hcq as [wq [Hw' [Hm' [Hp' Hf']]]].
        rewrite (knotify_hit _ _ _ _ _ _ _ _ wq Hw' Hm') by reflexivity.
        rewrite kpush_one by (apply kraw_neq_mask; reflexivity).
        cbn [k_queue kset read_batch].
        rewrite (read_one_from C _ _ _ _ _ dp) by (first [exact Hpend | exact Hp | reflexivity]).
        match goal with |- context [read_one C ?t (?r1, ?k1, ?acc) ?e] =>
          destruct (read_one_to C t r1 k1 acc e dq) as [r' [k' Hrd]];
            [own | exact Hp' | reflexivity | reflexivity | reflexivity | reflexivity | rewrite Hrd] end.
        cbn [k_name kev app rpath]. rewrite ?rpath_child by assumption.
        rewrite (join_name dq nq) by assumption.
        rewrite <- Hct.
        set (p := dp ++ sep :: np) in *. set (q := dq ++ sep :: nq) in *.
        rewrite (group_pair C _ _ (k_next_cookie k)) by reflexivity.
        eexists. split; [reflexivity|].
        cbn [emit_all emit]. unfold emit_pair. cbn [r_path r_mask mkraw kev k_mask fst snd].
        change (is_directory (N.lor IN_MOVED_FROM IN_ISDIR)) with true.
        rewrite Hsm. destruct rec; cbn [andb app]; rewrite ?app_nil_r; reflexivity.
      + rewrite knotify_miss by exact Hcq.
        cbn [k_queue kset read_batch].
        rewrite (read_one_from C _ _ _ _ _ dp) by (first [exact Hpend | exact Hp | reflexivity]).
        cbn [k_name kev app rpath]. rewrite ?rpath_child by assumption.
        set (p := dp ++ sep :: np) in *. set (q := dq ++ sep :: nq) in *.
        eexists. split; [reflexivity|]. destruct full; reflexivity.
    - rewrite knotify_miss by exact Hcp.
      destruct (watched_dir rec root dq).
      + destruct Hcq as [wq [Hw' [Hm' [Hp' Hf']]]].
        rewrite (knotify_hit _ _ _ _ _ _ _ _ wq Hw' Hm') by reflexivity. rewrite kpush_nil.
        cbn [k_queue kset read_batch].
        match goal with |- context [read_one C ?t (?r1, ?k1, ?acc) ?e] =>
          destruct (read_one_to C t r1 k1 acc e dq) as [r' [k' Hrd]];
            [own | exact Hp' | reflexivity | reflexivity | reflexivity | reflexivity | rewrite Hrd] end.
        cbn [k_name kev app rpath]. rewrite (join_name dq nq) by assumption.
        rewrite <- Hct.
        set (p := dp ++ sep :: np) in *. set (q := dq ++ sep :: nq) in *.
        eexists. split; [reflexivity|].
        match goal with |- context [group_batch C [?e]] => change (group_batch C [e]) with [Single e] end.
        cbn [emit_all emit]. unfold emit_single. cbn [r_path r_mask mkraw kev k_mask fst snd].
        change (is_moved_to (N.lor IN_MOVED_TO IN_ISDIR)) with true.
        change (is_directory (N.lor IN_MOVED_TO IN_ISDIR)) with true. cbv iota.
        rewrite Hsc. destruct rec, full; cbn [andb app]; rewrite ?app_nil_r; reflexivity.
      + rewrite knotify_miss by exact Hcq. eexists; split; reflexivity.
  Qed.

  Lemma flookup_none q t : flookup q t = None -> forall e, In e t -> beqb q (f_path e) = false.
  Proof.
    induction t as [|a l IH]; simpl; [intros _ e []|]. destruct (beqb q (f_path a)) eqn:E; [discriminate|].
    intros H e [<-|He]; [exact E | now apply IH].
  Qed.

  (* the same from well-formedness of the tree: every entry has a well-formed path, the target does not exist
     and nothing lies under it *)
  Lemma contract_rename_dir dp np dq nq w' :
    dp <> [] -> last_is_sep dp = false -> valid_name np = true ->
    dq <> [] -> last_is_sep dq = false -> valid_name nq = true ->
    cover C r k (w_fs w) dp -> cover C r k (w_fs w) dq ->
    fisdir (dp ++ sep :: np) (w_fs w) = true -> fexists (dq ++ sep :: nq) (w_fs w) = false ->
    (forall e, In e (w_fs w) -> wf_path (f_path e)) ->
    (forall e, In e (w_fs w) -> under (dq ++ sep :: nq) (f_path e) = false) ->
    apply_op w (Rename (dp ++ sep :: np) (dq ++ sep :: nq)) = Some w' ->
    delivers C full w k r (Rename (dp ++ sep :: np) (dq ++ sep :: nq)).
  Proof.
    intros Hdp Hsp Hnp Hdq Hsq Hnq Hcp Hcq Hfp Hfq Hwf Hun Happ.
    assert (Hq0 : flookup (dq ++ sep :: nq) (w_fs w) = None).
    { unfold fexists in Hfq. destruct (flookup _ (w_fs w)); [discriminate | reflexivity]. }
    assert (Hfs : w_fs w' = frename (dp ++ sep :: np) (dq ++ sep :: nq) (w_fs w)).
    { cbn [apply_op] in Happ. destruct (flookup (dp ++ sep :: np) (w_fs w)); [|discriminate].
      destruct (beqb _ _ || under _ _ || negb _); [discriminate|]. rewrite Hq0 in Happ.
      inversion Happ. reflexivity. }
    apply contract_rename_dir_tree with w'; try assumption.
    - unfold fisdir. now rewrite Hq0.
    - rewrite Hfs. apply content_rename; try assumption. now apply flookup_none.
    - now apply content_wf.
  Qed.
End Complete.

(* ================================================================== 5. history-level soundness: refuted (F10) *)
(* every event queued along any history of the pipeline model is justified by an operation executed before it *)
Definition sound_full : Prop :=
  forall P w s0 h, pc_filter P = None -> c_mask (pc_reader P) = WATCHDOG_ALL ->
    pinit P w = Some s0 -> sound_along P s0 [] h = true.

Definition ph_R : bytes := [47; 82]%N.                       (* /R  - the watched root *)
Definition ph_O : bytes := [47; 79]%N.                       (* /O  - outside *)
Definition ph_Rd : bytes := [47; 82; 47; 100]%N.             (* /R/d *)
Definition ph_Od : bytes := [47; 79; 47; 100]%N.             (* /O/d *)
Definition ph_Odg : bytes := [47; 79; 47; 100; 47; 103]%N.   (* /O/d/g *)
Definition ph_Rdg : bytes := [47; 82; 47; 100; 47; 103]%N.   (* /R/d/g - the stale in-tree path *)

Definition ph_cfg : pcfg :=
  {| pc_reader := {| c_recursive := true; c_mask := WATCHDOG_ALL; c_root := ph_R; c_fix_ignored := true;
                     c_fix_movein := true; c_fix_simulate := true;
                     c_fix_relabel := true;      (* irrelevant for this witness: no descriptor comes back under another path *)
                     c_fix_moveout := false;     (* the code before the repair of F10 *)
                     c_faults := [] |};
     pc_full := false; pc_filter := None; pc_delay := 5 |}.

Definition ph_world : world :=
  {| w_fs := [ {| f_path := ph_R; f_ino := 1; f_dir := true |}; {| f_path := ph_O; f_ino := 2; f_dir := true |} ];
     w_next_ino := 10 |}.

(* mkdir R/d; drain; rename R/d -> O/d; drain (the pairing delay elapses); touch O/d/g; drain *)
Definition ph_history : list action :=
  [AOp (Mkdir ph_Rd); ARead 100; AEmit; AEmit;
   AOp (Rename ph_Rd ph_Od); ARead 100; ATick 10; AEmit; AEmit;
   AOp (Touch ph_Odg); ARead 100; AEmit; AEmit; AEmit; AEmit].

Lemma phantom_delivered :
  exists s0 s obs, pinit ph_cfg ph_world = Some s0 /\ prun ph_cfg s0 ph_history [] = Done (s, obs) /\
    In (mk FileCreated ph_Rdg []) (p_out s) /\ fexists ph_Rdg (w_fs (p_world s)) = false /\
    fexists ph_Odg (w_fs (p_world s)) = true.
Proof.
  eexists; eexists; eexists. split; [vm_compute; reflexivity|]. split; [vm_compute; reflexivity|].
  split; [|split; vm_compute; reflexivity]. vm_compute. right. right. right. right. left. reflexivity.
Qed.

Lemma sound_refuted_phantom :
  exists P w s0 h, pc_filter P = None /\ c_mask (pc_reader P) = WATCHDOG_ALL /\
    c_fix_ignored (pc_reader P) = true /\ c_fix_movein (pc_reader P) = true /\ c_fix_simulate (pc_reader P) = true /\
    c_fix_moveout (pc_reader P) = false /\
    pinit P w = Some s0 /\ sound_along P s0 [] h = false.
Proof.
  exists ph_cfg, ph_world. eexists. exists ph_history.
  do 6 (split; [reflexivity|]). split; [vm_compute; reflexivity|]. vm_compute. reflexivity.
Qed.

Lemma sound_full_false : ~ sound_full.
Proof.
  intros H. destruct sound_refuted_phantom as [P [w [s0 [h [H1 [H2 [_ [_ [_ [_ [H3 H4]]]]]]]]]]].
  rewrite (H P w s0 h H1 H2 H3) in H4. discriminate.
Qed.

(* ================================================================== 6. a concrete small world for the non-vacuity examples *)
Definition ex_sl (a : bytes) (c : N) : bytes := a ++ [sep; c].
Definition ex_R : bytes := [47; 82]%N.                 (* /R *)
Definition ex_O : bytes := [47; 79]%N.                 (* /O *)
Definition ex_Rd : bytes := ex_sl ex_R 100.            (* /R/d      directory *)
Definition ex_Rdf : bytes := ex_sl ex_Rd 102.          (* /R/d/f    file *)
Definition ex_Rde : bytes := ex_sl ex_Rd 101.          (* /R/d/e    empty directory *)
Definition ex_Rx : bytes := ex_sl ex_R 120.            (* /R/x      file *)
Definition ex_Oy : bytes := ex_sl ex_O 121.            (* /O/y      file *)
Definition ex_Oz : bytes := ex_sl ex_O 122.            (* /O/z      directory *)
Definition ex_Ozg : bytes := ex_sl ex_Oz 103.          (* /O/z/g    file *)

Definition ex_fs : fs :=
  [ {| f_path := ex_R; f_ino := 1; f_dir := true |};   {| f_path := ex_O; f_ino := 2; f_dir := true |};
    {| f_path := ex_Rd; f_ino := 3; f_dir := true |};  {| f_path := ex_Rdf; f_ino := 4; f_dir := false |};
    {| f_path := ex_Rde; f_ino := 5; f_dir := true |}; {| f_path := ex_Rx; f_ino := 6; f_dir := false |};
    {| f_path := ex_Oy; f_ino := 7; f_dir := false |}; {| f_path := ex_Oz; f_ino := 8; f_dir := true |};
    {| f_path := ex_Ozg; f_ino := 9; f_dir := false |} ].
Definition ex_world : world := {| w_fs := ex_fs; w_next_ino := 20 |}.

Definition ex_C (recursive : bool) : cfg :=
  {| c_recursive := recursive; c_mask := WATCHDOG_ALL; c_root := ex_R; c_fix_ignored := true;
     c_fix_movein := true; c_fix_simulate := true; c_fix_relabel := true; c_fix_moveout := true; c_faults := [] |}.

(* the state right after Inotify.__init__ *)
Definition ex_state (recursive : bool) : rstate * kst :=
  match construct (ex_C recursive) kinit ex_fs with Some x => x | None => (rinit0, kinit) end.
Definition ex_r (recursive : bool) : rstate := fst (ex_state recursive).
Definition ex_k (recursive : bool) : kst := snd (ex_state recursive).

(* hypotheses of a contract lemma hold for operation [o] on parent directories [ds], and the delivered list is [l] *)
Definition ex_ok (recursive full : bool) (ds : list bytes) (o : op) (l : list nevent) : Prop :=
  k_queue (ex_k recursive) = [] /\ pend (ex_r recursive) = None /\
  Forall (cover (ex_C recursive) (ex_r recursive) (ex_k recursive) ex_fs) ds /\
  apply_op ex_world o <> None /\
  deliver_one (ex_C recursive) full ex_world (ex_k recursive) (ex_r recursive) o = Some l /\
  collapse l = collapse (contract recursive full ex_R ex_fs o).

Lemma wf_pathb_sound y : wf_pathb y = true -> wf_path y.
Proof.
  unfold wf_pathb. intros H. apply andb_true_iff in H as [H Hn]. apply andb_true_iff in H as [He Hs].
  apply beqb_eq in He. apply negb_true_iff in Hs. exists (path_dir y), (basename y). auto.
Qed.

Lemma wf_fsb_sound t : forallb (fun e => wf_pathb (f_path e)) t = true -> forall e, In e t -> wf_path (f_path e).
Proof. intros H e He. rewrite forallb_forall in H. apply wf_pathb_sound. now apply H. Qed.

Lemma not_under_sound q t :
  forallb (fun e => negb (under q (f_path e))) t = true -> forall e, In e t -> under q (f_path e) = false.
Proof. intros H e He. rewrite forallb_forall in H. apply negb_true_iff. now apply H. Qed.

(* ================================================================== 7. tie to the Pipeline model *)
(* the buffer is idle: nothing queued, nothing being grouped, the consumer outside get() *)
Definition buffer_idle (b : st * rst) : Prop :=
  q (fst b) = [] /\ closed (fst b) = false /\ pc (fst b) = CIdle /\
  batch (snd b) = [] /\ grouped (snd b) = [] /\ deleted_self (snd b) = false /\
  (forall id, In id (map fst (items (snd b))) -> (id < next_el (snd b))%N).

(* one operation, one read of the whole kernel queue, the pairing delay, [nit] calls of queue_events *)
Definition tie_history (P : pcfg) (s : pstate) (o : op) (nit : nat) : list action :=
  AOp o :: ARead (length (k_queue (kernel_op (p_k s) (w_fs (p_world s)) o))) :: ATick (pc_delay P)
      :: repeat AEmit nit.

(* [deliver_one] is what the Pipeline model delivers for AOp o; ARead all; ATick delay; AEmit ... from an idle state *)
Definition pipeline_tie : Prop := forall P s o evs,
  pc_filter P = None -> buffer_idle (p_buf s) -> p_stopped s = false -> k_queue (p_k s) = [] ->
  (forall id, In id (map fst (p_tbl s)) -> (id < p_next s)%N) ->
  deliver_one (pc_reader P) (pc_full P) (p_world s) (p_k s) (p_r s) o = Some evs ->
  exists nit s' obs, prun P s (tie_history P s o nit) [] = Done (s', obs) /\ p_out s' = p_out s ++ evs.

Fixpoint nevents_eqb (a b : list nevent) : bool :=
  match a, b with
  | [], [] => true
  | x :: a', y :: b' => nevent_eqb x y && nevents_eqb a' b'
  | _, _ => false
  end.

Definition tie_check (P : pcfg) (s : pstate) (nit : nat) (o : op) : bool :=
  match deliver_one (pc_reader P) (pc_full P) (p_world s) (p_k s) (p_r s) o,
        prun P s (tie_history P s o nit) [] with
  | Some evs, Done (s', _) => nevents_eqb (p_out s') (p_out s ++ evs)
  | _, _ => false
  end.

Definition ex_P (recursive full : bool) : pcfg :=
  {| pc_reader := ex_C recursive; pc_full := full; pc_filter := None; pc_delay := 5 |}.

Definition ex_ops : list op :=
  [Touch (ex_sl ex_Rd 97); Write ex_Rdf; Chmod ex_Rdf; Chmod ex_Rd; Unlink ex_Rx; Mkdir (ex_sl ex_Rd 109);
   Rmdir ex_Rde; Rename ex_Rdf ex_Rx; Rename ex_Rx (ex_sl ex_O 120); Rename ex_Oy (ex_sl ex_Rd 121);
   Rename ex_Rd (ex_sl ex_R 110); Rename ex_Rd (ex_sl ex_O 100); Rename ex_Oz (ex_sl ex_Rd 122);
   Rename ex_Rd ex_Oz (* fails: target not empty *); Rename ex_Oz ex_Rde (* replaces an empty directory *)].

Definition ex_tie (recursive full : bool) : bool :=
  match pinit (ex_P recursive full) ex_world with
  | Some s0 => forallb (fun o => match apply_op ex_world o with
                                 | Some _ => tie_check (ex_P recursive full) s0 6 o
                                 | None => true end) ex_ops
  | None => false
  end.
