(* C11, the remaining case of the drained regime: a NON-RECURSIVE watch whose filter's mask has no IN_MOVE
   (e.g. [FileOpenedEvent]).  The filtered reader never sees the halves of a move, so its
   _moved_from_events differs from the unfiltered reader's; everything else (wd <-> path maps, call
   counter, kernel) stays equal, because under a non-recursive watch a move never re-keys anything. *)
Require Import WD.Base.Prelude WD.Base.BStr WD.Model.SubEvents WD.Model.Emitter WD.Model.MaskTable
               WD.Model.Fs WD.Model.Reader WD.Model.DelayQueue WD.Model.Grouping WD.Model.Pipeline WD.Model.Contract.
Require Import WD.Gen.MaskTableGen WD.Proofs.MaskTableProofs WD.Proofs.C11Proofs WD.Proofs.ReaderFixProofs
               WD.Proofs.ContractProofs
               WD.Proofs.C11KernelProofs WD.Proofs.C11ReaderProofs WD.Proofs.C11TwinProofs WD.Proofs.C11GroupProofs
               WD.Proofs.C11SeqProofs WD.Proofs.C11InertProofs WD.Proofs.C11LagProofs.

(* equal up to _moved_from_events *)
Definition req (r r0 : rstate) : Prop := wfp r = wfp r0 /\ pfw r = pfw r0 /\ calls r = calls r0 /\ pend r = pend r0.

(* a non-recursive watch: only the root is (or was) watched; remembered move sources are not the root; no move-out
   candidate is ever remembered (that needs a recursive watch) *)
Definition flat_inv (root : bytes) (r : rstate) : Prop :=
  (forall p wd, alookup beqb p (wfp r) = Some wd -> p = root) /\
  (forall wd p, alookup N.eqb wd (pfw r) = Some p -> p = root) /\
  (forall c p, alookup N.eqb c (mvf r) = Some p -> beqb p root = false) /\
  pend r = None.

(* association lists with a decidable key *)
Section AL.
  Context {K V : Type} (keq : K -> K -> bool).
  Hypothesis keq_eq : forall a b, keq a b = true <-> a = b.

  Lemma al_refl a : keq a a = true. Proof. now apply keq_eq. Qed.
  Lemma al_neq a b : a <> b -> keq a b = false.
  Proof. intros H. destruct (keq a b) eqn:E; [apply keq_eq in E; contradiction | reflexivity]. Qed.

  Lemma al_set_eq k (v : V) m : alookup keq k (aset keq k v m) = Some v.
  Proof.
    induction m as [|[k' v'] m IH]; simpl; [now rewrite al_refl|].
    destruct (keq k k') eqn:E; simpl; rewrite E; [reflexivity | exact IH].
  Qed.

  Lemma al_set_neq k k' (v : V) m : k' <> k -> alookup keq k' (aset keq k v m) = alookup keq k' m.
  Proof.
    intros Hne. induction m as [|[k2 v2] m IH]; simpl; [now rewrite al_neq|].
    destruct (keq k k2) eqn:E; simpl.
    - apply keq_eq in E. subst k2. now rewrite al_neq.
    - destruct (keq k' k2); [reflexivity | exact IH].
  Qed.

  Lemma al_rem_eq k (m : list (K * V)) : alookup keq k (aremove keq k m) = None.
  Proof.
    induction m as [|[k' v'] m IH]; simpl; [reflexivity|].
    destruct (keq k k') eqn:E; simpl; [exact IH | rewrite E; exact IH].
  Qed.

  Lemma al_rem_neq k k' (m : list (K * V)) : k' <> k -> alookup keq k' (aremove keq k m) = alookup keq k' m.
  Proof.
    intros Hne. induction m as [|[k2 v2] m IH]; simpl; [reflexivity|].
    destruct (keq k k2) eqn:E; simpl.
    - apply keq_eq in E. subst k2. now rewrite al_neq.
    - destruct (keq k' k2); [reflexivity | exact IH].
  Qed.
End AL.

Lemma Neqb_iff a b : N.eqb a b = true <-> a = b. Proof. apply N.eqb_eq. Qed.

Lemma wrem_sub p q (m : list (bytes * N)) v : alookup beqb p (aremove beqb q m) = Some v -> alookup beqb p m = Some v.
Proof.
  destruct (bytes_eq_dec p q) as [->|Hne]; [rewrite (al_rem_eq beqb); discriminate|].
  now rewrite (al_rem_neq beqb beqb_eq q p m Hne).
Qed.

Lemma prem_sub a b (m : list (N * bytes)) v : alookup N.eqb a (aremove N.eqb b m) = Some v -> alookup N.eqb a m = Some v.
Proof.
  destruct (N.eq_dec a b) as [->|Hne]; [rewrite (al_rem_eq N.eqb); discriminate|].
  now rewrite (al_rem_neq N.eqb Neqb_iff b a m Hne).
Qed.

Section Flat.
  Variable C : cfg.
  Hypothesis Hnr : c_recursive C = false.
  Let root := c_root C.
  Hypothesis Hroot1 : root <> [].
  Hypothesis Hroot2 : last_is_sep root = false.

  (* nothing is ever pending under a non-recursive watch: one iteration is the loop body, without the recursive part *)
  Lemma read_one_nr t r k acc e : pend r = None ->
    read_one C t (r, k, acc) e =
    match alookup N.eqb (k_wd e) (pfw r) with
    | None => if c_fix_moveout C then Done (r, k, acc) else Crash SITE_PATH_FOR_WD
    | Some wdp =>
      let '(r1, k1, ev1) := ro_move C t r k e wdp in
      match ro_ignored C r1 e with
      | Crash s => Crash s
      | Done r2 => Done (r2, k1, acc ++ [ev1])
      end
    end.
  Proof.
    intros Hp. rewrite (read_one_body_eq C t r k acc e Hp), read_one_body_factored.
    destruct (alookup N.eqb (k_wd e) (pfw r)); [|reflexivity].
    destruct (ro_move C t r k e b) as [[r1 k1] ev1]. destruct (ro_ignored C r1 e); [|reflexivity].
    rewrite Hnr. reflexivity.
  Qed.

  (* the IN_IGNORED clean-up only looks at the two maps, and only shrinks them *)
  Lemma ro_ignored_req r r0 e : req r r0 -> flat_inv root r ->
    match ro_ignored C r e, ro_ignored C r0 e with
    | Done r2, Done r02 => req r2 r02 /\ flat_inv root r2 /\ mvf r2 = mvf r /\ mvf r02 = mvf r0
    | Crash s, Crash s' => s = s'
    | _, _ => False
    end.
  Proof.
    intros [E1 [E2 [E3 E4]]] [I1 [I2 [I3 I4]]]. unfold ro_ignored. rewrite <- E1, <- E2, <- E3, <- E4.
    destruct (Emitter.is_ignored (k_mask e)); [|repeat split; assumption].
    destruct (alookup N.eqb (k_wd e) (pfw r)) as [path|]; [|reflexivity].
    cbn [wfp pfw mvf calls pend].
    assert (J2 : forall wd p, alookup N.eqb wd (aremove N.eqb (k_wd e) (pfw r)) = Some p -> p = root).
    { intros wd p H. apply (I2 wd p). eapply prem_sub. exact H. }
    destruct (alookup beqb path (wfp r)) as [w|].
    - destruct (N.eqb w (k_wd e)); (split; [repeat split; reflexivity|]); (split; [|split; reflexivity]);
        cbn [wfp pfw mvf pend]; (split; [|split; [exact J2 | split; [exact I3 | exact I4]]]).
      + intros p wd H. apply (I1 p wd). eapply wrem_sub. exact H.
      + exact I1.
    - destruct (c_fix_ignored C); [|reflexivity].
      split; [repeat split; reflexivity|]. split; [|split; reflexivity]. cbn [wfp pfw mvf pend].
      split; [exact I1 | split; [exact J2 | split; [exact I3 | exact I4]]].
  Qed.

  (* an event that is not half of a move: what it appends ([] for an unknown descriptor) carries its mask *)
  Lemma read_one_flat_kept t r r0 k acc acc0 e r1 k1 out :
    is_moved_from (k_mask e) = false -> is_moved_to (k_mask e) = false ->
    req r r0 -> flat_inv root r ->
    read_one C t (r, k, acc) e = Done (r1, k1, out) ->
    exists r01 o, Forall (fun ev => r_mask ev = k_mask e) o /\ out = acc ++ o /\ k1 = k /\
      read_one C t (r0, k, acc0) e = Done (r01, k, acc0 ++ o) /\ req r1 r01 /\ flat_inv root r1.
  Proof.
    intros H1 H2 R I H. pose proof R as [E1 [E2 [E3 E4]]]. pose proof I as [_ [_ [_ I4]]].
    rewrite read_one_nr in H by exact I4. rewrite read_one_nr by congruence. rewrite <- E2.
    destruct (alookup N.eqb (k_wd e) (pfw r)) as [wdp|].
    2:{ destruct (c_fix_moveout C); [|discriminate]. inversion H; subst.
        exists r0, []. rewrite !app_nil_r.
        split; [constructor|]. split; [reflexivity|]. split; [reflexivity|]. split; [reflexivity|]. split; assumption. }
    unfold ro_move in *. rewrite H1, H2 in *.
    pose proof (ro_ignored_req r r0 e R I) as HI.
    destruct (ro_ignored C r e) as [r2|s]; [|discriminate].
    destruct (ro_ignored C r0 e) as [r02|s]; [|contradiction].
    inversion H; subst. destruct HI as [R2 [I2 _]].
    eexists. eexists. split; [|split; [reflexivity|split; [reflexivity|split; [reflexivity|split; assumption]]]].
    repeat constructor.
  Qed.

  Lemma mvf_set c v (m : list (N * bytes)) c' p :
    alookup N.eqb c' (aset N.eqb c v m) = Some p -> p = v \/ alookup N.eqb c' m = Some p.
  Proof.
    destruct (N.eq_dec c' c) as [->|Hne].
    - rewrite (al_set_eq N.eqb Neqb_iff). intros H. inversion H. now left.
    - rewrite (al_set_neq N.eqb Neqb_iff c c' v m Hne). now right.
  Qed.

  (* a half of a move (or any other event without IN_IGNORED), as seen by the unfiltered reader *)
  Lemma read_one_flat_dropped t r k acc e r1 k1 out :
    Emitter.is_ignored (k_mask e) = false ->
    (is_moved_from (k_mask e) = true -> valid_name (k_name e) = true) ->
    flat_inv root r ->
    read_one C t (r, k, acc) e = Done (r1, k1, out) ->
    exists o, Forall (fun ev => r_mask ev = k_mask e) o /\ out = acc ++ o /\ k1 = k /\ req r1 r /\ flat_inv root r1.
  Proof.
    intros Hi Hname [I1 [I2 [I3 I4]]] H. rewrite read_one_nr in H by exact I4.
    destruct (alookup N.eqb (k_wd e) (pfw r)) as [wdp|] eqn:Ew.
    2:{ destruct (c_fix_moveout C); [|discriminate]. inversion H; subst.
        exists []. rewrite app_nil_r.
        split; [constructor|]. split; [reflexivity|]. split; [reflexivity|].
        split; [repeat split; reflexivity | repeat split; assumption]. }
    assert (Hwdp : wdp = root) by (apply (I2 _ _ Ew)). subst wdp.
    unfold ro_ignored in H. rewrite Hi in H.
    unfold ro_move in H.
    destruct (is_moved_from (k_mask e)) eqn:E1.
    - inversion H; subst. eexists. split; [|split; [reflexivity|split; [reflexivity|]]]; [repeat constructor|].
      rewrite Hnr, andb_false_r. cbn [andb].
      split; [repeat split; reflexivity|]. cbn [wfp pfw mvf pend]. split; [exact I1 | split; [exact I2|split; [|exact I4]]].
      intros c p Hc. apply mvf_set in Hc as [->|Hc]; [|apply (I3 c p Hc)].
      specialize (Hname eq_refl).
      change (match k_name e with [] => root | _ :: _ => join root (k_name e) end) with (rpath root (k_name e)).
      rewrite (rpath_child root (k_name e) Hroot1 Hroot2 Hname). apply child_neq.
    - destruct (is_moved_to (k_mask e)) eqn:E2.
      + assert (Hnone : forall msrc, alookup N.eqb (k_cookie e) (mvf r) = Some msrc -> alookup beqb msrc (wfp r) = None).
        { intros msrc Hm. destruct (alookup beqb msrc (wfp r)) as [wd|] eqn:Ek; [|reflexivity].
          apply I1 in Ek. subst msrc. apply I3 in Hm. fold root in Hm. rewrite beqb_refl in Hm. discriminate. }
        rewrite Hnr in H. rewrite !andb_false_r in H. cbn [andb] in H.
        destruct (alookup N.eqb (k_cookie e) (mvf r)) as [msrc|] eqn:Em.
        * rewrite (Hnone msrc eq_refl) in H. inversion H; subst.
          eexists. split; [|split; [reflexivity|split; [reflexivity|]]]; [repeat constructor|].
          split; [repeat split; reflexivity | repeat split; assumption].
        * inversion H; subst.
          eexists. split; [|split; [reflexivity|split; [reflexivity|]]]; [repeat constructor|].
          split; [repeat split; reflexivity | repeat split; assumption].
      + inversion H; subst.
        eexists. split; [|split; [reflexivity|split; [reflexivity|]]]; [repeat constructor|].
        split; [repeat split; reflexivity | repeat split; assumption].
  Qed.

  Theorem reader_transparent_flat t (keep : N -> bool) :
    (forall m, Emitter.is_ignored m = true -> keep m = true) ->
    forall b r r0 k acc r' k' out,
      (forall e, In e b -> keep (k_mask e) = true -> is_moved_from (k_mask e) = false /\ is_moved_to (k_mask e) = false) ->
      (forall e, In e b -> is_moved_from (k_mask e) = true -> valid_name (k_name e) = true) ->
      req r r0 -> flat_inv root r ->
      read_batch C t (r, k, acc) b = Done (r', k', out) ->
      exists r0',
        read_batch C t (r0, k, filter (fun x => keep (r_mask x)) acc) (filter (fun e => keep (k_mask e)) b)
        = Done (r0', k', filter (fun x => keep (r_mask x)) out) /\ req r' r0' /\ flat_inv root r' /\ k' = k.
  Proof.
    intros Hign. induction b as [|e b IH]; intros r r0 k acc r' k' out Hnomove Hn R I Hrun.
    - cbn in *. inversion Hrun; subst. exists r0. repeat split; try apply R; apply I.
    - cbn [read_batch filter] in *.
      destruct (read_one C t (r, k, acc) e) as [[[r1 k1] out1]|] eqn:E1; [|discriminate].
      assert (Hn' : forall e0, In e0 b -> is_moved_from (k_mask e0) = true -> valid_name (k_name e0) = true).
      { intros e0 H0. apply Hn. now right. }
      assert (Hnomove' : forall e0, In e0 b -> keep (k_mask e0) = true ->
                                    is_moved_from (k_mask e0) = false /\ is_moved_to (k_mask e0) = false).
      { intros e0 H0. apply Hnomove. now right. }
      destruct (keep (k_mask e)) eqn:Hk.
      + destruct (Hnomove e (or_introl eq_refl) Hk) as [M1 M2].
        destruct (read_one_flat_kept t r r0 k acc (filter (fun x => keep (r_mask x)) acc) e r1 k1 out1 M1 M2 R I E1)
          as [r01 [o [Ho [-> [-> [E0 [R1 I1]]]]]]].
        cbn [read_batch]. rewrite E0.
        destruct (IH r1 r01 k (acc ++ o) r' k' out Hnomove' Hn' R1 I1 Hrun) as [r0' [H1 [H2 H3]]].
        exists r0'. split; [|split; assumption].
        rewrite filter_app in H1. rewrite (filter_all (fun x => keep (r_mask x)) o) in H1; [exact H1|].
        intros x Hx. rewrite Forall_forall in Ho. now rewrite (Ho x Hx).
      + assert (Hi : Emitter.is_ignored (k_mask e) = false).
        { destruct (Emitter.is_ignored (k_mask e)) eqn:E; [|reflexivity]. rewrite (Hign _ E) in Hk. discriminate. }
        destruct (read_one_flat_dropped t r k acc e r1 k1 out1 Hi (Hn e (or_introl eq_refl)) I E1)
          as [o [Ho [-> [-> [R1 I1]]]]].
        assert (R1' : req r1 r0).
        { destruct R1 as [a [b0 [c d]]], R as [a' [b' [c' d']]]. repeat split; congruence. }
        destruct (IH r1 r0 k (acc ++ o) r' k' out Hnomove' Hn' R1' I1 Hrun) as [r0' [H1 [H2 H3]]].
        exists r0'. split; [|split; assumption].
        rewrite filter_app in H1. rewrite (filter_nil (fun x => keep (r_mask x)) o) in H1; [now rewrite app_nil_r in H1|].
        intros x Hx. rewrite Forall_forall in Ho. now rewrite (Ho x Hx).
  Qed.
End Flat.

(* a non-recursive reader never remembers a candidate and never touches the kernel queue *)
Lemma read_batch_nr_idle C (Hnr : c_recursive C = false) t b : forall r k acc r' k' out,
  pend r = None -> read_batch C t (r, k, acc) b = Done (r', k', out) -> pend r' = None /\ k_queue k' = k_queue k.
Proof.
  induction b as [|e b IH]; intros r k acc r' k' out Hp H; cbn [read_batch] in H.
  - inversion H; subst. split; [exact Hp | reflexivity].
  - destruct (read_one C t (r, k, acc) e) as [[[r1 k1] a1]|] eqn:E1; [|discriminate].
    rewrite (read_one_body_eq C t r k acc e Hp) in E1.
    assert (Hp1 : pend r1 = None).
    { destruct (read_one_body_pend C _ _ _ _ _ _ _ _ E1) as [E|E]; [congruence|].
      unfold sets_pend in E. rewrite Hnr, andb_false_r in E. discriminate. }
    apply read_one_body_queue in E1. destruct (IH _ _ _ _ _ _ Hp1 H) as [A B]. split; [exact A | congruence].
Qed.

(* ------------------------------------------------------------------ the names the kernel reports for moves *)
(* the source of a rename has a proper base name (true of every path that does not end in "/") *)
Definition op_ok (o : op) : Prop :=
  match o with Rename p _ => valid_name (basename p) = true | _ => True end.

Definition qfrom (k : kst) : Prop :=
  forall e, In e (k_queue k) -> is_moved_from (k_mask e) = true -> valid_name (k_name e) = true.

Lemma knotify_qfrom k ino bit (isdir : bool) c name :
  (is_moved_from (nmask bit isdir) = true -> valid_name name = true) -> qfrom k -> qfrom (knotify k ino bit isdir c name).
Proof.
  intros Hn Hq. unfold knotify. destruct (watch_of_ino k ino); [|exact Hq].
  destruct (N.eqb (N.land bit (kw_mask k0)) 0); [exact Hq|].
  intros e He. cbn [k_queue] in He. apply kpush_in in He as [He| ->]; [apply Hq; exact He|]. exact Hn.
Qed.

Lemma kgone_qfrom k ino af : qfrom k -> qfrom (kgone k ino af).
Proof.
  intros Hq. unfold kgone. destruct (watch_of_ino k ino); [|exact Hq].
  intros e He. cbn [k_queue] in He. apply kpush_in in He as [He| ->]; [|discriminate].
  revert e He. apply knotify_qfrom; [discriminate|].
  destruct af; [apply knotify_qfrom; [discriminate | exact Hq] | exact Hq].
Qed.

Lemma kernel_op_qfrom k t o : op_ok o -> qfrom k -> qfrom (kernel_op k t o).
Proof.
  intros Ho Hq. destruct o; cbn [kernel_op];
    repeat first [ apply knotify_qfrom; [discriminate|] | apply kgone_qfrom | exact Hq ].
  - destruct (fisdir p t); repeat first [ apply knotify_qfrom; [discriminate|] | exact Hq ].
  - cbn [op_ok] in Ho.
    destruct (fisdir q t), (fisdir p t);
      repeat first [ apply kgone_qfrom | apply knotify_qfrom; [first [discriminate | intros _; exact Ho]|] | exact Hq ].
Qed.

(* ------------------------------------------------------------------ one drained operation, flat case *)
Section FlatStep.
  Variable F : option (list evbase).
  Variable C : cfg.
  Hypothesis Hnr : c_recursive C = false.
  Let root := c_root C.
  Hypothesis Hroot1 : root <> [].
  Hypothesis Hroot2 : last_is_sep root = false.
  Let M' := kmask F (c_recursive C).
  Let C' := with_mask C M'.
  Hypothesis HM : c_mask C = WATCHDOG_ALL.
  Hypothesis Hmv : flag_in IN_MOVED_FROM M' = false.       (* the filter's mask has no IN_MOVE *)

  Lemma whole_kmask' : flag_in IN_MOVED_FROM M' = flag_in IN_MOVED_TO M'.
  Proof. unfold M'. rewrite !flag_in_kmask by reflexivity. apply mask_move_whole. Qed.

  Lemma kept_not_move m : kshaped m -> kkeep M' m = true -> is_moved_from m = false /\ is_moved_to m = false.
  Proof.
    intros Hs Hk.
    assert (HE := kmask_events F (c_recursive C)). assert (HD := kmask_nodir F (c_recursive C)). fold M' in HE, HD.
    split.
    - destruct (is_moved_from m) eqn:E; [|reflexivity].
      destruct (shaped_from M' HE HD m Hs E) as [Hi Hd].
      rewrite (kkeep_delivered M' HE m Hs Hi), Hd, Hmv in Hk. discriminate.
    - destruct (is_moved_to m) eqn:E; [|reflexivity].
      destruct (shaped_to M' HE HD m Hs E) as [Hi Hd].
      rewrite (kkeep_delivered M' HE m Hs Hi), Hd, <- whole_kmask', Hmv in Hk. discriminate.
  Qed.

  Theorem transparent_step_flat full w k k' r r0 o w1 k1 r1 evs :
    op_ok o -> kw0 WATCHDOG_ALL M' k k' -> k_queue k = [] -> k_queue k' = [] -> req r r0 -> flat_inv root r ->
    run_one None C full w k r o = Some (w1, k1, r1, evs) ->
    exists k1' r1', run_one F C' full w k' r0 o = Some (w1, k1', r1', filter (acc F) evs) /\
                    kw0 WATCHDOG_ALL M' k1 k1' /\ k_queue k1 = [] /\ k_queue k1' = [] /\ req r1 r1' /\ flat_inv root r1.
  Proof.
    intros Hop T Q Q' R I Hrun. unfold run_one in *.
    destruct (apply_op w o) as [w'|]; [|discriminate].
    set (kU := kernel_op k (w_fs w) o) in *. set (kF := kernel_op k' (w_fs w) o).
    assert (Q0 : kq M' k k') by (unfold kq; rewrite Q, Q'; reflexivity).
    destruct (kernel_op_twin WATCHDOG_ALL M' (kmask_sub F _) (kmask_nodir F _) k k' (w_fs w) o T Q0) as [T1 Q1].
    fold kU kF in T1, Q1. unfold kq in Q1.
    rewrite (kcollapse_keys _ (NoDup_key_filter kkey _ _ (kernel_op_nodup k (w_fs w) o Q))) in Q1. fold kU in Q1.
    destruct (read_batch C (w_fs w') (r, kdrained kU, []) (k_queue kU)) as [[[r' kk] raws]|] eqn:Hrd; [|discriminate].
    inversion Hrun; subst w1 k1 r1 evs; clear Hrun.
    assert (QS : qshaped kU).
    { apply kernel_op_shaped. intros e0 He0. rewrite Q in He0. destruct He0. }
    assert (QN : qfrom kU).
    { apply kernel_op_qfrom; [exact Hop|]. intros e0 He0. rewrite Q in He0. destruct He0. }
    destruct (reader_transparent_flat C Hnr Hroot1 Hroot2 (w_fs w') (kkeep M')
                (fun m Hm => ltac:(unfold kkeep; rewrite Hm; reflexivity))
                (k_queue kU) r r0 (kdrained kU) [] r' kk raws
                (fun e He Hk => kept_not_move _ (QS e He) Hk) QN R I Hrd) as [r0' [Hrt [R' [I' Hkk]]]].
    cbn [filter] in Hrt.
    assert (K0 : kw0 WATCHDOG_ALL M' (kdrained kU) (kdrained kF)).
    { destruct T1 as [a b c d]. constructor; assumption. }
    pose proof (read_batch_twin C WATCHDOG_ALL M' HM (w_fs w')
                  (filter (fun e => kkeep M' (k_mask e)) (k_queue kU)) r0 (kdrained kU) (kdrained kF) [] K0) as Htw.
    rewrite Hrt in Htw. fold C' in Htw. rewrite Q1.
    destruct (read_batch C' (w_fs w') (r0, kdrained kF, []) (filter (fun e => kkeep M' (k_mask e)) (k_queue kU)))
      as [[[r2 k2] raws2]|] eqn:HrdF; [|contradiction].
    destruct Htw as [H1 [H2 H3]]. cbn [fst snd] in *. subst r2 raws2.
    assert (QF : k_queue k2 = []).
    { assert (Hp0 : pend r0 = None) by (destruct R as [_ [_ [_ E]]], I as [_ [_ [_ E']]]; congruence).
      destruct (read_batch_nr_idle C' Hnr _ _ _ _ _ _ _ _ Hp0 HrdF) as [_ E]. exact E. }
    exists k2, r0'. split; [|split; [exact H3 | split; [subst kk; reflexivity | split; [exact QF | split; assumption]]]]. f_equal. f_equal.
    unfold C'. rewrite group_batch_with_mask. cbn [with_mask c_recursive c_root].
    assert (Hsh : Forall (fun x => kshaped (r_mask x)) raws).
    { destruct (read_batch_masks _ _ _ _ _ _ _ _ _ Hrd) as [new [E Hn]]. cbn [app] in E. subst new.
      eapply Forall_impl; [|exact Hn]. intros x [[e [He ->]]|Hx]; [apply QS; exact He | apply sim_raw_shaped; exact Hx]. }
    rewrite (group_batch_handed C M' (kmask_events F _) (kmask_nodir F _) whole_kmask' raws Hsh).
    rewrite emit_all_f_none. apply emit_all_handed.
  Qed.

  Theorem transparent_seq_flat full ops : Forall op_ok ops ->
    forall w k k' r r0 evs,
      kw0 WATCHDOG_ALL M' k k' -> k_queue k = [] -> k_queue k' = [] -> req r r0 -> flat_inv root r ->
      run_seq None C full w k r ops = Some evs ->
      run_seq F C' full w k' r0 ops = Some (filter (acc F) evs).
  Proof.
    induction 1 as [|o ops Ho Hops IH]; intros w k k' r r0 evs K Q Q' R I H; cbn [run_seq] in *.
    - inversion H; subst. reflexivity.
    - destruct (apply_op w o) eqn:Ea; [|eapply IH; eassumption].
      destruct (run_one None C full w k r o) as [[[[w1 k1] r1] e1]|] eqn:E1; [|discriminate].
      destruct (transparent_step_flat full w k k' r r0 o w1 k1 r1 e1 Ho K Q Q' R I E1) as [k1' [r1' [E2 [K1 [Q1 [Q1' [R1 I1]]]]]]].
      rewrite E2.
      destruct (run_seq None C full w1 k1 r1 ops) as [e2|] eqn:E3; [|discriminate].
      cbn [option_map] in H. inversion H; subst evs.
      rewrite (IH w1 k1 k1' r1 r1' e2 K1 Q1 Q1' R1 I1 E3). cbn [option_map]. now rewrite filter_app.
  Qed.

  Lemma construct_flat t r k : construct C kinit t = Some (r, k) -> flat_inv root r.
  Proof.
    unfold construct. rewrite Hnr. destruct (fisdir (c_root C) t); [|discriminate].
    unfold add_watch. destruct (mem_nat _ _); [discriminate|].
    destruct (kadd_watch kinit t (c_root C) (c_mask C)) as [[k1 wd]|]; [|discriminate].
    intros H. inversion H; subst. rewrite unlabel_fresh by reflexivity. cbn [rinit0 wfp pfw mvf aset]. unfold flat_inv. cbn [wfp pfw mvf pend alookup].
    split; [|split; [|split]].
    - intros p wd0. destruct (beqb p (c_root C)) eqn:E; [|discriminate]. intros _. now apply beqb_eq.
    - intros wd0 p. destruct (N.eqb wd0 wd); [|discriminate]. intros Hp. now inversion Hp.
    - intros c p Hp. discriminate.
    - reflexivity.
  Qed.

  Theorem transparent_from_flat full w ops evs : Forall op_ok ops ->
    run_from None C full w ops = Some evs ->
    run_from F C' full w ops = Some (filter (acc F) evs).
  Proof.
    unfold run_from. intros Hops H.
    pose proof (construct_twin C WATCHDOG_ALL M' HM (w_fs w)) as T. fold C' in T.
    destruct (construct C kinit (w_fs w)) as [[r k]|] eqn:Ec; [|discriminate].
    destruct (construct C' kinit (w_fs w)) as [[r' k']|] eqn:Ec'; [|contradiction].
    destruct T as [<- K]. eapply transparent_seq_flat; try eassumption.
    - eapply construct_queue. exact Ec.
    - eapply construct_queue. exact Ec'.
    - repeat split; reflexivity.
    - eapply construct_flat. exact Ec.
  Qed.
End FlatStep.

(* ------------------------------------------------------------------ a non-recursive watch is always regular *)
Section NR.
  Variable F : option (list evbase).
  Variable C : cfg.
  Hypothesis Hnr : c_recursive C = false.

  Lemma guarded_nr keep b : guardedb C keep false b = true.
  Proof.
    induction b as [|e b IH]; [reflexivity|]. cbn [guardedb].
    unfold sets_pend at 1. rewrite Hnr, andb_false_r. exact IH.
  Qed.

  Lemma regular_nr full ops : forall w k r,
    pend r = None -> k_queue k = [] -> regular F C full w k r ops.
  Proof.
    induction ops as [|o ops IH]; intros w k r Hp Q; cbn [regular]; [exact I|].
    destruct (apply_op w o) as [w'|] eqn:Ea; [|apply IH; assumption].
    split.
    - split; [rewrite Q; constructor|]. split; [apply kernel_op_nodup; exact Q|].
      unfold pending_of. rewrite Hp, andb_false_r. apply guarded_nr.
    - unfold run_one. rewrite Ea.
      destruct (read_batch C (w_fs w') (r, kdrained (kernel_op k (w_fs w) o), []) (k_queue (kernel_op k (w_fs w) o)))
        as [[[r1 k1] raws]|] eqn:Hrd; [|exact I].
      destruct (read_batch_nr_idle C Hnr _ _ _ _ _ _ _ _ Hp Hrd) as [A B]. apply IH; assumption.
  Qed.

  Lemma regular_from_nr full w ops : regular_from F C full w ops.
  Proof.
    unfold regular_from. destruct (construct C kinit (w_fs w)) as [[r k]|] eqn:Ec; [|exact I].
    apply regular_nr; [|eapply construct_queue; exact Ec].
    revert Ec. unfold construct. rewrite Hnr. destruct (fisdir (c_root C) (w_fs w)); [|discriminate].
    destruct (add_watch C rinit0 kinit (w_fs w) (c_root C)) as [[[r1 k1] wd]|] eqn:Ea; [|discriminate].
    intros H. inversion H; subst. apply add_watch_pend in Ea. exact Ea.
  Qed.
End NR.

(* ------------------------------------------------------------------ the pinned reader is always regular *)
Section Pinned.
  Variable F : option (list evbase).
  Variable C : cfg.
  Hypothesis Hoff : c_fix_moveout C = false.

  Lemma read_batch_pinned_queue t b : forall r k acc r' k' out,
    read_batch C t (r, k, acc) b = Done (r', k', out) -> k_queue k' = k_queue k.
  Proof.
    induction b as [|e b IH]; intros r k acc r' k' out H; cbn [read_batch] in H.
    - inversion H; subst. reflexivity.
    - destruct (read_one C t (r, k, acc) e) as [[[r1 k1] a1]|] eqn:E1; [|discriminate].
      rewrite (read_one_body_off C t r k acc e Hoff) in E1. apply read_one_body_queue in E1.
      rewrite (IH _ _ _ _ _ _ H). exact E1.
  Qed.

  Lemma regular_pinned full ops : forall w k r, k_queue k = [] -> regular F C full w k r ops.
  Proof.
    induction ops as [|o ops IH]; intros w k r Q; cbn [regular]; [exact I|].
    destruct (apply_op w o) as [w'|] eqn:Ea; [|apply IH; assumption].
    split.
    - split; [rewrite Q; constructor|]. split; [apply kernel_op_nodup; exact Q|].
      unfold pending_of. rewrite Hoff. cbn [andb]. apply guarded_pinned. exact Hoff.
    - unfold run_one. rewrite Ea.
      destruct (read_batch C (w_fs w') (r, kdrained (kernel_op k (w_fs w) o), []) (k_queue (kernel_op k (w_fs w) o)))
        as [[[r1 k1] raws]|] eqn:Hrd; [|exact I].
      apply IH. rewrite (read_batch_pinned_queue _ _ _ _ _ _ _ _ Hrd). reflexivity.
  Qed.

  Lemma regular_from_pinned full w ops : regular_from F C full w ops.
  Proof.
    unfold regular_from. destruct (construct C kinit (w_fs w)) as [[r k]|] eqn:Ec; [|exact I].
    apply regular_pinned. eapply construct_queue. exact Ec.
  Qed.
End Pinned.

(* ------------------------------------------------------------------ masks that contain IN_MOVE: no regularity needed *)
(* [regular_from] is gone: the repaired reader of a recursive watch is handled by the lag bisimulation (C11LagProofs),
   the pinned reader and the non-recursive watches are regular by construction. *)
Theorem transparent_from_vis F C full :
  c_mask C = WATCHDOG_ALL -> visible F (c_recursive C) ->
  forall w ops evs,
    (c_recursive C = true -> c_fix_moveout C = true -> tidy_from C full w ops) ->
    run_from None C full w ops = Some evs ->
    run_from F (with_mask C (kmask F (c_recursive C))) full w ops = Some (filter (acc F) evs).
Proof.
  intros HM Hvis w ops evs Htidy H.
  destruct (c_recursive C) eqn:Hrec.
  - destruct (c_fix_moveout C) eqn:Hfix.
    + rewrite <- Hrec. apply (lag_from F C HM); [rewrite Hrec; exact Hvis | exact Hfix | exact (Htidy eq_refl eq_refl) | exact H].
    + rewrite <- Hrec. apply transparent_from; [exact HM | rewrite Hrec; exact Hvis | apply regular_from_pinned; exact Hfix | exact H].
  - rewrite <- Hrec. apply transparent_from; [exact HM | rewrite Hrec; exact Hvis | apply regular_from_nr; exact Hrec | exact H].
Qed.

(* ------------------------------------------------------------------ every filter, both kinds of watch *)
(* For a recursive watch with the repaired reader the UNFILTERED run has to be tidy at its drained points (C11LagProofs:
   the reader's tables mention live kernel watches only - a filter-independent, executable well-formedness condition; it
   is what C02's cover invariant gives at synced states).  Nothing is asked of non-recursive watches or of the pinned
   reader. *)
Theorem transparent_from_all F C full :
  c_mask C = WATCHDOG_ALL -> c_root C <> [] -> last_is_sep (c_root C) = false ->
  forall w ops evs, Forall op_ok ops ->
    (c_recursive C = true -> c_fix_moveout C = true -> tidy_from C full w ops) ->
    run_from None C full w ops = Some evs ->
    run_from F (with_mask C (kmask F (c_recursive C))) full w ops = Some (filter (acc F) evs).
Proof.
  intros HM R1 R2 w ops evs Hops Htidy H.
  destruct (c_recursive C) eqn:Hrec.
  - destruct (c_fix_moveout C) eqn:Hfix.
    + rewrite <- Hrec. apply (lag_from F C HM); [rewrite Hrec; apply visible_recursive | exact Hfix | exact (Htidy eq_refl eq_refl) | exact H].
    + rewrite <- Hrec. apply transparent_from; [exact HM | rewrite Hrec; apply visible_recursive | apply regular_from_pinned; exact Hfix | exact H].
  - destruct (flag_in IN_MOVED_FROM (kmask F false)) eqn:Hmv.
    + rewrite <- Hrec. apply transparent_from; [exact HM | | apply regular_from_nr; exact Hrec | exact H].
      rewrite Hrec. split; [exact Hmv | discriminate].
    + rewrite <- Hrec. apply transparent_from_flat; try assumption. rewrite Hrec. exact Hmv.
Qed.
