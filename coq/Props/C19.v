(* C19 - Event paths keep the caller's path type and the entry's exact name, all backends.
   Only statements; every proof is `exact <lemma>`.

   Vocabulary (coq/Model/PathTypes.v):
     rooted root p  :=  exists rel, all names of rel valid /\ p = root ++ "/n1/n2/..."      (root itself: rel = [])
     below  root p  :=  rooted with at least one name
     ev_ok root e   :=  ev_src e and ev_dest e are each empty or rooted
     kraw_ok e      :=  the raw record's name is a valid name, or it is empty and the mask is one queue_events never
                        reports a parent directory for (IN_ATTRIB|IN_ISDIR, IN_DELETE_SELF, IN_IGNORED, ...)
     fs_names_ok t / op_names_ok o  :=  valid_name (basename p) for every entry path / operation path
     path_inv root r :=  every value of _path_for_wd, every key of _wd_for_path, every source in _moved_from_events
                         and the path of the remembered _moved_out_candidate (repair F10) is rooted
   valid_name: non-empty, no '/', no NUL - any other byte, decodable or not.  The root is any non-empty byte string
   that does not end in '/'. *)
Require Import WD.Base.Prelude WD.Base.BStr WD.Model.SubEvents WD.Model.Emitter WD.Model.Fs WD.Model.Reader
               WD.Model.PathTypes WD.Proofs.PathProofs WD.Model.Pipeline.

(* ================================================================== NAME law *)
(* ---- path algebra: the parent of root/rel/n is root/rel *)
Theorem C19_dirname : forall root, root <> [] -> last_is_sep root = false ->
  forall rel n, forallb valid_name rel = true -> valid_name n = true ->
  dirname (root ++ relsuffix (rel ++ [n])) = root ++ relsuffix rel.
Proof. exact dirname_rooted. Qed.
Print Assumptions C19_dirname.

(* ---- the kernel: the records of one operation carry the basename of an operation path or no name *)
Theorem C19_kernel_names : forall k t o,
  op_names_ok o -> Forall kraw_ok (k_queue k) -> Forall kraw_ok (k_queue (kernel_op k t o)).
Proof. exact kernel_op_ok. Qed.
Print Assumptions C19_kernel_names.

Theorem C19_fs_names : forall w o w',
  fs_names_ok (w_fs w) -> op_names_ok o -> apply_op w o = Some w' -> fs_names_ok (w_fs w').
Proof. exact apply_op_names. Qed.
Print Assumptions C19_fs_names.

(* ---- the reader: construction establishes the invariant, every batch (arbitrary records, arbitrary cuts) keeps it,
   and every InotifyEvent it outputs is about an entry below the root or about a watched directory itself *)
Theorem C19_reader_construct : forall C, c_root C <> [] -> last_is_sep (c_root C) = false ->
  forall k t r' k', fs_names_ok t -> construct C k t = Some (r', k') -> path_inv (c_root C) r'.
Proof. exact construct_inv. Qed.
Print Assumptions C19_reader_construct.

Theorem C19_reader_inv : forall C, c_root C <> [] -> last_is_sep (c_root C) = false ->
  forall t b r k acc r' k' acc',
  fs_names_ok t -> path_inv (c_root C) r -> Forall (raw_ok (c_root C)) acc -> Forall kraw_ok b ->
  read_batch C t (r, k, acc) b = Done (r', k', acc') ->
  path_inv (c_root C) r' /\ Forall (raw_ok (c_root C)) acc'.
Proof. exact read_batch_inv. Qed.
Print Assumptions C19_reader_inv.

Theorem C19_raw_paths : forall C, c_root C <> [] -> last_is_sep (c_root C) = false ->
  forall t b r k r' k' out,
  fs_names_ok t -> path_inv (c_root C) r -> Forall kraw_ok b ->
  read_batch C t (r, k, []) b = Done (r', k', out) ->
  forall x, In x out -> rooted (c_root C) (r_path x).
Proof. exact raw_paths. Qed.
Print Assumptions C19_raw_paths.

(* ---- the emitter: for an item whose raw paths are rooted and content trees with valid names, every path of every
   event of one queue_events() call - real, parent-directory and synthetic alike - is empty or rooted.  The single
   exception is DirModifiedEvent(dirname(root)) - the root's own parent, outside the watched tree - which arises only
   from an item about the root itself ([r_path = root]) in a branch that reports the parent directory. *)
Theorem C19_event_paths : forall root, root <> [] -> last_is_sep root = false ->
  forall full rec wp content it,
  (forall r, In r (item_raws it) -> rooted root (r_path r)) ->
  (forall p, wf_tree (content p) = true) ->
  forall e, In e (fst (emit full rec wp content it)) ->
    ev_ok root e \/ (e = parent_modified root /\ exists r, In r (item_raws it) /\ r_path r = root).
Proof. exact emit_paths. Qed.
Print Assumptions C19_event_paths.

Theorem C19_event_paths_below : forall root, root <> [] -> last_is_sep root = false ->
  forall full rec wp content it,
  (forall r, In r (item_raws it) -> below root (r_path r)) ->
  (forall p, wf_tree (content p) = true) ->
  forall e, In e (fst (emit full rec wp content it)) -> ev_ok root e.
Proof. exact emit_paths_below. Qed.
Print Assumptions C19_event_paths_below.

(* an item as the pipeline delivers it - a single record the reader produced ([raw_ok]: below the root, or about a
   watched directory itself with a mask that never reports the parent), or the two halves of a rename, both below the
   root: no exception at all *)
Theorem C19_event_paths_strict : forall root, root <> [] -> last_is_sep root = false ->
  forall full rec wp content it,
  match it with
  | Single x => raw_ok root x
  | Pair f t => below root (r_path f) /\ below root (r_path t)
  end ->
  (forall p, wf_tree (content p) = true) ->
  forall e, In e (fst (emit full rec wp content it)) -> ev_ok root e.
Proof. exact emit_paths_strict. Qed.
Print Assumptions C19_event_paths_strict.

(* ---- the pipeline: file system + kernel + reader + buffer + emitter, any action list (operations with valid
   basenames, arbitrary read cuts, ticks, emits), any emitter flavour / filter / recursive flag / fault plan, any
   initial tree with valid basenames: the reader invariant holds in every reachable state, every InotifyEvent ever
   produced has a rooted path, and EVERY path of EVERY delivered event is empty or rooted (the root's own parent is
   never reported: the kernel sends no name-less record whose mask reports a parent, and the buffer pairs only
   IN_MOVED_FROM / IN_MOVED_TO records, which always carry names).  No hypothesis on the root is needed here: the
   model's file system is keyed by the root's spelling and its entries have valid basenames, so construction succeeds
   only on a non-empty root that does not end in '/' (C19_pipeline_root). *)
Theorem C19_pipeline_root : forall P w s,
  fs_names_ok (w_fs w) -> pinit P w = Some s ->
  c_root (pc_reader P) <> [] /\ last_is_sep (c_root (pc_reader P)) = false.
Proof. exact pinit_root_normal. Qed.
Print Assumptions C19_pipeline_root.

Theorem C19_pipeline_paths : forall P w s0 h s obs,
  fs_names_ok (w_fs w) -> (forall o, In (AOp o) h -> op_names_ok o) ->
  pinit P w = Some s0 -> prun P s0 h [] = Done (s, obs) ->
  path_inv (c_root (pc_reader P)) (p_r s) /\
  (forall i x, In (i, x) (p_tbl s) -> rooted (c_root (pc_reader P)) (r_path x)) /\
  (forall e, In e (p_out s) -> ev_ok (c_root (pc_reader P)) e).
Proof. exact pipeline_paths_any. Qed.
Print Assumptions C19_pipeline_paths.

(* ================================================================== repair F10: a moved-out directory is forgotten *)
(* Current code (c_fix_moveout = true): when the record after a directory IN_MOVED_FROM is not its IN_MOVED_TO, the head
   of the loop body leaves no key of _wd_for_path that is the moved-out path or lies below it, remembers nothing, and
   only removes entries (so path_inv is kept: C19_reader_inv holds for the repaired reader, whatever is pending). *)
Theorem C19_moveout_forgotten : forall C r k e c p r' k',
  c_fix_moveout C = true -> pend r = Some (c, p) ->
  is_moved_to (k_mask e) && N.eqb (k_cookie e) c && amem N.eqb (k_wd e) (pfw r) = false ->
  settle_pending C r k e = (r', k') ->
  pend r' = None /\
  (forall x, In x (wfp r') -> In x (wfp r)) /\
  (forall q w, In (q, w) (wfp r') -> beqb q p || starts (p ++ [sep]) q = false).
Proof. exact settle_pending_forgotten. Qed.
Print Assumptions C19_moveout_forgotten.

(* the only records the reader itself causes in the kernel queue (inotify_rm_watch in _forget_tree: IN_IGNORED, no name)
   keep the queue invariant, for every batch *)
Theorem C19_reader_queue : forall C t b r k acc r' k' acc',
  Forall kraw_ok (k_queue k) -> read_batch C t (r, k, acc) b = Done (r', k', acc') -> Forall kraw_ok (k_queue k').
Proof. exact read_batch_kq. Qed.
Print Assumptions C19_reader_queue.

(* ================================================================== TYPE law *)
(* the typed transcription of InotifyEmitter.queue_events is Emitter.emit once the tags are erased *)
Theorem C19_type_erase : forall full rec wp content it,
  erase (typed_emit full rec wp content it) = emit full rec (pv_bytes wp) content it.
Proof. exact typed_emit_erase. Qed.
Print Assumptions C19_type_erase.

(* every non-empty path of every event carries the watch path's tag *)
Theorem C19_type : forall full rec wp content it e,
  In e (fst (typed_emit full rec wp content it)) ->
  (pv_bytes (te_src e) <> [] -> pv_tag (te_src e) = pv_tag wp) /\
  (pv_bytes (te_dest e) <> [] -> pv_tag (te_dest e) = pv_tag wp).
Proof. exact typed_emit_tags. Qed.
Print Assumptions C19_type.

(* bytes stay bytes; str and pathlib.Path give str *)
Theorem C19_type_kinds : forall full rec k b content it e,
  In e (fst (typed_emit full rec (tagged (watch_tag k) b) content it)) ->
  tag_ok (match k with WBytes => TBytes | _ => TStr end) (te_src e) /\
  tag_ok (match k with WBytes => TBytes | _ => TStr end) (te_dest e).
Proof. exact typed_emit_kind. Qed.
Print Assumptions C19_type_kinds.

(* ---- polling: os.path.join(root, entry.name) along the relative names has the watch's tag *)
Theorem C19_polling_type : forall wp rel, pv_tag (pjoins wp rel) = pv_tag wp.
Proof. exact pjoins_tag. Qed.
Print Assumptions C19_polling_type.

(* ---- agreement: for the same entry (same relative names) the inotify path value (reader joins on
   os.fsencode(root), decoded by the emitter) and the polling path value (joins on the root as given) are EQUAL -
   for every spelling of the root, trailing slash or not *)
Theorem C19_agree : forall wp rel, inotify_path wp rel = pjoins wp rel.
Proof. exact inotify_polling_agree. Qed.
Print Assumptions C19_agree.

(* with a normalised root both are root ++ "/n1/n2/..." with the watch's tag *)
Theorem C19_agree_rooted : forall wp rel,
  pv_bytes wp <> [] -> last_is_sep (pv_bytes wp) = false -> forallb valid_name rel = true ->
  inotify_path wp rel = tagged (pv_tag wp) (pv_bytes wp ++ relsuffix rel) /\
  pjoins wp rel = tagged (pv_tag wp) (pv_bytes wp ++ relsuffix rel).
Proof. exact agree_rooted. Qed.
Print Assumptions C19_agree_rooted.

(* any path VALUE of any event of the typed emitter whose bytes name the entry [rel] is the polling path value of
   that entry (type and bytes) *)
Theorem C19_event_agree : forall full rec wp content it e v rel,
  In e (fst (typed_emit full rec wp content it)) -> (v = te_src e \/ v = te_dest e) ->
  pv_bytes wp <> [] -> last_is_sep (pv_bytes wp) = false -> forallb valid_name rel = true ->
  pv_bytes v = pv_bytes wp ++ relsuffix rel ->
  v = pjoins wp rel.
Proof. exact event_path_agree. Qed.
Print Assumptions C19_event_agree.

(* ---- name and type together: every non-empty path VALUE of every event of one queue_events() call on an item as the
   pipeline delivers it is the watch path followed by the valid relative names of an entry, with the watch's type -
   which is exactly the value the polling snapshot has for that entry *)
Theorem C19_event_value : forall full rec wp content it,
  pv_bytes wp <> [] -> last_is_sep (pv_bytes wp) = false ->
  match it with
  | Single x => raw_ok (pv_bytes wp) x
  | Pair f t => below (pv_bytes wp) (r_path f) /\ below (pv_bytes wp) (r_path t)
  end ->
  (forall p, wf_tree (content p) = true) ->
  forall e v, In e (fst (typed_emit full rec wp content it)) -> (v = te_src e \/ v = te_dest e) ->
  pv_bytes v <> [] ->
  exists rel, forallb valid_name rel = true /\
              v = tagged (pv_tag wp) (pv_bytes wp ++ relsuffix rel) /\ v = pjoins wp rel.
Proof. exact typed_emit_value. Qed.
Print Assumptions C19_event_value.

(* ================================================================== any spelling of the root *)
(* A root spelled with trailing '/' (or "/" itself): paths are [joins root rel] (= os.path.join along the names), not
   root ++ "/n1/...".  The emitter law carries over for every non-empty root: each path of each event is empty, or
   the root joined with valid names, or - for the parent of a top-level entry - the root with its trailing separators
   stripped ([norm_root root = dirname (join root n)]; equal to the root when it has no trailing '/'). *)
Theorem C19_event_paths_any_root : forall root, root <> [] ->
  forall full rec wp content it,
  match it with
  | Single x => jbelow root (r_path x) \/ (jrooted root (r_path x) /\ noparent (r_mask x) = true)
  | Pair f t => jbelow root (r_path f) /\ jbelow root (r_path t)
  end ->
  (forall p, wf_tree (content p) = true) ->
  forall e, In e (fst (emit full rec wp content it)) ->
    jpath_ok root (ev_src e) /\ jpath_ok root (ev_dest e).
Proof. exact emit_paths_any_root. Qed.
Print Assumptions C19_event_paths_any_root.

Theorem C19_dirname_top : forall root n, root <> [] -> valid_name n = true ->
  dirname (join root n) = norm_root root.
Proof. exact dirname_top. Qed.
Print Assumptions C19_dirname_top.

(* ---- the READER for any spelling of the root (formerly stated only, as C19_reader_any_root_full).  For a non-empty
   root that may end in separators ("/w/", "/w//", "/"): every batch keeps "every stored path is [joins root rel] for
   valid names rel" ([jpath_inv]: _path_for_wd, _wd_for_path, _moved_from_events, the moved-out candidate) and every
   InotifyEvent it outputs is strictly below the root or about a watched directory itself with a non-parent mask
   ([jraw_ok]) - through settle_pending / _forget_tree, _add_watch incl. the stale-key clean-up, the MOVED_TO re-key
   (a key src ++ "/" ++ rest becomes dst ++ "/" ++ rest = joins root (rd ++ c)), _recursive_simulate and the
   IN_IGNORED clean-up; os.path.join of a path that ends in '/' inserts no second separator.  (The pipeline model
   cannot be constructed on such a root - its file system is keyed by the normalised spelling, C19_pipeline_root,
   so C19_pipeline_paths has no root hypothesis to drop - hence a statement about read_batch from any state that
   satisfies the invariant, e.g. the one Inotify.__init__ leaves: both tables hold the root as spelled.) *)
Theorem C19_reader_any_root :
  forall C, c_root C <> [] ->
  forall t b r k acc r' k' acc',
  fs_names_ok t -> jpath_inv (c_root C) r -> Forall (jraw_ok (c_root C)) acc -> Forall kraw_ok b ->
  read_batch C t (r, k, acc) b = Done (r', k', acc') ->
  jpath_inv (c_root C) r' /\ Forall (jraw_ok (c_root C)) acc'.
Proof. exact jread_batch_inv. Qed.
Print Assumptions C19_reader_any_root.

Theorem C19_raw_paths_any_root :
  forall C, c_root C <> [] ->
  forall t b r k r' k' out,
  fs_names_ok t -> jpath_inv (c_root C) r -> Forall kraw_ok b ->
  read_batch C t (r, k, []) b = Done (r', k', out) ->
  forall x, In x out -> jrooted (c_root C) (r_path x).
Proof. exact jraw_paths. Qed.
Print Assumptions C19_raw_paths_any_root.

(* the re-key step on its own, any non-empty root: src any stored path, dst strictly below the root *)
Theorem C19_rekey_any_root : forall root, root <> [] -> forall src dst p,
  jrooted root src -> jbelow root dst -> jrooted root p -> starts (src ++ [sep]) p = true ->
  jrooted root (replace_first src dst p).
Proof. exact jrekey. Qed.
Print Assumptions C19_rekey_any_root.

(* ================================================================== non-vacuity *)
Example C19_dirname_nonvacuous :
  forallb valid_name [eacute_; xff_] = true /\
  dirname (rt_ ++ relsuffix ([eacute_] ++ [xff_])) = [47; 119; 47; 195; 169]%N.
Proof. vm_compute. split; reflexivity. Qed.

(* a directory rename with an undecodable descendant: moved, two parents, one synthetic sub-event *)
Example C19_event_paths_nonvacuous :
  let f := {| r_wd := 1; r_mask := N.lor IN_MOVED_FROM IN_ISDIR; r_cookie := 1; r_name := eacute_;
              r_path := rt_ ++ relsuffix [eacute_] |} in
  let t := {| r_wd := 1; r_mask := N.lor IN_MOVED_TO IN_ISDIR; r_cookie := 1; r_name := zhong_;
              r_path := rt_ ++ relsuffix [zhong_] |} in
  let content := fun _ : bytes => Node [] [xff_] in
  (forall r, In r (item_raws (Pair f t)) -> below rt_ (r_path r)) /\
  (forall p, wf_tree (content p) = true) /\
  map (fun e => (ev_src e, ev_dest e)) (fst (emit false true rt_ content (Pair f t))) =
    [([47;119;47;195;169], [47;119;47;228;184;173]);
     ([47;119], []); ([47;119], []);
     ([47;119;47;195;169;47;255], [47;119;47;228;184;173;47;255])]%N.
Proof.
  cbv zeta. split; [|split; [reflexivity | vm_compute; reflexivity]].
  intros r [<-|[<-|[]]]; cbn [r_path].
  - exists [], eacute_. repeat split.
  - exists [], zhong_. repeat split.
Qed.

(* mkdir "é"; touch "é/\xff"; rename "é" -> "中", through kernel, reader, buffer and emitter: 8 events, the last one
   the synthetic FileMovedEvent("/w/é/\xff", "/w/中/\xff") *)
Example C19_pipeline_nonvacuous :
  fs_names_ok (w_fs w_) /\ (forall o, In (AOp o) h_ -> op_names_ok o) /\
  exists s0 s obs, pinit P_ w_ = Some s0 /\ prun P_ s0 h_ [] = Done (s, obs) /\
    length (p_out s) = 8 /\
    last (p_out s) (mk FileCreated [] []) =
      {| ev_cls := FileMoved; ev_src := [47;119;47;195;169;47;255]%N; ev_dest := [47;119;47;228;184;173;47;255]%N;
         ev_synth := true |}.
Proof.
  split; [|split].
  - intros e [<-|[]]. reflexivity.
  - intros o Hin. unfold h_ in Hin. cbn [In] in Hin.
    repeat match type of Hin with
           | _ \/ _ => destruct Hin as [Hin|Hin]
           | False => contradiction
           | _ = _ => first [discriminate Hin | inversion Hin; subst; vm_compute; repeat split]
           end.
  - eexists. eexists. eexists. split; [vm_compute; reflexivity|]. split; [vm_compute; reflexivity|].
    vm_compute. split; reflexivity.
Qed.

(* mkdir "é"; rename "é" out of the tree; touch "é/\xff" in its new place (the kernel still reports it on the old
   descriptor).  Current code: the directory is forgotten when the next record is not its IN_MOVED_TO - 4 events, none
   about the file, the stale watch removed (its IN_IGNORED is queued, name-less), only the root is still known. *)
Example C19_moveout_nonvacuous :
  exists s0 s obs, pinit (Pm_ true) wm_ = Some s0 /\ prun (Pm_ true) s0 hm_ [] = Done (s, obs) /\
    map (fun e => (ev_cls e, ev_src e)) (p_out s) =
      [(DirCreated, [47;119;47;195;169]); (DirModified, [47;119]);
       (DirDeleted, [47;119;47;195;169]); (DirModified, [47;119])]%N /\
    wfp (p_r s) = [(rt_, 1%N)] /\ pend (p_r s) = None /\
    k_queue (p_k s) = [{| k_wd := 2; k_mask := IN_IGNORED; k_cookie := 0; k_name := [] |}].
Proof.
  eexists. eexists. eexists. split; [vm_compute; reflexivity|]. split; [vm_compute; reflexivity|].
  vm_compute. repeat split.
Qed.

(* The pinned code (c_fix_relabel := true; c_fix_moveout := false) on the same history: every path is still the root followed by valid names
   (C19_pipeline_paths holds for both values of the flag), but "/w/é/\xff" is reported created, opened and closed
   although no such entry ever existed - the name law alone does not exclude phantom paths; the repair does. *)
Example C19_moveout_pinned_phantom :
  exists s0 s obs, pinit (Pm_ false) wm_ = Some s0 /\ prun (Pm_ false) s0 hm_ [] = Done (s, obs) /\
    In (mk FileCreated [47;119;47;195;169;47;255]%N []) (p_out s) /\
    fexists [47;119;47;195;169;47;255]%N (w_fs (p_world s)) = false /\
    fexists [47;111;47;195;169;47;255]%N (w_fs (p_world s)) = true.
Proof.
  eexists. eexists. eexists. split; [vm_compute; reflexivity|]. split; [vm_compute; reflexivity|].
  split; [vm_compute; tauto | vm_compute; split; reflexivity].
Qed.

(* the same rename through the typed emitter: str watch -> every non-empty path is TStr, bytes watch -> TBytes *)
Example C19_type_nonvacuous :
  let f := {| r_wd := 1; r_mask := N.lor IN_MOVED_FROM IN_ISDIR; r_cookie := 1; r_name := eacute_;
              r_path := rt_ ++ relsuffix [eacute_] |} in
  let t := {| r_wd := 1; r_mask := N.lor IN_MOVED_TO IN_ISDIR; r_cookie := 1; r_name := zhong_;
              r_path := rt_ ++ relsuffix [zhong_] |} in
  let content := fun _ : bytes => Node [] [xff_] in
  map (fun e => (pv_tag (te_src e), pv_tag (te_dest e)))
      (fst (typed_emit false true (tagged (watch_tag WBytes) rt_) content (Pair f t))) =
    [(TBytes, TBytes); (TBytes, TStr); (TBytes, TStr); (TBytes, TBytes)] /\
  map (fun e => (pv_tag (te_src e), pv_tag (te_dest e)))
      (fst (typed_emit false true (tagged (watch_tag WPath) rt_) content (Pair f t))) =
    [(TStr, TStr); (TStr, TStr); (TStr, TStr); (TStr, TStr)] /\
  te_dest (last (fst (typed_emit false true (tagged (watch_tag WBytes) rt_) content (Pair f t))) (tmk FileCreated pempty pempty))
    = tagged TBytes [47;119;47;228;184;173;47;255]%N.
Proof. vm_compute. repeat split. Qed.

(* a root spelled "/w/": create of b"\xff" at the top level - the event names "/w/\xff" (= join), its parent is "/w" *)
Example C19_any_root_nonvacuous :
  let x := {| r_wd := 1; r_mask := IN_CREATE; r_cookie := 0; r_name := xff_; r_path := join (rt_ ++ [sep]) xff_ |} in
  jbelow (rt_ ++ [sep]) (r_path x) /\ norm_root (rt_ ++ [sep]) = rt_ /\
  map (fun e => (ev_src e, ev_dest e)) (fst (emit false true (rt_ ++ [sep]) (fun _ => Node [] []) (Single x))) =
    [([47;119;47;255], []); ([47;119], [])]%N.
Proof.
  cbv zeta. split; [|split; vm_compute; reflexivity].
  exists xff_, []. repeat split.
Qed.

(* the watch was given as "/w/": mkdir "é" (with b"\xff" inside, found by the simulated walk), rename "é" -> "中", chmod
   of the root, all in one batch - no doubled slash anywhere, the key of the moved directory is re-keyed to "/w/中",
   the root's own record keeps the spelling "/w/" *)
Example C19_reader_any_root_nonvacuous :
  last_is_sep (c_root Cs_) = true /\ fs_names_ok ts_ /\ jpath_inv (c_root Cs_) rs_ /\ Forall kraw_ok bs_ /\
  exists r' k' out, read_batch Cs_ ts_ (rs_, ks_, []) bs_ = Done (r', k', out) /\
    map r_path out = [[47;119;47;195;169]; [47;119;47;195;169;47;255]; [47;119;47;195;169];
                      [47;119;47;228;184;173]; [47;119;47]]%N /\
    wfp r' = [([47;119;47], 1); ([47;119;47;228;184;173], 2)]%N.
Proof.
  split; [reflexivity|]. split; [|split; [|split]].
  - intros e [<-|[<-|[<-|[]]]]; reflexivity.
  - repeat split.
    + intros wd p [H|[]]. inversion H; subst. exists []. split; reflexivity.
    + intros p wd [H|[]]. inversion H; subst. exists []. split; reflexivity.
    + intros c p [].
    + intros c p H. discriminate H.
  - repeat constructor; first [left; reflexivity | right; split; reflexivity].
  - eexists. eexists. eexists. split; [vm_compute; reflexivity|]. vm_compute. split; reflexivity.
Qed.

Example C19_agree_nonvacuous :
  inotify_path (tagged TStr rt_) [zhong_; xff_] = tagged TStr [47;119;47;228;184;173;47;255]%N /\
  pjoins (tagged TStr rt_) [zhong_; xff_] = tagged TStr [47;119;47;228;184;173;47;255]%N /\
  inotify_path (tagged TBytes (rt_ ++ [sep])) [xff_] = pjoins (tagged TBytes (rt_ ++ [sep])) [xff_] /\
  pv_bytes (pjoins (tagged TBytes (rt_ ++ [sep])) [xff_]) = [47;119;47;255]%N.
Proof. vm_compute. repeat split. Qed.
