open Sexp
open Conv

(* watch = ((path, recursive), filter) *)
let watch_of = function
  | L [p; r; f] -> ((n_of p, bool_of r), n_of f)
  | _ -> failwith "watch"
let sx_watch ((p, r), f) = L [sx_n p; sx_bool r; sx_n f]

let call_of = function
  | L [A "S"; h; w] -> Registry.Schedule (n_of h, watch_of w)
  | L [A "A"; h; w] -> Registry.AddHandler (n_of h, watch_of w)
  | L [A "R"; h; w] -> Registry.RemoveHandler (n_of h, watch_of w)
  | L [A "U"; w] -> Registry.Unschedule (watch_of w)
  | L [A "UA"] -> Registry.UnscheduleAll
  | L [A "ST"; ord] -> Registry.Start (list_of watch_of ord)
  | L [A "SP"] -> Registry.Stop
  | _ -> failwith "call"
let fault_of = function
  | A "N" -> Registry.NoFault
  | A "C" -> Registry.FailCtor
  | L [A "F"; k] -> Registry.FailStart (nat_of k)
  | _ -> failwith "fault"
let cf_of = function L [c; f] -> (call_of c, fault_of f) | _ -> failwith "call/fault"

let sx_result = function
  | Registry.Ok -> A "Ok"
  | Registry.Raised Registry.EKeyWatch -> A "KeyWatch"
  | Registry.Raised Registry.EKeyHandler -> A "KeyHandler"
  | Registry.Raised Registry.EKeyInternal -> A "KeyInternal"
  | Registry.Raised Registry.ECtor -> A "Ctor"
  | Registry.Raised Registry.EStart -> A "Start"
  | Registry.Raised Registry.EAlready -> A "Already"

let run = function
  | L [A "trace"; f2; f2b; cs] ->
    sx_list (fun (s, r) ->
        L [sx_result r;
           sx_list (fun (w, a) -> L [sx_watch w; sx_bool a]) (Registry.obs_emitters s);
           sx_list (fun (w, l) -> L [sx_watch w; sx_list sx_n l]) (Registry.receivers s);
           sx_bool (Registry.alive s)])
      (Registry.trace_from (bool_of f2) (bool_of f2b) Registry.init (list_of cf_of cs))
  | L [A "spec"; cs; univ] ->
    let u = list_of watch_of univ in
    sx_list (fun (t, r) ->
        L [sx_result r;
           sx_list (fun (w, a) -> L [sx_watch w; sx_bool a]) t.Registry.sched;
           sx_list (fun w -> L [sx_watch w; sx_list sx_n (t.Registry.hs w)]) u;
           sx_bool (Registry.spec_alive t)])
      (Registry.spec_trace_from Registry.spec_init (list_of cf_of cs))
  | _ -> failwith "registry: bad case"
