(* FSEvents: the two events of one rename delivered by two calls of queue_events (a batch cut between
   them).  The pairing look-ahead finds no partner, so the rename degrades to deleted(old) +
   created(new) + synthetic created events - which still replays to the tree. *)
Require Import WD.Base.Prelude WD.Base.BStr WD.Model.SubEvents WD.Proofs.SubEventsProofs.
Require Import WD.Model.PlatFs WD.Proofs.PlatFsProofs WD.Proofs.PlatReplayProofs WD.Proofs.PlatClosedProofs.
Require Import WD.Model.WinEmitter WD.Proofs.WinEmitterProofs WD.Proofs.WinReplayProofs.
Require Import WD.Model.FsEvents WD.Proofs.FsEventsProofs WD.Proofs.FsContractProofs WD.Proofs.FsReplayProofs.
Require Import Coq.Sorting.Permutation.

Section Rename.
  Variable f : fs.
  Variables s d : path.
  Hypothesis C : closed_fs f.
  Hypothesis Hs : s <> [].
  Hypothesis Hd : d <> [].
  Hypothesis Hms : fs_mem f s = true.
  Hypothesis Hmd : fs_mem f d = false.
  Hypothesis Hsd : under s d = false.

  Let R (e : entry) : entry :=
    if under s (e_path e) then Entry (reprefix s d (e_path e)) (e_kind e) (e_ino e) else e.
  Let after := apply_op f (ORename s d).

  Lemma lookup_renamed_src : lookup after s = None.
  Proof.
    destruct (lookup after s) as [e'|] eqn:E; [|reflexivity]. exfalso.
    apply lookup_in in E as [Hin Ep]. unfold after in Hin. cbn [apply_op] in Hin.
    apply in_map_iff in Hin as (e & <- & He).
    destruct (under s (e_path e)) eqn:U; cbn [e_path] in Ep.
    - unfold reprefix in Ep. pose proof (ds_incomparable f s d C Hs Hd Hms Hmd Hsd) as N.
      rewrite <- Ep, under_app in N. discriminate.
    - rewrite Ep, under_refl' in U. discriminate.
  Qed.

  Lemma lookup_renamed_dst : lookup after d = option_map R (lookup f s).
  Proof.
    unfold after. cbn [apply_op]. fold R. unfold lookup.
    assert (H : forall l, (forall e, In e l -> In e f) ->
      find (fun e => path_eqb (e_path e) d) (map R l) = option_map R (find (fun e => path_eqb (e_path e) s) l)).
    { induction l as [|e l IH]; intros Hl; [reflexivity|]. cbn [map find].
      assert (He : In e f) by (apply Hl; now left).
      assert (IH' := IH (fun x Hx => Hl x (or_intror Hx))).
      destruct (R_path f s d C Hd Hmd e He) as [(U & P)|(U & P & Ud)].
      - unfold R at 1 2. rewrite U. cbn [e_path]. unfold reprefix. pose proof (under_split _ _ U) as E.
        assert (Hq : path_eqb (e_path e) s = match skipn (length s) (e_path e) with [] => true | _ => false end)
          by (rewrite <- (path_eqb_app_nil s), <- E; reflexivity).
        rewrite path_eqb_app_nil, Hq. destruct (skipn (length s) (e_path e)) eqn:Esk; [|exact IH'].
        cbn [option_map]. unfold R. rewrite U. unfold reprefix. now rewrite Esk.
      - unfold R at 1 2. rewrite U.
        assert (path_eqb (e_path e) d = false) as ->.
        { apply not_true_is_false. intros H. apply path_eqb_eq in H. rewrite H, under_refl' in Ud. discriminate. }
        assert (path_eqb (e_path e) s = false) as ->.
        { apply not_true_is_false. intros H. apply path_eqb_eq in H. rewrite H, under_refl' in U. discriminate. }
        exact IH'. }
    apply H. auto.
  Qed.
End Rename.

(* ---------------------------------------------------------------- the emitter on the two halves *)
Theorem fse_rename_cut_events :
  forall stat_ino walk sub recursive root view (before : fs) s d,
  root <> [] -> last_is_sep root = false ->
  (forall p, walk (abspath root p) = sub p) -> (forall p, wf_tree (sub p) = true) ->
  closed_fs before -> op_names_ok (ORename s d) = true -> op_ok before (ORename s d) = true ->
  let after := apply_op before (ORename s d) in
  (forall p, stat_ino (abspath root p) = match lookup after p with Some e => Some (e_ino e) | None => None end) ->
  forall e, lookup before s = Some e ->
  let natives := map (frender root) (fsevents_kernel before (ORename s d)) in
  exists v1 v2,
    queue_events stat_ino walk recursive root view (firstn 1 natives)
    = Some (filter (keep recursive root) (map (render root) (ADeleted (e_kind e) s :: pmod s)), v1, false) /\
    queue_events stat_ino walk recursive root v1 (skipn 1 natives)
    = Some (filter (keep recursive root)
              (map (render root) (ACreated (e_kind e) d false :: pmod d ++
                                  map (fun x => ACreated (fst x) (d ++ snd x) true) (desc [] (sub d)))), v2, false).
Proof.
  intros stat_ino walk sub recursive root view before s d Hr Hsep Hw Hwf C Hn Ho after Hst e El natives.
  destruct (rename_ok _ _ _ Hn Ho) as (Hs & Hd & Hms & Hmd & Hsd).
  cbn [op_names_ok] in Hn. apply andb_true_iff in Hn as [Hps Hpd].
  subst natives. cbn [fsevents_kernel]. rewrite El. cbn [map firstn skipn].
  destruct (contract_moveout stat_ino walk recursive root Hr Hsep view s (e_ino e) (e_kind e) Hps) as (v1 & E1 & _).
  { rewrite Hst. subst after. now rewrite lookup_renamed_src. }
  destruct (contract_movein stat_ino walk sub recursive root Hr Hsep Hw Hwf v1 d (e_ino e) (e_kind e) Hpd) as (v2 & E2 & _).
  { rewrite Hst. subst after. rewrite lookup_renamed_dst by assumption. rewrite El. cbn [option_map].
    destruct (under s (e_path e)); reflexivity. }
  exists v1, v2. split; assumption.
Qed.

(* ---------------------------------------------------------------- ... and their replay *)
Lemma partition_perm {A} (g : A -> bool) l : Permutation l (filter g l ++ filter (fun x => negb (g x)) l).
Proof.
  induction l as [|x l IH]; [constructor|]. cbn [filter]. destruct (g x); cbn [negb app].
  - now constructor.
  - now apply Permutation_cons_app.
Qed.

Lemma nodup_single f s e : NoDup (map e_path f) -> lookup f s = Some e ->
  filter (fun x => path_eqb (e_path x) s) f = [e].
Proof.
  unfold lookup. induction f as [|x f IH]; intros N H; [discriminate|]. cbn [find filter] in *.
  inversion N as [|? ? Hnin N']; subst.
  destruct (path_eqb (e_path x) s) eqn:E.
  - inversion H; subst x. f_equal. apply path_eqb_eq in E.
    assert (Hno : forall y, In y f -> path_eqb (e_path y) s = false).
    { intros y Hy. apply not_true_is_false. intros Ey. apply path_eqb_eq in Ey. apply Hnin.
      rewrite E, <- Ey. now apply in_map. }
    clear -Hno. induction f as [|y f IH]; [reflexivity|]. cbn [filter].
    rewrite (Hno y) by now left. apply IH. intros z Hz. apply Hno. now right.
  - now apply IH.
Qed.

Theorem fse_rename_cut_replay :
  forall (sub : path -> tree) (before : fs) s d e,
  wf_fs before -> op_names_ok (ORename s d) = true -> op_ok before (ORename s d) = true ->
  lookup before s = Some e ->
  let after := apply_op before (ORename s d) in
  covers sub after (ORename s d) ->
  Permutation (replay (view_of before)
                 ((ADeleted (e_kind e) s :: pmod s) ++
                  (ACreated (e_kind e) d false :: pmod d ++
                   map (fun x => ACreated (fst x) (d ++ snd x) true) (desc [] (sub d)))))
              (view_of after).
Proof.
  intros sub before s d e [ND Cl] Hn Ho El after Hc.
  assert (C : closed_fs before) by exact Cl.
  destruct (rename_ok _ _ _ Hn Ho) as (Hs & Hd & Hms & Hmd & Hsd).
  pose proof (Hc eq_refl) as P. cbn [target] in P. unfold after in P. rewrite below_after_rename in P by assumption.
  rewrite replay_essential. cbn [pmod app filter essential].
  rewrite (essential_created (desc [] (sub d)) fst (fun x => d ++ snd x) (fun _ => true)).
  cbn [replay fold_left replay1].
  fold (replay (filter (fun x => negb (under s (fst x))) (view_of before) ++ [(d, e_kind e)])
               (map (fun x => ACreated (fst x) (d ++ snd x) true) (desc [] (sub d)))).
  rewrite (replay_created_list (desc [] (sub d)) fst (fun x => d ++ snd x) (fun _ => true)), <- app_assoc. cbn [app].
  (* the tree after, split into what stayed and what moved *)
  unfold after. cbn [apply_op].
  set (R := fun e0 : entry => if under s (e_path e0) then Entry (reprefix s d (e_path e0)) (e_kind e0) (e_ino e0) else e0).
  set (stay := fun x : entry => negb (under s (e_path x))).
  apply Permutation_sym.
  eapply Permutation_trans; [unfold view_of; apply Permutation_map, Permutation_map, (partition_perm stay)|].
  rewrite !map_app. apply Permutation_app.
  - (* what stayed is untouched *)
    rewrite <- (filter_view' (fun q => negb (under s q))). unfold view_of. rewrite map_map.
    change (filter stay before) with (filter (fun e0 => negb (under s (e_path e0))) before).
    erewrite map_ext_in; [apply Permutation_refl|].
    intros x Hx. apply filter_In in Hx as [_ Hx]. apply negb_true_iff in Hx. unfold R. now rewrite Hx.
  - (* what moved: the entry s itself and everything strictly below it *)
    assert (Hneg : forall l, filter (fun x => negb (stay x)) l = filter (fun x => under s (e_path x)) l).
    { intros l. apply filter_ext. intros x. unfold stay. now rewrite negb_involutive. }
    rewrite Hneg.
    eapply Permutation_trans;
      [apply Permutation_map, Permutation_map, (partition_perm (fun x => path_eqb (e_path x) s))|].
    rewrite !map_app.
    assert (E0 : filter (fun x => path_eqb (e_path x) s) (filter (fun x => under s (e_path x)) before) = [e]).
    { rewrite <- (nodup_single before s e ND El).
      clear. induction before as [|x l IH]; [reflexivity|]. cbn [filter].
      destruct (path_eqb (e_path x) s) eqn:E.
      - apply path_eqb_eq in E. rewrite E, under_refl'. cbn [filter]. rewrite <- E at 1. rewrite path_eqb_refl. now rewrite IH.
      - destruct (under s (e_path x)); cbn [filter]; [rewrite E|]; exact IH. }
    rewrite E0. cbn [map app].
    pose proof (lookup_in _ _ _ El) as [_ Ep].
    assert (HR : (e_path (R e), e_kind (R e)) = (d, e_kind e)).
    { unfold R. rewrite Ep, under_refl'. cbn [e_path e_kind]. unfold reprefix. now rewrite skipn_all, app_nil_r. }
    rewrite HR. apply perm_skip.
    (* strictly below s: the covering hypothesis *)
    apply (Permutation_map (fun pk : path * kind => (d ++ fst pk, snd pk))) in P. rewrite map_map in P. cbn [fst snd] in P.
    eapply Permutation_trans; [|apply Permutation_sym; exact P].
    unfold below.
    assert (E1 : forall l,
      map (fun x => (e_path x, e_kind x)) (map R (filter (fun x => negb (path_eqb (e_path x) s)) (filter (fun x => under s (e_path x)) l)))
      = map (fun pk : path * kind => (d ++ fst pk, snd pk))
            (flat_map (fun e0 => if under s (e_path e0) && negb (path_eqb (e_path e0) s)
                                 then [(skipn (length s) (e_path e0), e_kind e0)] else []) l)).
    { induction l as [|x l IH]; [reflexivity|]. cbn [filter flat_map].
      destruct (under s (e_path x)) eqn:U; cbn [filter andb]; [|exact IH].
      destruct (path_eqb (e_path x) s) eqn:Ex; cbn [negb map app]; [exact IH|].
      rewrite IH. unfold R at 1 2. rewrite U. reflexivity. }
    rewrite E1. apply Permutation_refl.
Qed.
