(* C05 in Return-label form: a non-raised Return of a removing call is preceded, after the call began,
   by a removal event that covers what the call removes. *)
Require Import WD.Base.Prelude WD.Model.Observer WD.Proofs.ObserverProofs WD.Proofs.ObserverInv.

Definition call_eqb (a b : call) : bool :=
  match a, b with
  | CSchedule h w, CSchedule h' w' => N.eqb h h' && N.eqb w w'
  | CUnschedule w, CUnschedule w' => N.eqb w w'
  | CAdd h w, CAdd h' w' => N.eqb h h' && N.eqb w w'
  | CRemove h w, CRemove h' w' => N.eqb h h' && N.eqb w w'
  | CUnscheduleAll, CUnscheduleAll | CStart, CStart | CStop, CStop | CJoin, CJoin => true
  | _, _ => false
  end.

Definition removing (c : call) : bool :=
  match c with CRemove _ _ | CUnschedule _ | CUnscheduleAll | CStop => true | _ => false end.

(* the ghost event x un-registers everything that call c is meant to remove *)
Definition covers_call (x : gev) (c : call) : bool :=
  match c, x with
  | CRemove h w, GRemoved h' w' => N.eqb h h' && N.eqb w w'
  | CRemove h w, GRemovedW w' => N.eqb w w'
  | CRemove h w, GRemovedAll => true
  | CUnschedule w, GRemovedW w' => N.eqb w w'
  | CUnschedule w, GRemovedAll => true
  | CUnscheduleAll, GRemovedAll => true
  | CStop, GRemovedAll => true
  | _, _ => false
  end.

Definition removal_instr (c : call) (i : instr) : bool :=
  match c, i with
  | CRemove h w, IRemH h' w' => N.eqb h h' && N.eqb w w'
  | CUnschedule w, IUnsched w' => N.eqb w w'
  | CUnscheduleAll, IClear => true
  | CStop, IClear => true
  | _, _ => false
  end.

Definition is_call_of (x : gev) (t : tid) (c : call) : bool :=
  match x with GCall t' c' => tid_eqb t t' && call_eqb c c' | _ => false end.

(* newest first: a covering removal event occurs before (i.e. later than) the begin of t's call c *)
Fixpoint since (g : list gev) (t : tid) (c : call) : bool :=
  match g with
  | [] => false
  | x :: l => if covers_call x c then true else if is_call_of x t c then false else since l t c
  end.

Fixpoint ret_ok (g : list gev) : bool :=
  match g with
  | [] => true
  | GRet t c false :: l => (negb (removing c) || since l t c) && ret_ok l
  | _ :: l => ret_ok l
  end.

Section RI.
  Variable g : list gev.
  Variable t : tid.
  (* acc = the instructions of the current call segment seen so far *)
  Fixpoint ri (acc : list instr) (k : list instr) : bool :=
    match k with
    | [] => true
    | IRet c :: k' => (negb (removing c) || existsb (removal_instr c) acc || since g t c) && ri [] k'
    | IRetX c :: k' => ri [] k'
    | i :: k' => ri (i :: acc) k'
    end.
End RI.

Definition is_ret (i : instr) : bool := match i with IRet _ | IRetX _ => true | _ => false end.
Definition norets (k : list instr) : bool := forallb (fun i => negb (is_ret i)) k.
Definition barrier (i : instr) : bool :=
  match i with ICall _ | DTurns | DSnap | DCheck | DExitI | DGet | DTaskDone => true | _ => false end.
(* no Return is pending behind a not yet started callback call / the dispatch loop *)
Fixpoint rets_first (k : list instr) : bool :=
  match k with
  | [] => true
  | i :: k' => if barrier i then norets k' else rets_first k'
  end.

Lemma norets_rets_first k : norets k = true -> rets_first k = true.
Proof.
  induction k as [|i k IH]; simpl; auto. intros H. apply andb_true_iff in H as [H1 H2].
  destruct (barrier i); auto.
Qed.

Lemma rets_first_tail i k : rets_first (i :: k) = true -> rets_first k = true.
Proof. simpl. destruct (barrier i); auto. apply norets_rets_first. Qed.

Lemma norets_app a b : norets (a ++ b) = norets a && norets b.
Proof. apply forallb_app. Qed.

Lemma ri_norets g t k : norets k = true -> forall acc, ri g t acc k = true.
Proof.
  induction k as [|i k IH]; simpl; auto. intros H acc. apply andb_true_iff in H as [H1 H2].
  destruct i; simpl in H1; try discriminate; auto.
Qed.

(* only removal instructions in acc matter *)
Definition is_removal (i : instr) : bool := match i with IRemH _ _ | IUnsched _ | IClear => true | _ => false end.
Lemma removal_instr_is c i : removal_instr c i = true -> is_removal i = true.
Proof. destruct c, i; simpl; auto. Qed.

Lemma ri_acc_weaken g t k : forall acc acc',
  (forall c, existsb (removal_instr c) acc = true -> existsb (removal_instr c) acc' = true) ->
  ri g t acc k = true -> ri g t acc' k = true.
Proof.
  induction k as [|i k IH]; simpl; auto. intros acc acc' Ha H.
  assert (Hc : forall j, forall c, existsb (removal_instr c) (j :: acc) = true -> existsb (removal_instr c) (j :: acc') = true).
  { intros j c. simpl. intros E. apply orb_true_iff in E as [E|E]; [rewrite E; auto|]. rewrite (Ha c E). apply orb_true_r. }
  destruct i; try (eapply IH; [apply Hc | exact H]); auto.
  apply andb_true_iff in H as [H1 H2]. rewrite H2, andb_true_r.
  apply orb_true_iff in H1 as [H1|H1]; [|rewrite H1; apply orb_true_r].
  apply orb_true_iff in H1 as [H1|H1]; [rewrite H1; auto|]. rewrite (Ha _ H1). rewrite orb_true_r. auto.
Qed.

Lemma ri_unwind g t k : forall acc acc', ri g t acc k = true -> ri g t acc' (unwind k) = true.
Proof.
  induction k as [|i k IH]; simpl; auto. intros acc acc' H.
  destruct i; simpl; try (eapply IH; exact H); auto.
  apply andb_true_iff in H. tauto.
Qed.

(* a new log entry that is not the begin of t's call c keeps `since` *)
Lemma since_cons x g t c : is_call_of x t c = false -> since g t c = true -> since (x :: g) t c = true.
Proof. intros H1 H2. simpl. rewrite H1, H2. destruct (covers_call x c); auto. Qed.

Lemma ri_log_mono x g t k : (forall c, is_call_of x t c = false) -> forall acc, ri g t acc k = true -> ri (x :: g) t acc k = true.
Proof.
  intros Hx. induction k as [|i k IH]; cbn [ri]; auto. intros acc H.
  destruct i; try (apply IH; exact H); auto.
  apply andb_true_iff in H as [H1 H2]. rewrite (IH _ H2), andb_true_r.
  apply orb_true_iff in H1 as [H1|H1]; [rewrite H1; auto|].
  rewrite (since_cons x g t c (Hx c) H1). apply orb_true_r.
Qed.

Lemma ri_app_norets g t new k : norets new = true -> forall acc, ri g t acc (new ++ k) = ri g t (rev new ++ acc) k.
Proof.
  induction new as [|i new IH]; simpl; auto. intros H acc. apply andb_true_iff in H as [H1 H2].
  destruct i; simpl in H1; try discriminate; rewrite IH by auto; rewrite <- app_assoc; reflexivity.
Qed.

Lemma ri_transfer g g' t k : forall acc acc',
  (forall c, existsb (removal_instr c) acc = true -> existsb (removal_instr c) acc' = true \/ since g' t c = true) ->
  (forall c, since g t c = true -> since g' t c = true) ->
  ri g t acc k = true -> ri g' t acc' k = true.
Proof.
  induction k as [|i k IH]; cbn [ri]; auto. intros acc acc' HA HM H.
  assert (Hc : forall j, forall c, existsb (removal_instr c) (j :: acc) = true ->
                 existsb (removal_instr c) (j :: acc') = true \/ since g' t c = true).
  { intros j c. simpl. intros E. apply orb_true_iff in E as [E|E]; [rewrite E; auto|].
    destruct (HA c E) as [E'|E']; [rewrite E', orb_true_r; auto | auto]. }
  destruct i; try (eapply IH; [apply Hc | exact HM | exact H]); auto.
  - apply andb_true_iff in H as [H1 H2]. apply andb_true_iff. split.
    + apply orb_true_iff in H1 as [H1|H1]; [|rewrite (HM _ H1); apply orb_true_r].
      apply orb_true_iff in H1 as [H1|H1]; [rewrite H1; auto|].
      destruct (HA _ H1) as [E|E]; rewrite E; rewrite ?orb_true_r; auto.
    + eapply IH; [ | exact HM | exact H2]. simpl. discriminate.
  - eapply IH; [ | exact HM | exact H]. simpl. discriminate.
Qed.

Definition nobarrier (k : list instr) : bool := forallb (fun i => negb (barrier i)) k.
Lemma rets_first_app new k : nobarrier new = true -> rets_first (new ++ k) = rets_first k.
Proof.
  induction new as [|i new IH]; simpl; auto. intros H. apply andb_true_iff in H as [H1 H2].
  destruct (barrier i); try discriminate. auto.
Qed.

Lemma norets_unwind k : norets k = true -> norets (unwind k) = true.
Proof.
  induction k as [|i k IH]; simpl; auto. intros H. apply andb_true_iff in H as [H1 H2].
  destruct i; simpl in *; try discriminate; auto.
Qed.

Lemma rets_first_unwind k : rets_first k = true -> rets_first (unwind k) = true.
Proof.
  induction k as [|i k IH]; simpl; auto. intros H.
  destruct (barrier i) eqn:Eb.
  - destruct i; simpl in Eb; try discriminate; simpl; apply norets_rets_first; apply norets_unwind; auto.
  - destruct i; simpl in Eb; try discriminate; simpl; auto.
Qed.

(* what a step of thread t adds to the log: only its own call / return markers *)
Lemma exec_glog s t i k inp s' : exec s t i k inp = Some s' ->
  exists new, glog s' = new ++ glog s /\
    (forall x t' c, In x new -> is_call_of x t' c = true -> t' = t) /\
    (forall t' c b, In (GRet t' c b) new -> t' = t /\ new = [GRet t c b] /\ (i = IRet c \/ i = IRetX c)).
Proof.
  intros H. destruct i; crush_exec H; rewrite glog_set_cont; cbn;
    first [ exists []; split; [reflexivity|]; split; intros; simpl in *; tauto
          | eexists [_]; split; [reflexivity|]
          | eexists [_; _]; split; [reflexivity|] ];
    (split; [ intros x t' c' Hin Hc; simpl in Hin; repeat destruct Hin as [Hin|Hin]; subst; simpl in Hc; try discriminate; try tauto;
              apply andb_true_iff in Hc as [Hc _]; apply tid_eqb_eq in Hc; auto
            | intros t' c' b Hin; simpl in Hin; repeat destruct Hin as [Hin|Hin]; try discriminate; try tauto;
              inversion Hin; subst; auto ]).
Qed.

Lemma forallb_flat_gen {A} (P : instr -> bool) (f : A -> list instr) l :
  (forall a, forallb P (f a) = true) -> forallb P (flat_map f l) = true.
Proof. intros H. induction l; simpl; auto. rewrite forallb_app, H, IHl. auto. Qed.
Lemma forallb_map_gen {A} (P : instr -> bool) (f : A -> instr) l : (forall a, P (f a) = true) -> forallb P (map f l) = true.
Proof. intros H. induction l; simpl; auto. rewrite H, IHl. auto. Qed.

Ltac fb_solve :=
  first [ reflexivity
        | apply forallb_flat_gen; intros; reflexivity
        | apply forallb_map_gen; intros; reflexivity ].

Lemma exec_rets_first s t i k inp s' : exec s t i k inp = Some s' ->
  rets_first (i :: k) = true -> rets_first (cont s' t) = true.
Proof.
  intros H Hrf. pose proof (rets_first_tail _ _ Hrf) as Hk.
  destruct i; crush_exec H; rewrite cont_set_cont_same;
    try (apply rets_first_unwind; exact Hk);
    try exact Hk;
    simpl in Hrf;
    try (simpl; rewrite ?Hk; auto; fail).
  all: try (unfold rets_first; fold rets_first; simpl; auto; fail).
  all: try (repeat (rewrite rets_first_app by fb_solve; simpl); rewrite ?rets_first_app by fb_solve; auto; fail).
  - rewrite rets_first_app; auto. destruct (fixed s), c; reflexivity.
  - apply norets_rets_first. rewrite norets_app. simpl. rewrite Hrf, andb_true_r.
    apply forallb_map_gen. reflexivity.
Qed.

Ltac since_mono := let c := fresh "c" in let E := fresh "E" in
  intros c E; repeat (apply since_cons; [reflexivity|]); exact E.

Lemma exec_ri s t i k inp s' : exec s t i k inp = Some s' ->
  ri (glog s) t [] (i :: k) = true -> rets_first (i :: k) = true ->
  ri (glog s') t [] (cont s' t) = true /\ (ret_ok (glog s) = true -> ret_ok (glog s') = true).
Proof.
  intros H Hri Hrf.
  destruct i; crush_exec H; rewrite cont_set_cont_same, glog_set_cont;
    cbn [glog say set_handlers set_watches set_emitters set_efw set_ems set_queue set_lock set_dstarted set_dstop
         set_dexited set_dcur set_dtodo set_dcont set_aconts set_glog upd_em];
    cbn [ri] in Hri; (split; [| try (cbn [ret_ok]; auto; fail)]).
  (* raise branches *)
  all: try (eapply ri_unwind;
            eapply ri_transfer; [ | | exact Hri]; [ intros c E; left; exact E | since_mono ]; fail).
  all: try reflexivity.
  (* plain pushes, the executed instruction is not a removal instruction *)
  all: try (cbn [ri app]; rewrite ?ri_app_norets by fb_solve; cbn [ri];
            eapply ri_transfer; [ | | exact Hri];
            [ intros c E; destruct c; simpl in E; discriminate | since_mono ]; fail).
  (* removal instructions: the covering event is now in the log *)
  all: try (cbn [ri app]; rewrite ?ri_app_norets by fb_solve; cbn [ri];
            eapply ri_transfer; [ | | exact Hri];
            [ intros c E; right; destruct c; simpl in E; try discriminate; rewrite ?orb_false_r in E; cbn; rewrite ?E; reflexivity
            | since_mono ]; fail).
  - (* ICall *) simpl in Hrf.
    destruct (fixed s), c; cbn [body app ri]; rewrite (ri_norets _ _ k Hrf); simpl; rewrite ?N.eqb_refl; reflexivity.
  - (* IClear *) repeat (rewrite ri_app_norets by fb_solve; cbn [ri]).
    eapply ri_transfer; [ | | exact Hri];
      [ intros c E; right; destruct c; simpl in E; try discriminate; reflexivity | since_mono ].
  - (* IRet *) apply andb_true_iff in Hri as [_ Hri]. eapply ri_transfer; [ | | exact Hri]; [intros c' E; left; exact E | since_mono].
  - (* ret_ok *) intros Hok. cbn [ret_ok]. rewrite Hok, andb_true_r. apply andb_true_iff in Hri as [Hri _].
    simpl in Hri. rewrite orb_false_r in Hri. exact Hri.
  - (* IRetX *) eapply ri_transfer; [ | | exact Hri]; [intros c' E; left; exact E | since_mono].
Qed.

Lemma since_app new g t c : (forall x, In x new -> is_call_of x t c = false) -> since g t c = true -> since (new ++ g) t c = true.
Proof.
  induction new as [|x new IH]; simpl; auto. intros H E.
  rewrite (H x (or_introl eq_refl)). rewrite IH; auto. destruct (covers_call x c); auto.
Qed.

Lemma ret_ok_app new g : (forall t c, ~ In (GRet t c false) new) -> ret_ok (new ++ g) = ret_ok g.
Proof.
  induction new as [|x new IH]; simpl; auto. intros H.
  assert (IH' : ret_ok (new ++ g) = ret_ok g) by (apply IH; intros t c Hin; apply (H t c); auto).
  destruct x; auto. destruct raised; auto. exfalso. eapply H. left. reflexivity.
Qed.

Definition RetInv (s : state) : Prop :=
  (forall t, ri (glog s) t [] (cont s t) = true /\ rets_first (cont s t) = true) /\ ret_ok (glog s) = true.

Lemma RetInv_exec s t i k inp s' : RetInv s -> cont s t = i :: k -> exec s t i k inp = Some s' -> RetInv s'.
Proof.
  intros [HT Hok] Ec H.
  destruct (HT t) as [Hri Hrf]. rewrite Ec in Hri, Hrf.
  destruct (exec_ri _ _ _ _ _ _ H Hri Hrf) as [Hri' Hok'].
  split; [|auto]. intros t'. destruct (tid_eq_dec t' t) as [->|Hne].
  - split; auto. eapply exec_rets_first; eauto.
  - destruct (exec_glog _ _ _ _ _ _ H) as [new [Eg [Hcalls _]]].
    destruct (HT t') as [Hri2 Hrf2].
    destruct (exec_others _ _ _ _ _ _ H t' Hne) as [E | [_ [_ [_ E]]]]; rewrite E; [|split; reflexivity].
    split; auto. rewrite Eg. eapply ri_transfer; [ | | exact Hri2].
    + intros c E'. left. exact E'.
    + intros c E'. apply since_app; auto. intros x Hin.
      destruct (is_call_of x t' c) eqn:Ei; auto. apply Hcalls in Ei; auto. congruence.
Qed.

Lemma RetInv_call s n c : RetInv s -> cont s (TA n) = [] ->
  RetInv (set_cont (TA n) (body (fixed s) c) (say (GCall (TA n) c) s)).
Proof.
  intros [HT Hok] Ec. split; [|exact Hok]. intros t'. destruct (tid_eq_dec t' (TA n)) as [->|Hne].
  - rewrite cont_set_cont_same. split; destruct (fixed s), c; cbn; rewrite ?N.eqb_refl; reflexivity.
  - rewrite cont_set_cont_other by congruence. rewrite glog_set_cont.
    destruct (HT t') as [Hri2 Hrf2]. split.
    + cbn. assert (E : cont (say (GCall (TA n) c) s) t' = cont s t') by (destruct t'; reflexivity). rewrite E.
      eapply ri_transfer; [ | | exact Hri2]; [intros c' E'; left; exact E' |].
      intros c' E'. apply since_cons; auto. simpl.
      destruct (tid_eqb t' (TA n)) eqn:Et; auto. apply tid_eqb_eq in Et. congruence.
    + assert (E : cont (say (GCall (TA n) c) s) t' = cont s t') by (destruct t'; reflexivity). rewrite E. auto.
Qed.

Lemma em_step_glog s l s' : em_label l = true -> step s l = Some s' ->
  exists new, glog s' = new ++ glog s /\ (forall x t c, In x new -> is_call_of x t c = false) /\
              (forall t c b, ~ In (GRet t c b) new) /\ (forall h w e, ~ In (GCb h w e) new).
Proof.
  intros Hl H. destruct l; try discriminate; simpl in H;
    repeat match type of H with context [match ?x with _ => _ end] => destruct x eqn:? end;
    try discriminate; inversion H; subst; clear H; cbn.
  all: first [ exists []; split; [reflexivity|]; repeat split; intros; intro; simpl in *; tauto
             | exists []; split; [reflexivity|]; repeat split; intros; simpl in *; tauto
             | eexists [_]; split; [reflexivity|]; split; [|split];
               [ intros x0 t0 c0 [<-|[]]; reflexivity
               | intros t0 c0 b0 [Hq|[]]; discriminate
               | intros h0 w0 ev0 [Hq|[]]; discriminate ] ].
Qed.

Lemma RetInv_em s l s' : RetInv s -> em_label l = true -> step s l = Some s' -> RetInv s'.
Proof.
  intros [HT Hok] Hl H.
  destruct (em_step_frame _ _ _ Hl H) as [Ec _].
  destruct (em_step_glog _ _ _ Hl H) as [new [Eg [Hc [Hr _]]]].
  split.
  - intros t. rewrite Ec, Eg. destruct (HT t) as [Hri Hrf]. split; auto.
    eapply ri_transfer; [ | | exact Hri]; [intros c E; left; exact E|].
    intros c E. apply since_app; auto.
  - rewrite Eg. rewrite ret_ok_app; auto.
Qed.

Lemma RetInv_reachable s : reachable s -> RetInv s.
Proof.
  apply reach_P.
  - apply RetInv_exec.
  - apply RetInv_call.
  - apply RetInv_em.
  - split; [|reflexivity]. intros t. destruct t; split; reflexivity.
Qed.

(* ret_ok, unfolded *)
Lemma since_split g t c : since g t c = true ->
  exists la r lb, g = la ++ r :: lb /\ covers_call r c = true /\ (forall x, In x la -> is_call_of x t c = false).
Proof.
  induction g as [|x g IH]; simpl; try discriminate. intros H.
  destruct (covers_call x c) eqn:Ec.
  - exists [], x, g. repeat split; auto. intros y [].
  - destruct (is_call_of x t c) eqn:Ei; try discriminate.
    destruct (IH H) as [la [r [lb [E [Hc Hl]]]]]. exists (x :: la), r, lb. subst. repeat split; auto.
    intros y [<-|Hin]; auto.
Qed.

Lemma ret_ok_split g : ret_ok g = true -> forall l2 t c l1, g = l2 ++ GRet t c false :: l1 -> removing c = true ->
  since l1 t c = true.
Proof.
  induction g as [|x g IH]; intros H l2 t c l1 E Hr.
  - destruct l2; discriminate.
  - destruct l2 as [|y l2]; simpl in E; inversion E; subst.
    + simpl in H. apply andb_true_iff in H as [H _]. rewrite Hr in H. simpl in H. exact H.
    + eapply IH; eauto. destruct y; simpl in H; auto. destruct raised; auto. apply andb_true_iff in H. tauto.
Qed.

Lemma covers_call_covers r c h w : covers_call r c = true ->
  (c = CRemove h w \/ c = CUnschedule w \/ c = CUnscheduleAll \/ c = CStop) -> covers r h w.
Proof.
  intros Hc [E|[E|[E|E]]]; subst c; destruct r; simpl in *; try discriminate; auto.
  - apply andb_true_iff in Hc as [H1 H2]. apply N.eqb_eq in H1, H2. auto.
  - apply N.eqb_eq in Hc. auto.
  - apply N.eqb_eq in Hc. auto.
Qed.

(* C05, Return-label form.  After the Return of a call that removes (h,w), a callback (h,w,_) occurs
   only if (h,w) was registered again after the call's removal event r (which lies between the call's
   begin and its Return). *)
Theorem no_callback_after_return s : reachable s ->
  forall l3 h w e l2 t c l1, glog s = l3 ++ GCb h w e :: l2 ++ GRet t c false :: l1 ->
    (c = CRemove h w \/ c = CUnschedule w \/ c = CUnscheduleAll \/ c = CStop) ->
    exists la r lb, l1 = la ++ r :: lb /\ covers r h w /\
      (forall x, In x la -> is_call_of x t c = false) /\
      In (GAdded h w) (l2 ++ GRet t c false :: la).
Proof.
  intros Hs l3 h w e l2 t c l1 Hg Hc.
  destruct (RetInv_reachable s Hs) as [_ Hok].
  assert (Hr : removing c = true) by (destruct Hc as [E|[E|[E|E]]]; subst c; reflexivity).
  assert (Hsince : since l1 t c = true).
  { eapply ret_ok_split with (l2 := l3 ++ GCb h w e :: l2); eauto. rewrite Hg. rewrite <- app_assoc. reflexivity. }
  destruct (since_split _ _ _ Hsince) as [la [r [lb [E [Hcov Hla]]]]].
  exists la, r, lb. repeat split; auto.
  - eapply covers_call_covers; eauto.
  - subst l1. eapply (no_callback_after_removal s Hs l3 h w e (l2 ++ GRet t c false :: la) r lb).
    + rewrite Hg. rewrite <- app_assoc. reflexivity.
    + eapply covers_call_covers; eauto.
Qed.
