(* The inotify pipeline as one executable transition system:
     file system + kernel (Fs.v)  ->  reader (Reader.v)  ->  buffer (Grouping.v over DelayQueue.v)
     ->  emitter (Emitter.v)
   over the action alphabet of the gated real-kernel driver (harness/gated.py):
     AOp o | ARead k | AEmit | ATick d.
   Definitions only. *)
Require Import WD.Base.Prelude WD.Base.BStr WD.Model.SubEvents WD.Model.Emitter WD.Model.Fs WD.Model.Reader
               WD.Model.DelayQueue WD.Model.Grouping.

Record pcfg := {
  pc_reader : cfg;
  pc_full : bool;                       (* InotifyFullEmitter *)
  pc_filter : option (list evbase);     (* event_filter of the watch (class filter in queue_event) *)
  pc_delay : N                          (* InotifyBuffer.delay in clock units *)
}.

Record pstate := {
  p_world : world;
  p_k : kst;
  p_r : rstate;
  p_buf : st * rst;                 (* delay queue + reader-side buffer state *)
  p_tbl : list (N * raw);           (* native event id -> InotifyEvent *)
  p_next : N;
  p_out : list nevent;              (* every event queued for the handlers so far *)
  p_stopped : bool;                 (* the emitter called self.stop() *)
}.

Inductive action := AOp (o : op) | ARead (k : nat) | AEmit | ATick (d : N).

(* what the driver can observe of one action *)
Inductive obs :=
| OSkip                              (* operation not applicable (system call would fail) / nothing to do *)
| ORaw (l : list kraw)               (* the records handed to the reader *)
| OEvents (l : list nevent)          (* the events queued by one queue_events() call *)
| ONone.

Definition nkind_of (C : cfg) (e : raw) : nkind :=
  let m := r_mask e in
  if Emitter.is_moved_from m then KFrom (r_cookie e)
  else if Emitter.is_moved_to m then KTo (r_cookie e)
  else if Emitter.is_ignored m then KIgnored (beqb (r_path e) (c_root C))
  else if Emitter.is_delete_self m then KDeleteSelf (beqb (r_path e) (c_root C))
  else KOther.

Fixpoint number (C : cfg) (n : N) (l : list raw) : list nev * list (N * raw) :=
  match l with
  | [] => ([], [])
  | e :: l' => let '(a, b) := number C (n + 1) l' in
               ({| n_id := n; n_kind := nkind_of C e |} :: a, (n, e) :: b)
  end.

(* the reader thread runs _group_events and the put loop to completion (the consumer is parked) *)
Fixpoint reader_run (delay : N) (fuel : nat) (b : st * rst) : st * rst :=
  match fuel with
  | O => b
  | S f =>
    match batch (snd b), grouped (snd b) with
    | [], [] => b
    | _ :: _, _ => match gstep delay b RGroup with Some b' => reader_run delay f b' | None => b end
    | [], _ :: _ => match gstep delay b RPut with Some b' => reader_run delay f b' | None => b end
    end
  end.

Definition raw_of (tbl : list (N * raw)) (e : nev) : option raw := alookup N.eqb (n_id e) tbl.

Definition item_to_emit (tbl : list (N * raw)) (it : Grouping.item) : option Emitter.item :=
  match it with
  | ISingle e => match raw_of tbl e with Some r => Some (Single r) | None => None end
  | IPair f t => match raw_of tbl f, raw_of tbl t with
                 | Some a, Some b => Some (Pair a b)
                 | _, _ => None
                 end
  end.

Section Pipe.
  Variable P : pcfg.
  Let C := pc_reader P.

  Definition pinit (w : world) : option pstate :=
    match construct C kinit (w_fs w) with
    | None => None
    | Some (r, k) =>
      Some {| p_world := w; p_k := k; p_r := r; p_buf := ginit; p_tbl := []; p_next := 1; p_out := [];
              p_stopped := false |}
    end.

  Definition pstep (s : pstate) (a : action) : outcome (pstate * obs) :=
    match a with
    | AOp o =>
      match apply_op (p_world s) o with
      | None => Done (s, OSkip)
      | Some w' =>
        Done ({| p_world := w'; p_k := kernel_op (p_k s) (w_fs (p_world s)) o; p_r := p_r s; p_buf := p_buf s;
                 p_tbl := p_tbl s; p_next := p_next s; p_out := p_out s; p_stopped := p_stopped s |}, ONone)
      end
    | ARead n =>
      if deleted_self (snd (p_buf s)) then Done (s, OSkip)       (* the buffer thread has exited *)
      else
        let b := firstn n (k_queue (p_k s)) in
        let k0 := {| k_watches := k_watches (p_k s); k_next_wd := k_next_wd (p_k s);
                     k_queue := skipn n (k_queue (p_k s)); k_next_cookie := k_next_cookie (p_k s) |} in
        match read_batch C (w_fs (p_world s)) (p_r s, k0, []) b with
        | Crash site => Crash site
        | Done (r', k', evs) =>
          let '(nevs, tbl) := number C (p_next s) evs in
          match gstep (pc_delay P) (p_buf s) (RRead nevs) with
          | None => Done (s, OSkip)
          | Some b1 =>
            let b2 := reader_run (pc_delay P) (2 * length nevs + 2) b1 in
            Done ({| p_world := p_world s; p_k := k'; p_r := r'; p_buf := b2; p_tbl := p_tbl s ++ tbl;
                     p_next := p_next s + N.of_nat (length evs); p_out := p_out s; p_stopped := p_stopped s |},
                  ORaw b)
          end
        end
    | AEmit =>
      if p_stopped s then Done (s, OSkip)
      else
        match gstep (pc_delay P) (p_buf s) (Q GetEnter) with
        | None => Done (s, OSkip)
        | Some b1 =>
          match gstep (pc_delay P) b1 (Q GetDelay) with
          | None => Done (s, OSkip)                      (* queue empty or head still delayed: not available *)
          | Some b2 =>
            match gstep (pc_delay P) b2 (Q GetPop) with
            | None => Done (s, OSkip)
            | Some b3 =>
              match rev (delivered b3) with
              | [] => Done (s, OSkip)
              | it :: _ =>
                match item_to_emit (p_tbl s) it with
                | None => Done (s, OSkip)
                | Some eit =>
                  let '(evs, stop) := emit_filtered (pc_filter P) (pc_full P) (c_recursive C) (c_root C)
                                                    (content (w_fs (p_world s))) eit in
                  Done ({| p_world := p_world s; p_k := p_k s; p_r := p_r s; p_buf := b3; p_tbl := p_tbl s;
                           p_next := p_next s; p_out := p_out s ++ evs; p_stopped := stop |}, OEvents evs)
                end
              end
            end
          end
        end
    | ATick d =>
      match gstep (pc_delay P) (p_buf s) (Q (Tick d)) with
      | Some b' => Done ({| p_world := p_world s; p_k := p_k s; p_r := p_r s; p_buf := b'; p_tbl := p_tbl s;
                            p_next := p_next s; p_out := p_out s; p_stopped := p_stopped s |}, ONone)
      | None => Done (s, OSkip)
      end
    end.

  Fixpoint prun (s : pstate) (h : list action) (acc : list obs) : outcome (pstate * list obs) :=
    match h with
    | [] => Done (s, acc)
    | a :: h' => match pstep s a with
                 | Done (s', o) => prun s' h' (acc ++ [o])
                 | Crash site => Crash site
                 end
    end.
End Pipe.
