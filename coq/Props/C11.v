(* C11 - An event filter only removes events; it never alters the rest of the stream.
   Only statements; every proof is `exact <lemma>`.

   What is proved here (all over the executable models Emitter.v / MaskTable.v, the latter tied to
   the source by the regenerated table Gen/MaskTableGen.v):
     C11_mask_is_source      the model of get_event_mask_from_filter = the table in the source
     C11_table               TABLE LEMMA: every native flag that matters for a filter is in its mask
     C11_mask_app            mask (F1 ++ F2) = mask F1 | mask F2
     C11_emit_commutes       filtered emitter = class filter applied to the unfiltered emitter's output
     C11_emit_transparent    a raw event the filtered watch is not sent yields nothing the filter accepts
     C11_emit_transparent_pair   same for a paired move when either half is outside the mask
     C11_stop_preserved      the raw event that stops the emitter is always sent
     C11_emit_stream         the two lemmas lifted to streams of single raw events
     C11_mask_move_whole     the mask never contains one half of IN_MOVE without the other
     C11_item_stream         ... and to streams of items (singles and paired moves) as handed over under the mask
     C11_table_refuted_pinned    the table of the pinned tree (finding F6)
   Over the kernel / reader / buffer models (Fs.v, Reader.v, Contract.v):
     C11_read_one_plain      a raw event without a structural bit only appends its InotifyEvent
     C11_reader_transparent  reading the kept part of a batch: same final state, kept part of the output
     C11_kernel_twin         same operation, watches with mask M' inside M: the second queue is the sent part of
                             the first, up to the kernel's coalescing (kcollapse; the kernel merges a record that agrees
                             with the last unread one in descriptor, mask and name - not the cookie)
     C11_kernel_no_coalescing    within one operation from a drained queue nothing is coalesced
     C11_reader_mask_irrelevant  the reader's bookkeeping does not depend on the mask of its watches
     C11_group_transparent   grouping the kept part of a batch = handed_over of the groups of the whole batch
     C11_transparent_step / C11_transparent_sequential
                             histories in which every operation is drained (one read of the whole queue,
                             grouping, emission): the filtered watch queues EXACTLY the accepted part of what
                             the unfiltered watch queues, from Inotify.__init__ on, for every recursive watch and
                             for every non-recursive watch whose mask contains IN_MOVE
     C11_transparent_sequential_all
                             the same for EVERY filter and both kinds of watch (the non-recursive watches whose mask
                             has no IN_MOVE are handled by a weaker twin relation: reader states equal up to
                             _moved_from_events), given a well-formed root path and rename sources with a base name
     C11_full_drained        C11_full instantiated with that drained semantics
   PORT TO THE REPAIRED READER (F10: settle_pending / forget_tree / pend, unknown descriptors skipped).  The twins carry
   [pend] (same candidate), forget the same tree, remove the same kernel watches and queue the same IN_IGNORED records
   (forget_tree_twin, settle_twin, krm_watch_twin); unknown descriptors are skipped on both sides.  Statement changes
   forced by the repair: C11_read_one_plain (the loop head may settle a candidate first; _idle variant = old statement),
   C11_reader_transparent (+ guardedb), C11_transparent_step / C11_pipeline_transparent_step (+ regular_step: the
   LOCK-STEP twin relation, which the lag breaks).  Strengthened: histories past a directory move-out are covered with
   the directory really forgotten on both sides (C11_sequential_moveout_nonvacuous); the pinned refutations (mask
   table, item stream) do not depend on c_fix_moveout.
   THE LAG (repaired reader, recursive filtered watch): when the first record after a directory move-out is one the
   filter's mask excludes, the unfiltered reader forgets the directory one or more operations before the filtered one;
   in between the two are not twins (a remembered candidate, stale watches and stale table rows on one side).  The
   history theorems no longer exclude this (no regular_from): C11_transparent_sequential / _sequential_all /
   C11_handler_sequential / C11_full_drained compare the NORMAL FORMS of the two worlds (the state after the pending
   candidate is settled and the reader's own IN_IGNORED records are dropped: nform) and show that a world and its
   normal form cannot be told apart by any later batch (C11_inert / C11_inert_back, C11_norm_fwd / C11_norm_bwd), so the
   twin argument runs on normal forms (C11_lag_step).  ONE HYPOTHESIS replaces regular_from, for recursive watches with
   the repaired reader only: [tidy_from C full w ops] - at every drained point of the UNFILTERED run, the normal form
   of the reader's _path_for_wd / _wd_for_path mention descriptors of live kernel watches only.  It does not mention
   the filter, it is executable (tidy_fromb, C11_tidy_fromb_sound) and it is discharged by computation in the
   examples (C11_lag_covered: the history of C11_lag_instance).  It is needed because a descriptor that died in one
   world only must be unknown to that world's reader for ever (otherwise a later record of the other world's live
   watch would be handled differently).  ON THE HISTORIES OF C02's SEQUENTIAL THEOREM THE HYPOTHESIS IS DISCHARGED: the
   cover invariant (WInv with wi_pfw / wi_keys, about the UNFILTERED watch, mask WATCHDOG_ALL - the run tidy_from speaks
   about) gives tidiness at every drained point (TidyCoverProofs.tidy_from_covered = C02_tidy_from), hence
   C11_transparent_sequential_covered / C11_transparent_sequential_all_covered / C11_handler_sequential_covered /
   C11_full_drained_covered: no tidy hypothesis, but [covered_hist C w ops] = no injected fault, well-formed initial file
   system with the root a directory, covered operations and directory move-outs only, the operation after a move-out
   producing a record for the unfiltered watch (CoverOutProofs.ops_x; C11_covered_hist_def).  Non-vacuity:
   C11_covered_lag_nonvacuous, a covered history with a directory move-out on which the filtered reader lags.
   REPAIR OF F10e (c_fix_relabel / Reader.unlabel: _add_watch deletes the stale key of a descriptor that comes back under
   another path): no statement changed.  The stale key is read off the reader's own tables, which twins share
   (unlabel_twin, by conversion: with_mask / with_rec carry the flag), and it only shrinks _wd_for_path (unlabel_snd), so
   dead descriptors stay unknown (add_watch_gone).  Every theorem holds for both values of the flag; no pinned witness
   of this file depends on it (the pinned refutations are about the mask table only).
   What is NOT proved: C11_full for the Pipeline LTS over arbitrary action histories.  The gaps, named:
   C11_pipeline_tie_filtered / C11_pipeline_transparent_step tie the drained regime to Pipeline.prun with the
   watch's class filter (pc_filter): they are C03's pipeline_tie with the filter kept. *)
Require Import WD.Base.Prelude WD.Base.BStr WD.Model.SubEvents WD.Model.Emitter WD.Model.MaskTable.
Require Import WD.Model.Fs WD.Model.Reader WD.Model.Contract.
Require Import WD.Gen.MaskTableGen WD.Proofs.MaskTableProofs WD.Proofs.C11Proofs WD.Proofs.ContractProofs.
Require Import WD.Proofs.C11KernelProofs WD.Proofs.C11ReaderProofs WD.Proofs.C11TwinProofs WD.Proofs.C11GroupProofs
               WD.Proofs.C11SeqProofs.
Require Import WD.Model.Pipeline WD.Proofs.C11TieProofs WD.Proofs.C11FlatProofs WD.Proofs.C11StutterProofs WD.Proofs.C11InertProofs
               WD.Proofs.C11LagProofs WD.Proofs.C11CoverProofs.
Require WD.Proofs.CoverProofs WD.Proofs.CoverOutProofs.

(* The full property.  [events F full recursive h] = the events delivered to the handler of a watch
   with event filter F (None = no filter) over the operation history h; [paced] = the pacing condition
   of C01.  To be instantiated with Pipeline.events when that model exists. *)
Definition C11_full (history : Type) (paced : history -> Prop)
    (events : option (list evbase) -> bool -> bool -> history -> list nevent) : Prop :=
  forall (F : option (list evbase)) (full_events recursive : bool) (h : history), paced h ->
    stutter_eq (events F full_events recursive h)
               (filter (fun e => accepts F (ev_cls e)) (events None full_events recursive h)).

(* The hand-written model of get_event_mask_from_filter is the table found in the source. *)
Theorem C11_mask_is_source : forall recursive F,
  mask_of_filter recursive F = Gen.mask_of_filter_gen recursive F.
Proof. exact mask_of_filter_eq_gen. Qed.
Print Assumptions C11_mask_is_source.

(* TABLE LEMMA.  Bound of the underlying sweep: 2 recursive settings x (empty filter + 13 classes:
   11 concrete, 2 bases) x 16 flags, against the generated table; arbitrary filter lists by the
   fold/lor lemma. *)
Theorem C11_table : forall (F : option (list evbase)) (recursive : bool) (b : N),
  In b (needed_for F recursive) -> flag_set b (mask_of_filter recursive F) = true.
Proof. exact table_lemma. Qed.
Print Assumptions C11_table.

Theorem C11_table_source : forall (F : option (list evbase)) (recursive : bool) (b : N),
  In b (needed_for F recursive) -> flag_set b (Gen.mask_of_filter_gen recursive F) = true.
Proof. exact table_lemma_gen. Qed.
Print Assumptions C11_table_source.

Theorem C11_mask_app : forall recursive l1 l2,
  mask_of_filter recursive (Some (l1 ++ l2))
  = Some (N.lor (effective_mask (mask_of_filter recursive (Some l1)))
                (effective_mask (mask_of_filter false (Some l2)))).
Proof. exact mask_of_filter_app. Qed.
Print Assumptions C11_mask_app.

(* Filtering commutes with emission: what an emitter constructed with filter F puts on the event queue
   for an item = the accepted part of what the unfiltered emitter puts there; the stop request is the same. *)
Theorem C11_emit_commutes : forall F full_events recursive watch_path content it,
  emit_filtered F full_events recursive watch_path content it
  = (filter (fun e => accepts F (ev_cls e)) (fst (emit full_events recursive watch_path content it)),
     snd (emit full_events recursive watch_path content it)).
Proof. exact emit_filtered_commutes. Qed.
Print Assumptions C11_emit_commutes.

(* A raw event that shares no user-space event bit with the mask the filter is compiled into
   (so the kernel does not send it to the filtered watch) yields no event the filter accepts -
   for every mask value, every path, normal and full emitter, any directory content. *)
Theorem C11_emit_transparent : forall F full_events recursive watch_path content e,
  delivered (effective_mask (mask_of_filter recursive F)) (r_mask e) = false ->
  filter (fun ev => accepts F (ev_cls ev)) (fst (emit full_events recursive watch_path content (Single e))) = [].
Proof. exact emit_transparent_single. Qed.
Print Assumptions C11_emit_transparent.

Theorem C11_emit_transparent_pair : forall F full_events recursive watch_path content f t,
  flag_set IN_MOVED_FROM (mask_of_filter recursive F) = false \/
  flag_set IN_MOVED_TO (mask_of_filter recursive F) = false ->
  filter (fun ev => accepts F (ev_cls ev)) (fst (emit full_events recursive watch_path content (Pair f t))) = [].
Proof. exact emit_transparent_pair. Qed.
Print Assumptions C11_emit_transparent_pair.

Theorem C11_stop_preserved : forall F full_events recursive watch_path content e,
  snd (emit full_events recursive watch_path content (Single e)) = true ->
  delivered (effective_mask (mask_of_filter recursive F)) (r_mask e) = true.
Proof. exact stop_preserved. Qed.
Print Assumptions C11_stop_preserved.

(* Streams of single raw events, same view of the tree: the filtered watch (which is sent only the
   events of its mask) queues exactly the accepted part of what the unfiltered watch queues. *)
Theorem C11_emit_stream : forall F full_events recursive watch_path content (rs : list raw),
  flat_map (fun e => fst (emit_filtered F full_events recursive watch_path content (Single e)))
           (filter (fun e => delivered (effective_mask (mask_of_filter recursive F)) (r_mask e)) rs)
  = filter (fun ev => accepts F (ev_cls ev))
           (flat_map (fun e => fst (emit full_events recursive watch_path content (Single e))) rs).
Proof. exact emit_stream. Qed.
Print Assumptions C11_emit_stream.

(* The mask never splits a move: IN_MOVED_FROM is asked for exactly when IN_MOVED_TO is. *)
Theorem C11_mask_move_whole : forall recursive F,
  flag_set IN_MOVED_FROM (mask_of_filter recursive F) = flag_set IN_MOVED_TO (mask_of_filter recursive F).
Proof. exact mask_move_whole. Qed.
Print Assumptions C11_mask_move_whole.

(* Streams of items (single events and paired moves).  [handed_over M it] is what the buffer of a watch
   with kernel mask M hands to its emitter in place of the item [it] of the unfiltered watch (same paths,
   same view of the tree): undelivered singles vanish, a pair with one half outside M would arrive as
   the other half alone.  The filtered watch queues exactly the accepted part. *)
Theorem C11_item_stream : forall F full_events recursive watch_path content (its : list item),
  flat_map (fun it => fst (emit_filtered F full_events recursive watch_path content it))
           (flat_map (handed_over (effective_mask (mask_of_filter recursive F))) its)
  = filter (fun ev => accepts F (ev_cls ev))
           (flat_map (fun it => fst (emit full_events recursive watch_path content it)) its).
Proof. exact emit_item_stream. Qed.
Print Assumptions C11_item_stream.

Theorem C11_item_stream_refuted_pinned :
  exists F full_events recursive watch_path content its,
    flat_map (fun it => fst (emit_filtered F full_events recursive watch_path content it))
             (flat_map (handed_over (effective_mask (mask_of_filter_pinned recursive F))) its)
    <> filter (fun ev => accepts F (ev_cls ev))
              (flat_map (fun it => fst (emit full_events recursive watch_path content it)) its).
Proof. exact emit_item_stream_refuted_pinned. Qed.
Print Assumptions C11_item_stream_refuted_pinned.

(* ------------------------------------------------------------------ kernel, reader, buffer *)
(* A raw kernel event with none of the bits the reader acts on (IN_MOVED_FROM, IN_MOVED_TO, IN_IGNORED, and
   IN_CREATE with IN_ISDIR under a recursive watch).  REPAIRED READER (F10): the head of the loop first settles a
   remembered move-out candidate (settle_pending); after that the event only appends its InotifyEvent - or nothing
   when its descriptor is unknown (skipped; the pinned code raised KeyError). *)
Theorem C11_read_one_plain : forall C t r k acc e,
  structural (c_recursive C) (k_mask e) = false ->
  read_one C t (r, k, acc) e =
  let '(r1, k1) := settle_pending C r k e in
  match alookup N.eqb (k_wd e) (pfw r1) with
  | None => if c_fix_moveout C then Done (r1, k1, acc) else Crash SITE_PATH_FOR_WD
  | Some wdp => Done (r1, k1, acc ++ [mkraw e (rpath wdp (k_name e))])
  end.
Proof. exact read_one_plain_c11. Qed.
Print Assumptions C11_read_one_plain.

(* ... and when no candidate is remembered (or with the pinned code) bookkeeping and kernel are untouched *)
Theorem C11_read_one_plain_idle : forall C t r k acc e,
  structural (c_recursive C) (k_mask e) = false -> pending_of C r = false ->
  read_one C t (r, k, acc) e =
  match alookup N.eqb (k_wd e) (pfw r) with
  | None => if c_fix_moveout C then Done (r, k, acc) else Crash SITE_PATH_FOR_WD
  | Some wdp => Done (r, k, acc ++ [mkraw e (rpath wdp (k_name e))])
  end.
Proof. exact read_one_plain_idle. Qed.
Print Assumptions C11_read_one_plain_idle.

(* For every predicate on masks that keeps the structural events (and, under a recursive watch, the
   IN_CREATE raws the reader simulates): reading the kept part of a batch ends in the same reader and
   kernel state and outputs the kept part of the output.
   STATEMENT CHANGED BY THE REPAIR OF F10 (new hypothesis [guardedb]): a record that can find a move-out candidate
   remembered - the first record when one is remembered at the start ([pending]), every successor of a directory
   IN_MOVED_FROM - must be kept.  Without it the statement is false of the repaired reader: a dropped record in such a
   position makes one run forget the moved directory and the other not (yet).  For the pinned code
   (c_fix_moveout = false) [guardedb _ _ false _] is always true and the old statement is recovered. *)
Theorem C11_reader_transparent : forall C t (keep : N -> bool),
  (forall m, structural (c_recursive C) m = true -> keep m = true) ->
  (c_recursive C = true -> keep IN_CREATE = true /\ keep (N.lor IN_CREATE IN_ISDIR) = true) ->
  forall b r k acc r' k' out pending,
    (pending_of C r = true -> pending = true) -> guardedb C keep pending b = true ->
    read_batch C t (r, k, acc) b = Done (r', k', out) ->
    read_batch C t (r, k, filter (fun x => keep (r_mask x)) acc) (filter (fun e => keep (k_mask e)) b)
    = Done (r', k', filter (fun x => keep (r_mask x)) out).
Proof. exact reader_transparent. Qed.
Print Assumptions C11_reader_transparent.

(* THE READER-LEVEL LAG LEMMA (repaired reader).  WHEN a remembered move-out candidate is settled does not matter, and records
   that cannot produce anything may be removed from a batch.
   [settle_now] = what the head of the next iteration will do to a remembered candidate; [E2] = the two states have the same
   settled form (same tables after settling, same watches and counters); [inv] = the two runs are aligned (same reader state)
   or skewed (same settled form; nothing ahead matches a candidate still remembered), and every [dead] descriptor is gone for
   good ([gone]: below the counter, no kernel watch, in no table).  [sel] removes records whose descriptor is dead, or that
   are plain and not kept; [shapeP]: the second half of a directory rename comes right after the first half or not at all.
   Then the run over the shorter batch ends with the same settled form and outputs the kept part - whichever of the two
   runs settles first.  No guard (cf. C11_reader_transparent). *)
Theorem C11_inert : forall C keep sel dead,
  (c_recursive C = true -> keep IN_CREATE = true /\ keep (N.lor IN_CREATE IN_ISDIR) = true) ->
  forall t b r1 k1 r2 k2 acc r1' k1' out,
    (forall e, In e b -> sel e = false ->
               dead (k_wd e) = true \/ (structural (c_recursive C) (k_mask e) = false /\ keep (k_mask e) = false)) ->
    (forall e, In e b -> sel e = true -> keep (k_mask e) = true) ->
    shapeP C b -> inv C dead b r1 k1 r2 k2 ->
    read_batch C t (r1, k1, acc) b = Done (r1', k1', out) ->
    exists r2' k2',
      read_batch C t (r2, k2, filter (fun x => keep (r_mask x)) acc) (filter sel b)
      = Done (r2', k2', filter (fun x => keep (r_mask x)) out) /\
      E2 C r1' k1' r2' k2'.
Proof. exact inert. Qed.
Print Assumptions C11_inert.

(* ... and back: with the repair (unknown descriptors are skipped) the longer batch is read without a crash whenever the
   shorter one is *)
Theorem C11_inert_back : forall C keep sel dead,
  (c_recursive C = true -> keep IN_CREATE = true /\ keep (N.lor IN_CREATE IN_ISDIR) = true) ->
  forall t, c_fix_moveout C = true -> forall b r1 k1 r2 k2 acc r2' k2' out2,
    (forall e, In e b -> sel e = false ->
               dead (k_wd e) = true \/ (structural (c_recursive C) (k_mask e) = false /\ keep (k_mask e) = false)) ->
    (forall e, In e b -> sel e = true -> keep (k_mask e) = true) ->
    shapeP C b -> inv C dead b r1 k1 r2 k2 ->
    read_batch C t (r2, k2, filter (fun x => keep (r_mask x)) acc) (filter sel b) = Done (r2', k2', out2) ->
    exists r1' k1' out, read_batch C t (r1, k1, acc) b = Done (r1', k1', out).
Proof. exact inert_back. Qed.
Print Assumptions C11_inert_back.

Theorem C11_reader_transparent_pinned : forall C, c_fix_moveout C = false -> forall keep b, guardedb C keep false b = true.
Proof. exact guarded_pinned. Qed.
Print Assumptions C11_reader_transparent_pinned.

(* Two inotify instances with the same watches, masks M and M' (M' inside M, no IN_ISDIR bit): the same
   operation keeps them twins, and the second queue is what the kernel's coalescing makes of the part of
   the first queue that a watch with mask M' is sent. *)
Theorem C11_kernel_twin : forall M M', N.land M' M = M' -> N.land IN_ISDIR M' = 0%N ->
  forall k k' t o, kwt M M' k k' -> kq M' k k' ->
    kwt M M' (kernel_op k t o) (kernel_op k' t o) /\ kq M' (kernel_op k t o) (kernel_op k' t o).
Proof. exact kernel_op_twin. Qed.
Print Assumptions C11_kernel_twin.

(* (statement adapted to the kernel's comparison, which ignores the cookie: the records of one operation differ
   pairwise in (descriptor, mask, name) - stronger than NoDup of the records) *)
Theorem C11_kernel_no_coalescing : forall k t o, k_queue k = [] -> NoDup (map kkey (k_queue (kernel_op k t o))).
Proof. exact kernel_op_nodup. Qed.
Print Assumptions C11_kernel_no_coalescing.

Theorem C11_reader_mask_irrelevant : forall C M M', c_mask C = M -> forall t b r k k' acc,
  kw0 M M' k k' ->
  orel M M' (read_batch C t (r, k, acc) b) (read_batch (with_mask C M') t (r, k', acc) b).
Proof. exact read_batch_twin. Qed.
Print Assumptions C11_reader_mask_irrelevant.

Theorem C11_group_transparent : forall C M', N.land M' IN_ALL_EVENTS = M' -> N.land IN_ISDIR M' = 0%N ->
  flag_in IN_MOVED_FROM M' = flag_in IN_MOVED_TO M' ->
  forall raws, Forall (fun x => kshaped (r_mask x)) raws ->
    group_batch C (filter (fun x => kkeep M' (r_mask x)) raws) = flat_map (handed_over M') (group_batch C raws).
Proof. exact group_batch_handed. Qed.
Print Assumptions C11_group_transparent.

(* every recursive watch sees the structural events, whatever its filter (from the table lemma) *)
Theorem C11_visible_recursive : forall F, visible F true.
Proof. exact visible_recursive. Qed.
Print Assumptions C11_visible_recursive.

(* ONE DRAINED OPERATION.  [run_one F C full w k r o] = apply o, let the kernel queue its records, read the
   whole queue, group, emit through the class filter F; it returns the new world / kernel / reader state
   and the events queued (with F = None it is Contract.deliver_one).  The unfiltered watch has mask
   WATCHDOG_ALL, the filtered one the mask its filter is compiled into.
   REPAIRED READER (F10): the twins have the same reader state INCLUDING the remembered move-out candidate [pend], the
   same watches up to their masks ([kw0]) and the same unread records (the reader itself queues IN_IGNORED records
   when it removes the watches of a directory that left the tree: [qjunk]).  New hypothesis [regular_step], about the
   UNFILTERED world only: (1) the records in its kernel queue differ pairwise in (descriptor, mask, name) before and
   after the operation - always true from a drained queue (C11_kernel_no_coalescing) -, (2) the batch is guarded
   (C11_reader_transparent): the record after a directory IN_MOVED_FROM / the first record when a candidate is
   remembered is one the filtered watch is sent too.  When (2) fails the unfiltered reader forgets the moved-out
   directory one or more operations before the filtered reader does: a lag without visible effect that this LOCK-STEP
   theorem does not cover; C11_lag_step below does. *)
Theorem C11_transparent_step : forall F C, c_mask C = WATCHDOG_ALL -> visible F (c_recursive C) ->
  forall full w k k' r o w1 k1 r1 evs,
    kw0 WATCHDOG_ALL (kmask F (c_recursive C)) k k' -> k_queue k = k_queue k' -> qjunk k -> regular_step F C w k r o ->
    run_one None C full w k r o = Some (w1, k1, r1, evs) ->
    exists k1', run_one F (with_mask C (kmask F (c_recursive C))) full w k' r o
                = Some (w1, k1', r1, filter (fun e => accepts F (ev_cls e)) evs) /\
                kw0 WATCHDOG_ALL (kmask F (c_recursive C)) k1 k1' /\ k_queue k1 = k_queue k1' /\ qjunk k1.
Proof. exact transparent_step. Qed.
Print Assumptions C11_transparent_step.

Theorem C11_run_one_is_deliver_one : forall C full w k r o,
  option_map snd (run_one None C full w k r o) = deliver_one C full w k r o.
Proof. exact run_one_deliver. Qed.
Print Assumptions C11_run_one_is_deliver_one.

(* HISTORIES IN WHICH EVERY OPERATION IS DRAINED, from Inotify.__init__ on the initial file system: the watch
   with event filter F queues exactly the accepted part of what the unfiltered watch queues (no stutter
   needed: nothing is coalesced in this regime).  Hypothesis [visible]: the filter's mask contains IN_MOVE
   (and IN_CREATE when recursive) - true of every recursive watch (C11_visible_recursive).
   REPAIRED READER (F10): for a recursive watch with the repaired reader the unfiltered run has to be tidy at its
   drained points ([tidy_from], see the header; nothing about the filter, nothing about which record follows a
   move-out).  Non-recursive watches and the pinned reader need nothing. *)
Theorem C11_transparent_sequential : forall F C full,
  c_mask C = WATCHDOG_ALL -> visible F (c_recursive C) ->
  forall w ops evs,
    (c_recursive C = true -> c_fix_moveout C = true -> tidy_from C full w ops) ->
    run_from None C full w ops = Some evs ->
    run_from F (with_mask C (kmask F (c_recursive C))) full w ops
    = Some (filter (fun e => accepts F (ev_cls e)) evs).
Proof. exact transparent_from_vis. Qed.
Print Assumptions C11_transparent_sequential.

(* the lock-step version (the statement before the lag bisimulation): [regular_from] = [regular_step] at every
   operation of the unfiltered run, and no tidiness *)
Theorem C11_transparent_sequential_regular : forall F C full,
  c_mask C = WATCHDOG_ALL -> visible F (c_recursive C) ->
  forall w ops evs,
    regular_from F C full w ops ->
    run_from None C full w ops = Some evs ->
    run_from F (with_mask C (kmask F (c_recursive C))) full w ops
    = Some (filter (fun e => accepts F (ev_cls e)) evs).
Proof. exact transparent_from. Qed.
Print Assumptions C11_transparent_sequential_regular.

(* the pinned reader never removes a watch by itself: every run is regular *)
Theorem C11_regular_pinned : forall F C, c_fix_moveout C = false -> forall full w ops, regular_from F C full w ops.
Proof. exact regular_from_pinned. Qed.
Print Assumptions C11_regular_pinned.

Theorem C11_regular_nonrecursive : forall F C, c_recursive C = false -> forall full w ops, regular_from F C full w ops.
Proof. exact regular_from_nr. Qed.
Print Assumptions C11_regular_nonrecursive.

(* EVERY FILTER, RECURSIVE AND NON-RECURSIVE.  The hypotheses beyond C11_transparent_sequential's replace
   [visible]: the root path is non-empty and does not end in "/", and the source of every rename has a proper
   base name (both true of every real path; needed only for the non-recursive watches whose mask has no IN_MOVE,
   to know that a remembered move source is never the watched root itself).  [tidy_from] is needed for recursive
   watches with the repaired reader only. *)
Theorem C11_transparent_sequential_all : forall F C full,
  c_mask C = WATCHDOG_ALL -> c_root C <> [] -> last_is_sep (c_root C) = false ->
  forall w ops evs, Forall op_ok ops ->
    (c_recursive C = true -> c_fix_moveout C = true -> tidy_from C full w ops) ->
    run_from None C full w ops = Some evs ->
    run_from F (with_mask C (kmask F (c_recursive C))) full w ops
    = Some (filter (fun e => accepts F (ev_cls e)) evs).
Proof. exact transparent_from_all. Qed.
Print Assumptions C11_transparent_sequential_all.

(* the non-recursive reader is insensitive to the halves of a move *)
Theorem C11_reader_transparent_flat : forall C, c_recursive C = false -> c_root C <> [] -> last_is_sep (c_root C) = false ->
  forall t (keep : N -> bool), (forall m, Emitter.is_ignored m = true -> keep m = true) ->
  forall b r r0 k acc r' k' out,
    (forall e, In e b -> keep (k_mask e) = true -> is_moved_from (k_mask e) = false /\ is_moved_to (k_mask e) = false) ->
    (forall e, In e b -> is_moved_from (k_mask e) = true -> valid_name (k_name e) = true) ->
    req r r0 -> flat_inv (c_root C) r ->
    read_batch C t (r, k, acc) b = Done (r', k', out) ->
    exists r0',
      read_batch C t (r0, k, filter (fun x => keep (r_mask x)) acc) (filter (fun e => keep (k_mask e)) b)
      = Done (r0', k', filter (fun x => keep (r_mask x)) out) /\ req r' r0' /\ flat_inv (c_root C) r' /\ k' = k.
Proof. exact reader_transparent_flat. Qed.
Print Assumptions C11_reader_transparent_flat.

(* The skip-repeats queue between emitter and handler: [skips None puts kept] = [kept] is [puts] minus some
   events that are equal to the most recently queued one.  If the filtered watch queues the accepted part of what
   the unfiltered watch queues, the handlers' streams are equal up to stutter, whatever either queue drops. *)
Theorem C11_stutter_closure : forall F putsU keptU putsF keptF,
  putsF = filter (fun e => accepts F (ev_cls e)) putsU -> skips None putsU keptU -> skips None putsF keptF ->
  stutter_eq keptF (filter (fun e => accepts F (ev_cls e)) keptU).
Proof. exact stutter_closure. Qed.
Print Assumptions C11_stutter_closure.

(* drained histories, at the handlers: C11_full's conclusion for the drained regime *)
Theorem C11_handler_sequential : forall F C full,
  c_mask C = WATCHDOG_ALL -> c_root C <> [] -> last_is_sep (c_root C) = false ->
  forall w ops evsU, Forall op_ok ops ->
    (c_recursive C = true -> c_fix_moveout C = true -> tidy_from C full w ops) ->
    run_from None C full w ops = Some evsU ->
    exists evsF, run_from F (with_mask C (kmask F (c_recursive C))) full w ops = Some evsF /\
      forall keptU keptF, skips None evsU keptU -> skips None evsF keptF ->
        stutter_eq keptF (filter (fun e => accepts F (ev_cls e)) keptU).
Proof. exact handler_sequential. Qed.
Print Assumptions C11_handler_sequential.

(* C11_full holds of the drained semantics: history = (reader configuration, initial world, operations), every
   operation drained; paced = WATCHDOG_ALL_EVENTS for the unfiltered watch, well-formed root path, rename sources
   with a base name, no reader crash, and - repaired reader - the recursive unfiltered run tidy at its drained points
   (no clause about the filter any more). *)
Theorem C11_full_drained : C11_full dhist paced_drained events_drained.
Proof. exact full_drained. Qed.
Print Assumptions C11_full_drained.

(* ------------------------------------------------------------------ the lag bisimulation *)
(* [nform C r k] = the NORMAL FORM of a drained state: the reader after the remembered move-out candidate (if any) is
   settled as "left the tree" (its watches forgotten and removed from the kernel), with the IN_IGNORED records this
   queues dropped.  [wi] = the invariant of a world (kernel well formed, every watch has the configured mask, cookies
   of remembered candidates already used); [tidy] = the reader's tables mention live descriptors only.
   A world and its normal form read the records of the next operation to the same output and stay related (E2: same
   normal form, same watches); if the normal form does not crash, neither does the world. *)
Theorem C11_norm_fwd : forall C t t' o r k, wi C r k -> tidy (fst (nform C r k)) (snd (nform C r k)) ->
  forall r1 k1 raws,
    read_batch C t' (r, kdrained (kernel_op k t o), []) (k_queue (kernel_op k t o)) = Done (r1, k1, raws) ->
    exists rn1 kn1,
      read_batch C t' (fst (nform C r k), kdrained (kernel_op (snd (nform C r k)) t o), [])
                 (k_queue (kernel_op (snd (nform C r k)) t o)) = Done (rn1, kn1, raws) /\
      E2 C r1 k1 rn1 kn1.
Proof. exact norm_fwd. Qed.
Print Assumptions C11_norm_fwd.

Theorem C11_norm_bwd : forall C t t' o r k, wi C r k -> tidy (fst (nform C r k)) (snd (nform C r k)) ->
  c_fix_moveout C = true ->
  forall rn1 kn1 raws,
    read_batch C t' (fst (nform C r k), kdrained (kernel_op (snd (nform C r k)) t o), [])
               (k_queue (kernel_op (snd (nform C r k)) t o)) = Done (rn1, kn1, raws) ->
    exists r1 k1 raws',
      read_batch C t' (r, kdrained (kernel_op k t o), []) (k_queue (kernel_op k t o)) = Done (r1, k1, raws').
Proof. exact norm_bwd. Qed.
Print Assumptions C11_norm_bwd.

Theorem C11_world_invariant_step : forall C t t' o r k, wi C r k ->
  forall r1 k1 raws,
    read_batch C t' (r, kdrained (kernel_op k t o), []) (k_queue (kernel_op k t o)) = Done (r1, k1, raws) ->
    wi C r1 k1.
Proof. exact wi_step. Qed.
Print Assumptions C11_world_invariant_step.

Theorem C11_world_invariant_construct : forall C t r k, construct C kinit t = Some (r, k) -> wi C r k /\ pend r = None.
Proof. exact construct_wi. Qed.
Print Assumptions C11_world_invariant_construct.

(* ONE DRAINED OPERATION, UP TO THE LAG.  [tw F C rU kU rF kF]: the two worlds have the same normal-form reader state
   and normal-form kernels that are twins (same watches up to the masks, same counters).  The real states may differ:
   one reader may still remember a candidate, hold the rows of a moved-out tree and own kernel watches the other has
   already removed.  The filtered watch queues exactly the accepted part, and the worlds are related again. *)
Theorem C11_lag_step : forall F C, c_mask C = WATCHDOG_ALL -> visible F (c_recursive C) -> c_fix_moveout C = true ->
  forall full w kU rU kF rF o w1 kU1 rU1 evs,
    wi C rU kU -> wi (with_mask C (kmask F (c_recursive C))) rF kF -> tw F C rU kU rF kF ->
    tidy (fst (nform C rU kU)) (snd (nform C rU kU)) ->
    run_one None C full w kU rU o = Some (w1, kU1, rU1, evs) ->
    exists kF1 rF1,
      run_one F (with_mask C (kmask F (c_recursive C))) full w kF rF o
      = Some (w1, kF1, rF1, filter (fun e => accepts F (ev_cls e)) evs) /\
      wi C rU1 kU1 /\ wi (with_mask C (kmask F (c_recursive C))) rF1 kF1 /\ tw F C rU1 kU1 rF1 kF1.
Proof. exact lag_step. Qed.
Print Assumptions C11_lag_step.

(* ... and over a history from Inotify.__init__ (C11_transparent_sequential restricted to the repaired reader) *)
Theorem C11_lag_sequential : forall F C, c_mask C = WATCHDOG_ALL -> visible F (c_recursive C) -> c_fix_moveout C = true ->
  forall full w ops evs,
    tidy_from C full w ops ->
    run_from None C full w ops = Some evs ->
    run_from F (with_mask C (kmask F (c_recursive C))) full w ops
    = Some (filter (fun e => accepts F (ev_cls e)) evs).
Proof. exact lag_from. Qed.
Print Assumptions C11_lag_sequential.

(* tidiness is decidable along a run *)
Theorem C11_tidy_fromb_sound : forall C full w ops, tidy_fromb C full w ops = true -> tidy_from C full w ops.
Proof. exact tidy_fromb_sound. Qed.
Print Assumptions C11_tidy_fromb_sound.

(* ------------------------------------------------------------------ on the histories of C02: no tidy hypothesis *)
(* [covered_hist C w ops]: a history of C02's sequential theorem (C02_cover_from_start_partial), stated for the
   configuration C of the UNFILTERED watch (mask WATCHDOG_ALL). *)
Theorem C11_covered_hist_def : forall C w ops, covered_hist C w ops <->
  (c_faults C = [] /\ CoverProofs.wf_fs w /\ fisdir (c_root C) (w_fs w) = true /\ CoverOutProofs.ops_x C w None ops).
Proof. exact covered_hist_def. Qed.
Print Assumptions C11_covered_hist_def.

Theorem C11_transparent_sequential_covered : forall F C full,
  c_mask C = WATCHDOG_ALL -> visible F (c_recursive C) ->
  forall w ops evs,
    (c_recursive C = true -> c_fix_moveout C = true -> covered_hist C w ops) ->
    run_from None C full w ops = Some evs ->
    run_from F (with_mask C (kmask F (c_recursive C))) full w ops
    = Some (filter (fun e => accepts F (ev_cls e)) evs).
Proof. exact transparent_from_covered. Qed.
Print Assumptions C11_transparent_sequential_covered.

Theorem C11_transparent_sequential_all_covered : forall F C full,
  c_mask C = WATCHDOG_ALL -> c_root C <> [] -> last_is_sep (c_root C) = false ->
  forall w ops evs, Forall op_ok ops ->
    (c_recursive C = true -> c_fix_moveout C = true -> covered_hist C w ops) ->
    run_from None C full w ops = Some evs ->
    run_from F (with_mask C (kmask F (c_recursive C))) full w ops
    = Some (filter (fun e => accepts F (ev_cls e)) evs).
Proof. exact transparent_from_all_covered. Qed.
Print Assumptions C11_transparent_sequential_all_covered.

Theorem C11_handler_sequential_covered : forall F C full,
  c_mask C = WATCHDOG_ALL -> c_root C <> [] -> last_is_sep (c_root C) = false ->
  forall w ops evsU, Forall op_ok ops ->
    (c_recursive C = true -> c_fix_moveout C = true -> covered_hist C w ops) ->
    run_from None C full w ops = Some evsU ->
    exists evsF, run_from F (with_mask C (kmask F (c_recursive C))) full w ops = Some evsF /\
      forall keptU keptF, skips None evsU keptU -> skips None evsF keptF ->
        stutter_eq keptF (filter (fun e => accepts F (ev_cls e)) keptU).
Proof. exact handler_sequential_covered. Qed.
Print Assumptions C11_handler_sequential_covered.

(* C11_full of the drained semantics with paced = paced_covered: paced_drained with its tidy clause replaced by
   "repaired reader: the history is covered for the recursive configuration" *)
Theorem C11_paced_covered_def : forall h, paced_covered h <->
  (c_mask (dh_cfg h) = WATCHDOG_ALL /\ c_root (dh_cfg h) <> [] /\ last_is_sep (c_root (dh_cfg h)) = false /\
   Forall op_ok (dh_ops h) /\
   (forall full recursive, run_from None (with_rec (dh_cfg h) recursive) full (dh_world h) (dh_ops h) <> None) /\
   (c_fix_moveout (dh_cfg h) = true -> covered_hist (with_rec (dh_cfg h) true) (dh_world h) (dh_ops h))).
Proof. exact paced_covered_def. Qed.
Print Assumptions C11_paced_covered_def.

Theorem C11_full_drained_covered : C11_full dhist paced_covered events_drained.
Proof. exact full_drained_covered. Qed.
Print Assumptions C11_full_drained_covered.

(* [run_one (pc_filter P)] is what the Pipeline model delivers for AOp o; ARead (whole queue); ATick delay;
   AEmit ... from a state whose buffer is idle (C03's pipeline_tie, with the class filter kept). *)
Theorem C11_pipeline_tie_filtered : forall P s o w1 k1 r1 evs,
  buffer_idle (p_buf s) -> p_stopped s = false -> k_queue (p_k s) = [] ->
  (forall id, In id (map fst (p_tbl s)) -> (id < p_next s)%N) ->
  run_one (pc_filter P) (pc_reader P) (pc_full P) (p_world s) (p_k s) (p_r s) o = Some (w1, k1, r1, evs) ->
  exists nit s' obs, prun P s (tie_history P s o nit) [] = Done (s', obs) /\
    p_world s' = w1 /\ p_k s' = k1 /\ p_r s' = r1 /\ p_out s' = p_out s ++ evs.
Proof. exact pipeline_tie_filtered. Qed.
Print Assumptions C11_pipeline_tie_filtered.

(* Two Pipeline instances on the same world, an unfiltered watch and a watch with event filter F, idle twin
   states: after one drained operation the filtered p_out has grown by exactly the accepted part of what the
   unfiltered p_out has grown by, and the states are twins again. *)
Theorem C11_pipeline_transparent_step : forall F PU PF sU sF o,
  pc_filter PU = None -> pc_filter PF = F -> pc_full PF = pc_full PU ->
  c_mask (pc_reader PU) = WATCHDOG_ALL -> visible F (c_recursive (pc_reader PU)) ->
  pc_reader PF = with_mask (pc_reader PU) (kmask F (c_recursive (pc_reader PU))) ->
  p_world sF = p_world sU -> p_r sF = p_r sU ->
  kw0 WATCHDOG_ALL (kmask F (c_recursive (pc_reader PU))) (p_k sU) (p_k sF) ->
  buffer_idle (p_buf sU) -> buffer_idle (p_buf sF) -> p_stopped sU = false -> p_stopped sF = false ->
  (forall id, In id (map fst (p_tbl sU)) -> (id < p_next sU)%N) ->
  (forall id, In id (map fst (p_tbl sF)) -> (id < p_next sF)%N) ->
  k_queue (p_k sU) = [] -> k_queue (p_k sF) = [] ->
  regular_step F (pc_reader PU) (p_world sU) (p_k sU) (p_r sU) o ->
  forall w1 k1 r1 evs,
  run_one None (pc_reader PU) (pc_full PU) (p_world sU) (p_k sU) (p_r sU) o = Some (w1, k1, r1, evs) ->
  exists nU sU' obsU nF sF' obsF,
    prun PU sU (tie_history PU sU o nU) [] = Done (sU', obsU) /\
    prun PF sF (tie_history PF sF o nF) [] = Done (sF', obsF) /\
    p_out sU' = p_out sU ++ evs /\
    p_out sF' = p_out sF ++ filter (fun e => accepts F (ev_cls e)) evs /\
    p_world sF' = p_world sU' /\ p_r sF' = p_r sU' /\
    kw0 WATCHDOG_ALL (kmask F (c_recursive (pc_reader PU))) (p_k sU') (p_k sF').
Proof. exact pipeline_transparent_step. Qed.
Print Assumptions C11_pipeline_transparent_step.

(* The table of the pinned tree (frozen copy): the table lemma is false.  Finding F6. *)
Theorem C11_table_refuted_pinned :
  exists F recursive b, In b (needed_for F recursive) /\ flag_set b (mask_of_filter_pinned recursive F) = false.
Proof. exact table_refuted_pinned. Qed.
Print Assumptions C11_table_refuted_pinned.

(* the three reproduced faces of F6, and a fourth found by the sweep *)
Theorem C11_pinned_refuted_move_out :          (* [FileDeletedEvent]: a move out of the tree is a deletion *)
  In IN_MOVED_FROM (needed_for (Some [Concrete FileDeleted]) false) /\
  flag_set IN_MOVED_FROM (mask_of_filter_pinned false (Some [Concrete FileDeleted])) = false.
Proof. exact table_refuted_pinned_move_out. Qed.
Print Assumptions C11_pinned_refuted_move_out.

Theorem C11_pinned_refuted_new_directory :     (* recursive: a directory created later is not followed *)
  In IN_CREATE (needed_for (Some [Concrete FileDeleted]) true) /\
  flag_set IN_CREATE (mask_of_filter_pinned true (Some [Concrete FileDeleted])) = false.
Proof. exact table_refuted_pinned_new_directory. Qed.
Print Assumptions C11_pinned_refuted_new_directory.

Theorem C11_pinned_refuted_base_class :        (* a base class selects nothing but IN_DELETE_SELF *)
  In IN_MODIFY (needed_for (Some [AnyEvent]) false) /\
  flag_set IN_MODIFY (mask_of_filter_pinned false (Some [AnyEvent])) = false /\
  In IN_MOVED_TO (needed_for (Some [AnyMoved]) false) /\
  flag_set IN_MOVED_TO (mask_of_filter_pinned false (Some [AnyMoved])) = false /\
  mask_of_filter_pinned false (Some [AnyEvent]) = Some IN_DELETE_SELF.
Proof. exact table_refuted_pinned_base_class. Qed.
Print Assumptions C11_pinned_refuted_base_class.

Theorem C11_pinned_refuted_dirmodified_delete : (* [DirModifiedEvent]: deleting an entry modifies its parent *)
  In IN_DELETE (needed_for (Some [Concrete DirModified]) false) /\
  flag_set IN_DELETE (mask_of_filter_pinned false (Some [Concrete DirModified])) = false.
Proof. exact table_refuted_pinned_dirmodified_delete. Qed.
Print Assumptions C11_pinned_refuted_dirmodified_delete.

(* ------------------------------------------------------------------ non-vacuity *)
(* the filter [FileDeletedEvent] on a non-recursive watch: the mask is DELETE_SELF|MOVE|DELETE;
   an IN_MODIFY event is not delivered and indeed yields only a rejected FileModified, while an
   unpaired IN_MOVED_FROM is delivered and yields the accepted FileDeleted. *)
Example C11_nonvacuous :
  let F := Some [Concrete FileDeleted] in
  let e_mod := {| r_wd := 1; r_mask := IN_MODIFY; r_cookie := 0; r_name := [120]; r_path := probe_entry |}%N in
  let e_out := {| r_wd := 1; r_mask := IN_MOVED_FROM; r_cookie := 9; r_name := [120]; r_path := probe_entry |}%N in
  mask_of_filter false F = Some 1728%N /\
  needed_for F false = [IN_DELETE_SELF; IN_MOVED_FROM; IN_MOVED_TO; IN_DELETE] /\
  delivered 1728 (r_mask e_mod) = false /\
  map ev_cls (fst (emit false false probe_root (fun _ => probe_tree) (Single e_mod))) = [FileModified] /\
  delivered 1728 (r_mask e_out) = true /\
  map ev_cls (fst (emit_filtered F false false probe_root (fun _ => probe_tree) (Single e_out))) = [FileDeleted] /\
  map ev_cls (fst (emit false false probe_root (fun _ => probe_tree) (Single e_out))) = [FileDeleted; DirModified].
Proof. vm_compute. repeat split. Qed.

(* the stream theorem on a stream where something is dropped and something is kept *)
Example C11_stream_nonvacuous :
  let F := Some [AnyMoved] in
  let mkr m p := {| r_wd := 1; r_mask := m; r_cookie := 0; r_name := []; r_path := p |}%N in
  let rs := [mkr IN_CREATE probe_entry; mkr (N.lor IN_MOVED_TO IN_ISDIR) probe_entry2; mkr IN_OPEN probe_entry] in
  map ev_cls (flat_map (fun e => fst (emit true true probe_root (fun _ => probe_tree) (Single e))) rs)
    = [FileCreated; DirModified; DirMoved; DirModified; DirCreated; FileCreated; FileOpened] /\
  map (fun e => r_mask e) (filter (fun e => delivered (effective_mask (mask_of_filter true F)) (r_mask e)) rs)
    = [IN_CREATE; N.lor IN_MOVED_TO IN_ISDIR] /\
  map ev_cls (flat_map (fun e => fst (emit_filtered F true true probe_root (fun _ => probe_tree) (Single e)))
                (filter (fun e => delivered (effective_mask (mask_of_filter true F)) (r_mask e)) rs))
    = [DirMoved].
Proof. vm_compute. repeat split. Qed.

(* a paired directory move under a recursive watch: moved, two parents, synthetic sub-moves *)
Example C11_pair_nonvacuous :
  map (fun e => (ev_cls e, ev_synth e))
      (fst (emit false true probe_root (fun _ => probe_tree)
              (Pair (probe_raw (N.lor IN_MOVED_FROM IN_ISDIR) probe_entry)
                    (probe_raw (N.lor IN_MOVED_TO IN_ISDIR) probe_entry2))))
  = [(DirMoved, false); (DirModified, false); (DirModified, false); (DirMoved, true); (FileMoved, true)].
Proof. vm_compute. reflexivity. Qed.

(* the item-stream theorem on a stream with a pair that is kept and a pair that is dropped *)
Example C11_item_stream_nonvacuous :
  let pr := Pair (probe_raw IN_MOVED_FROM probe_entry) (probe_raw IN_MOVED_TO probe_entry2) in
  let its := [pr; Single (probe_raw IN_OPEN probe_entry)] in
  (* [FileMovedEvent]: the pair is handed over, the open is not *)
  flat_map (handed_over (effective_mask (mask_of_filter false (Some [Concrete FileMoved])))) its = [pr] /\
  map ev_cls (flat_map (fun it => fst (emit_filtered (Some [Concrete FileMoved]) false false probe_root (fun _ => probe_tree) it)) [pr])
    = [FileMoved] /\
  (* [FileOpenedEvent]: the pair is dropped as a whole *)
  flat_map (handed_over (effective_mask (mask_of_filter false (Some [Concrete FileOpened])))) its
    = [Single (probe_raw IN_OPEN probe_entry)].
Proof. vm_compute. repeat split. Qed.

(* the sequential theorem on a concrete world (ContractProofs.ex_world: /R/{d/{f,e/},x}, /O/{y,z/g}), recursive
   watch on /R, filter [FileDeletedEvent]: create, rename inside, move out, mkdir + create inside *)
Example C11_sequential_nonvacuous :
  let F := Some [Concrete FileDeleted] in
  let ops := [Touch (ex_sl ex_R 97); Rename (ex_sl ex_R 97) (ex_sl ex_Rd 98); Rename (ex_sl ex_Rd 98) (ex_sl ex_O 99);
              Mkdir (ex_sl ex_R 109); Touch (ex_sl (ex_sl ex_R 109) 110); Unlink (ex_sl (ex_sl ex_R 109) 110)] in
  c_mask (ex_C true) = WATCHDOG_ALL /\ visible F true /\
  option_map (map ev_cls) (run_from None (ex_C true) false ex_world ops)
    = Some [FileCreated; DirModified; FileOpened; FileClosed; DirModified;
            FileMoved; DirModified; DirModified; FileDeleted; DirModified;
            DirCreated; DirModified; FileCreated; DirModified; FileOpened; FileClosed; DirModified;
            FileDeleted; DirModified] /\
  option_map (map (fun e => (ev_cls e, ev_src e)))
             (run_from F (with_mask (ex_C true) (kmask F true)) false ex_world ops)
    = Some [(FileDeleted, ex_sl ex_Rd 98); (FileDeleted, ex_sl (ex_sl ex_R 109) 110)].
Proof. split; [reflexivity|]. split; [apply visible_recursive|]. vm_compute. split; reflexivity. Qed.

(* the all-filters theorem on a non-recursive watch with [FileOpenedEvent] (mask DELETE_SELF|OPEN: no IN_MOVE) *)
Example C11_sequential_flat_nonvacuous :
  let F := Some [Concrete FileOpened] in
  let ops := [Touch (ex_sl ex_R 97); Rename (ex_sl ex_R 97) (ex_sl ex_R 98); Write (ex_sl ex_R 98);
              Rename (ex_sl ex_R 98) (ex_sl ex_O 99)] in
  kmask F false = N.lor IN_DELETE_SELF IN_OPEN /\ Forall op_ok ops /\
  option_map (map ev_cls) (run_from None (ex_C false) false ex_world ops)
    = Some [FileCreated; DirModified; FileOpened; FileClosed; DirModified;
            FileMoved; DirModified; DirModified;
            FileOpened; FileModified; FileClosed; DirModified;
            FileDeleted; DirModified] /\
  option_map (map (fun e => (ev_cls e, ev_src e)))
             (run_from F (with_mask (ex_C false) (kmask F false)) false ex_world ops)
    = Some [(FileOpened, ex_sl ex_R 97); (FileOpened, ex_sl ex_R 98)].
Proof.
  split; [reflexivity|]. split; [repeat constructor|]. vm_compute. split; reflexivity.
Qed.

(* the skip relation: the second of two equal consecutive events may be dropped, a separated one may not *)
Example C11_skips_nonvacuous :
  let a := mk DirModified probe_root [] in let b := mk FileModified probe_entry [] in
  skips None [a; a; b; a] [a; b; a] /\ collapse [a; a; b; a] = [a; b; a].
Proof.
  split; [|reflexivity].
  apply sk_keep. apply sk_drop; [reflexivity|]. apply sk_keep. apply sk_keep. apply sk_nil.
Qed.

(* the hypotheses of C11_full_drained are satisfiable: the concrete world of the examples above *)
Example C11_full_drained_nonvacuous :
  paced_drained {| dh_cfg := ex_C true; dh_world := ex_world;
                   dh_ops := [Touch (ex_sl ex_R 97); Rename (ex_sl ex_R 97) (ex_sl ex_O 99); Mkdir (ex_sl ex_R 109)] |}.
Proof.
  split; [reflexivity|]. split; [discriminate|]. split; [reflexivity|]. split; [repeat constructor|]. split.
  - intros full recursive. destruct full, recursive; vm_compute; discriminate.
  - intros _ full. apply tidy_fromb_sound. destruct full; vm_compute; reflexivity.
Qed.

(* ... also with a history that lags (the one of C11_lag_instance below) *)
Example C11_full_drained_lag_nonvacuous :
  paced_drained {| dh_cfg := ex_C true; dh_world := ex_world;
                   dh_ops := [Mkdir (ex_sl ex_R 109); Rename (ex_sl ex_R 109) (ex_sl ex_O 113); Write ex_Rx;
                              Touch (ex_sl (ex_sl ex_O 113) 102); Touch (ex_sl ex_R 122); Unlink (ex_sl ex_R 122)] |}.
Proof.
  split; [reflexivity|]. split; [discriminate|]. split; [reflexivity|]. split; [repeat constructor|]. split.
  - intros full recursive. destruct full, recursive; vm_compute; discriminate.
  - intros _ full. apply tidy_fromb_sound. destruct full; vm_compute; reflexivity.
Qed.

(* REPAIRED READER (F10): a history that goes past a DIRECTORY MOVE-OUT under a recursive watch with filter
   [FileDeletedEvent, DirDeletedEvent] (mask DELETE_SELF|MOVE|CREATE|DELETE): mkdir R/m; touch R/m/f; mv R/m O/q; touch R/z; rm R/z.
   Both readers remember the candidate after the move-out and forget the directory at the next record (IN_CREATE z,
   sent to both): the run is regular (the lock-step theorem applies) and tidy (so does C11_transparent_sequential). *)
Example C11_sequential_moveout_nonvacuous :
  let F := Some [Concrete FileDeleted; Concrete DirDeleted] in
  let ops := [Mkdir (ex_sl ex_R 109); Touch (ex_sl (ex_sl ex_R 109) 102); Rename (ex_sl ex_R 109) (ex_sl ex_O 113);
              Touch (ex_sl ex_R 122); Unlink (ex_sl ex_R 122)] in
  regular_from F (ex_C true) false ex_world ops /\ tidy_from (ex_C true) false ex_world ops /\
  option_map (map (fun e => (ev_cls e, ev_src e)))
             (run_from F (with_mask (ex_C true) (kmask F true)) false ex_world ops)
    = Some [(DirDeleted, ex_sl ex_R 109); (FileDeleted, ex_sl ex_R 122)].
Proof.
  split; [apply regular_fromb_sound; vm_compute; reflexivity|].
  split; [apply tidy_fromb_sound; vm_compute; reflexivity | vm_compute; reflexivity].
Qed.

(* ... and a history that is NOT regular: after the move-out the next operation (append to R/x) queues only records the
   filter's mask excludes, so the unfiltered reader forgets R/m one operation before the filtered reader does (at the
   IN_CREATE of the touch).  The lock-step theorem does not apply; the conclusion holds (here by computation): the lag
   has no visible effect. *)
Example C11_lag_instance :
  let F := Some [Concrete FileDeleted; Concrete DirDeleted] in
  let ops := [Mkdir (ex_sl ex_R 109); Rename (ex_sl ex_R 109) (ex_sl ex_O 113); Write ex_Rx;
              Touch (ex_sl (ex_sl ex_O 113) 102); Touch (ex_sl ex_R 122); Unlink (ex_sl ex_R 122)] in
  regular_fromb F (ex_C true) false ex_world ops = false /\
  run_from F (with_mask (ex_C true) (kmask F true)) false ex_world ops
  = option_map (filter (fun e => accepts F (ev_cls e))) (run_from None (ex_C true) false ex_world ops).
Proof. split; vm_compute; reflexivity. Qed.

(* The same history is covered by C11_transparent_sequential: its hypotheses hold (the run is tidy at every drained
   point although it is not regular), and the events are the two deletions. *)
Example C11_lag_covered :
  let F := Some [Concrete FileDeleted; Concrete DirDeleted] in
  let ops := [Mkdir (ex_sl ex_R 109); Rename (ex_sl ex_R 109) (ex_sl ex_O 113); Write ex_Rx;
              Touch (ex_sl (ex_sl ex_O 113) 102); Touch (ex_sl ex_R 122); Unlink (ex_sl ex_R 122)] in
  c_mask (ex_C true) = WATCHDOG_ALL /\ visible F (c_recursive (ex_C true)) /\ c_fix_moveout (ex_C true) = true /\
  tidy_from (ex_C true) false ex_world ops /\
  regular_fromb F (ex_C true) false ex_world ops = false /\
  option_map (map (fun e => (ev_cls e, ev_src e)))
             (run_from F (with_mask (ex_C true) (kmask F true)) false ex_world ops)
    = Some [(DirDeleted, ex_sl ex_R 109); (FileDeleted, ex_sl ex_R 122)].
Proof.
  split; [reflexivity|]. split; [apply visible_recursive|]. split; [reflexivity|].
  split; [apply tidy_fromb_sound; vm_compute; reflexivity|]. split; vm_compute; reflexivity.
Qed.

(* A COVERED HISTORY THAT LAGS (C11CoverProofs.lag_ops on CoverProofs.w0, recursive watch of /s/R, current code): mkdir R/b;
   touch R/f; mv R/b O/x; write R/f; mkdir R/b; rmdir R/b.  It satisfies covered_hist (a proof from C02's operation
   classes, not a computation), it is NOT regular for the filter [FileDeletedEvent, DirDeletedEvent] (the write after the
   move-out queues IN_MODIFY/IN_OPEN/IN_CLOSE only, which that filter's mask excludes), it satisfies paced_covered, and the
   filtered watch queues the two DirDeleted(R/b). *)
Example C11_covered_lag_nonvacuous :
  let F := Some [Concrete FileDeleted; Concrete DirDeleted] in
  let C := CoverOutProofs.cfgo true in
  covered_hist C CoverProofs.w0 lag_ops /\
  paced_covered {| dh_cfg := C; dh_world := CoverProofs.w0; dh_ops := lag_ops |} /\
  c_mask C = WATCHDOG_ALL /\ visible F (c_recursive C) /\ c_fix_moveout C = true /\
  regular_fromb F C false CoverProofs.w0 lag_ops = false /\
  option_map (map (fun e => (ev_cls e, ev_src e))) (run_from F (with_mask C (kmask F true)) false CoverProofs.w0 lag_ops)
    = Some [(DirDeleted, CoverProofs.sub CoverProofs.pR 98); (DirDeleted, CoverProofs.sub CoverProofs.pR 98)].
Proof.
  split; [exact lag_covered|]. split; [exact lag_paced_covered|]. split; [reflexivity|]. split; [apply visible_recursive|].
  split; [reflexivity|]. split; vm_compute; reflexivity.
Qed.
