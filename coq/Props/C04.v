Require Import WD.Base.Prelude WD.Model.Observer.
