(* C03 - the per-operation contract and the justification predicate, written from the property text
   (properties.jsonl "C03") and mirroring harness/pipeprops.py `contract` / `justified` and
   harness/props/c03.py.  Also: what the reader + buffer + emitter deliver for ONE operation issued
   alone ([deliver_one]) and the history-level soundness check over the Pipeline model ([sound_along]).
   Definitions only. *)
Require Import WD.Base.Prelude WD.Base.BStr WD.Model.SubEvents WD.Model.Emitter WD.Model.Fs WD.Model.Reader
               WD.Model.DelayQueue WD.Model.Grouping WD.Model.Pipeline.

(* ------------------------------------------------------------------ scope *)
(* pipeprops.in_scope: under the root, and for a non-recursive watch a direct child of the root *)
Definition in_scope (recursive : bool) (root p : bytes) : bool :=
  under root p && (recursive || is_child root p).

(* the directories whose changes the watch reports: the root, and with a recursive watch everything below it *)
Definition watched_dir (recursive : bool) (root d : bytes) : bool :=
  beqb d root || (recursive && under root d).

(* ------------------------------------------------------------------ contract *)
Definition kdir (k : kind) : bool := match k with KDir => true | KFile => false end.

(* one synthetic moved event per descendant [rel] of the moved directory, in os.walk order:
   src = p/rel, dest = q/rel, flavour = the descendant's kind *)
Definition synth_moved (p q : bytes) (t : tree) : list nevent :=
  map (fun d : kind * list bytes =>
         {| ev_cls := moved_cls (kdir (fst d)); ev_src := p ++ relsuffix (snd d);
            ev_dest := q ++ relsuffix (snd d); ev_synth := true |}) (desc [] t).

(* one synthetic created event per descendant of the arrived directory *)
Definition synth_created (q : bytes) (t : tree) : list nevent :=
  map (fun d : kind * list bytes =>
         {| ev_cls := created_cls (kdir (fst d)); ev_src := q ++ relsuffix (snd d);
            ev_dest := []; ev_synth := true |}) (desc [] t).

(* What ONE operation issued alone must deliver; [t] is the tree BEFORE the operation.
   Compared after [Emitter.collapse] (adjacent identical events are coalesced by the event queue). *)
Definition contract (recursive full_events : bool) (root : bytes) (t : fs) (o : op) : list nevent :=
  let ins := in_scope recursive root in
  match o with
  | Touch p =>
    if ins p then [mk FileCreated p []; parent_modified p; mk FileOpened p []; mk FileClosed p [];
                   parent_modified p] else []
  | Write p =>
    if ins p then [mk FileOpened p []; mk FileModified p []; mk FileClosed p []; parent_modified p] else []
  | Chmod p =>
    (* a watched directory is notified through its parent's watch and through its own watch: two identical
       events, equal to this after collapsing *)
    if ins p then [mk (modified_cls (fisdir p t)) p []] else []
  | Unlink p => if ins p then [mk FileDeleted p []; parent_modified p] else []
  | Mkdir p => if ins p then [mk DirCreated p []; parent_modified p] else []
  | Rmdir p => if ins p then [mk DirDeleted p []; parent_modified p] else []
  | Rename p q =>
    let d := fisdir p t in
    let deep := recursive && d in
    let sub := content t p in                 (* the descendants, as os.walk(p) sees them before the rename *)
    (* a directory replaced by the rename: the kernel's IN_ATTRIB on the victim (it has a watch only in a
       recursive watch) is reported as DirModified(q) *)
    let victim := if d && fisdir q t && recursive then [mk DirModified q []] else [] in
    if ins p && ins q then
      mk (moved_cls d) p q :: parent_modified p :: parent_modified q
         :: (if deep then synth_moved p q sub else []) ++ victim
    else if ins p then
      [if full_events then mk (moved_cls d) p [] else mk (deleted_cls d) p []; parent_modified p]
    else if ins q then
      (if full_events then mk (moved_cls d) [] q else mk (created_cls d) q []) :: parent_modified q
         :: (if deep then synth_created q sub else []) ++ victim
    else []
  end.

(* ------------------------------------------------------------------ delivery of one operation *)
(* `_group_events` when the whole burst arrives in one read and the delay queue holds no older MOVED_FROM:
   a MOVED_TO joins the first still single MOVED_FROM of the same cookie in the batch. *)
Definition is_from_raw (C : cfg) (c : N) (it : Emitter.item) : bool :=
  match it with
  | Single f => match nkind_of C f with KFrom c' => N.eqb c c' | _ => false end
  | Pair _ _ => false
  end.

Fixpoint pair_in_batch (C : cfg) (c : N) (t : raw) (g : list Emitter.item) : option (list Emitter.item) :=
  match g with
  | [] => None
  | it :: g' =>
    if is_from_raw C c it then
      match it with Single f => Some (Pair f t :: g') | Pair _ _ => None end
    else match pair_in_batch C c t g' with Some g'' => Some (it :: g'') | None => None end
  end.

Fixpoint group_go (C : cfg) (b : list raw) (g : list Emitter.item) : list Emitter.item :=
  match b with
  | [] => g
  | e :: rest =>
    match nkind_of C e with
    | KTo c => match pair_in_batch C c e g with
               | Some g' => group_go C rest g'
               | None => group_go C rest (g ++ [Single e])
               end
    | _ => group_go C rest (g ++ [Single e])
    end
  end.

(* InotifyBuffer.run: IN_IGNORED is not put into the queue *)
Definition put_item (C : cfg) (it : Emitter.item) : bool :=
  match it with
  | Single e => match nkind_of C e with KIgnored _ => false | _ => true end
  | Pair _ _ => true
  end.

Definition group_batch (C : cfg) (b : list raw) : list Emitter.item := filter (put_item C) (group_go C b []).

(* queue_events on every item in order; nothing is emitted after self.stop() *)
Fixpoint emit_all (full_events recursive : bool) (root : bytes) (ct : bytes -> tree) (its : list Emitter.item)
  : list nevent :=
  match its with
  | [] => []
  | it :: rest =>
    let '(evs, stop) := emit full_events recursive root ct it in
    evs ++ (if stop then [] else emit_all full_events recursive root ct rest)
  end.

Definition kdrained (k : kst) : kst :=
  {| k_watches := k_watches k; k_next_wd := k_next_wd k; k_queue := []; k_next_cookie := k_next_cookie k |}.

(* apply the operation, let the kernel queue its events, let the reader consume the whole queue in one batch,
   group, emit.  None: the system call fails / the reader crashes. *)
Definition deliver_one (C : cfg) (full_events : bool) (w : world) (k : kst) (r : rstate) (o : op)
  : option (list nevent) :=
  match apply_op w o with
  | None => None
  | Some w' =>
    let k1 := kernel_op k (w_fs w) o in
    match read_batch C (w_fs w') (r, kdrained k1, []) (k_queue k1) with
    | Crash _ => None
    | Done (_, _, evs) =>
      Some (emit_all full_events (c_recursive C) (c_root C) (content (w_fs w')) (group_batch C evs))
    end
  end.

(* The watch bookkeeping covers directory [d]: if the watch reports changes in [d] then the inode of [d] has a
   kernel watch with the full mask whose descriptor maps to the path [d] in _path_for_wd and back in
   _wd_for_path; otherwise [d] has no kernel watch (non-recursive watch: only the root is watched). *)
Definition cover (C : cfg) (r : rstate) (k : kst) (t : fs) (d : bytes) : Prop :=
  if watched_dir (c_recursive C) (c_root C) d
  then exists w, watch_of_ino k (ino_of t d) = Some w /\ kw_mask w = WATCHDOG_ALL /\
                 alookup N.eqb (kw_wd w) (pfw r) = Some d /\ alookup beqb d (wfp r) = Some (kw_wd w)
  else watch_of_ino k (ino_of t d) = None.

(* a path is a parent path not ending in "/" followed by "/" and a valid file name; every entry of a
   well-formed tree has such a path *)
Definition wf_path (y : bytes) : Prop :=
  exists d n, y = d ++ sep :: n /\ last_is_sep d = false /\ valid_name n = true.

(* executable version: split at the last "/" *)
Definition path_dir (y : bytes) : bytes := rev (tl (drop_to_sep_rev (rev y))).
Definition wf_pathb (y : bytes) : bool :=
  beqb y (path_dir y ++ sep :: basename y) && negb (last_is_sep (path_dir y)) && valid_name (basename y).

(* ------------------------------------------------------------------ justification (pipeprops.justified) *)
(* what the oracle records about an executed operation, captured before it runs *)
Record oprec := {
  o_op : op;
  o_wasdir : bool;                         (* os.path.isdir(p) *)
  o_desc : list (bytes * bool);            (* (relative suffix "/a/b", isdir) of every descendant of p *)
  o_replaced : bool;                       (* q existed *)
  o_replaced_dir : bool                    (* q was a directory *)
}.

Definition op_p (o : op) : bytes :=
  match o with Touch p | Write p | Chmod p | Unlink p | Mkdir p | Rmdir p | Rename p _ => p end.
Definition op_q (o : op) : option bytes := match o with Rename _ q => Some q | _ => None end.

Definition oprec_of (t : fs) (o : op) : oprec :=
  let p := op_p o in
  {| o_op := o;
     o_wasdir := fisdir p t;
     o_desc := match o with
               | Rename _ _ => if fisdir p t
                               then map (fun d : kind * list bytes => (relsuffix (snd d), kdir (fst d)))
                                        (desc [] (content t p))
                               else []
               | _ => []
               end;
     o_replaced := match op_q o with Some q => fexists q t | None => false end;
     o_replaced_dir := match op_q o with Some q => fisdir q t | None => false end |}.

Inductive evwhat := WCreated | WDeleted | WModified | WMoved | WOpened | WClosed | WClosedNoWrite.

Definition what_of (c : evclass) : evwhat * bool (* isdir *) :=
  match c with
  | FileCreated => (WCreated, false) | FileDeleted => (WDeleted, false) | FileModified => (WModified, false)
  | FileMoved => (WMoved, false) | FileClosed => (WClosed, false) | FileClosedNoWrite => (WClosedNoWrite, false)
  | FileOpened => (WOpened, false)
  | DirCreated => (WCreated, true) | DirDeleted => (WDeleted, true) | DirModified => (WModified, true)
  | DirMoved => (WMoved, true)
  end.

Definition is_nil (b : bytes) : bool := match b with [] => true | _ => false end.

(* Is the delivered event explained by the operations executed so far? *)
Definition justified (recursive : bool) (root : bytes) (ops : list oprec) (e : nevent) : bool :=
  let '(what, isdir) := what_of (ev_cls e) in
  let src := ev_src e in let dest := ev_dest e in let synth := ev_synth e in
  let scope_ok x := is_nil x || beqb x root || in_scope recursive root x in
  scope_ok src && scope_ok dest &&
  match what, isdir with
  | WModified, true =>
    (* a directory whose entries changed, or whose own metadata changed *)
    existsb (fun o =>
      match o_op o with
      | Chmod p => beqb p src
      | Rename p q => beqb (dirname p) src || beqb (dirname q) src ||
                      (beqb q src && o_replaced o && o_replaced_dir o)   (* the replaced directory: its IN_ATTRIB *)
      | other => beqb (dirname (op_p other)) src
      end) ops
  | _, _ =>
    existsb (fun o =>
      let wd := o_wasdir o in
      match what with
      | WCreated =>
        match o_op o with
        | Touch p => beqb p src && negb isdir                      (* also a create simulated by the reader's walk *)
        | Mkdir p => beqb p src && isdir
        | Rename p q =>
          (negb synth && beqb q src && Bool.eqb wd isdir) ||
          (synth && wd && existsb (fun sd => beqb (q ++ fst sd) src && Bool.eqb (snd sd) isdir) (o_desc o))
        | _ => false
        end
      | WDeleted =>
        negb synth &&
        match o_op o with
        | Unlink p => beqb p src && negb isdir
        | Rmdir p => beqb p src && isdir
        | Rename p q => (beqb p src && Bool.eqb wd isdir) ||
                        (beqb q src && o_replaced o && Bool.eqb (o_replaced_dir o) isdir)
        | _ => false
        end
      | WMoved =>
        match o_op o with
        | Rename p q =>
          (negb synth && Bool.eqb wd isdir &&
             ((beqb p src && beqb q dest) || (is_nil src && beqb q dest) || (beqb p src && is_nil dest))) ||
          (synth && wd && existsb (fun sd => beqb (p ++ fst sd) src && beqb (q ++ fst sd) dest &&
                                             Bool.eqb (snd sd) isdir) (o_desc o))
        | _ => false
        end
      | WModified =>
        match o_op o with
        | Write p | Chmod p => beqb p src && negb isdir && negb synth
        | _ => false
        end
      | WOpened | WClosed | WClosedNoWrite =>
        match o_op o with
        | Touch p | Write p => beqb p src && negb synth
        | _ => false
        end
      end) ops
  end.

(* Run a history on the Pipeline model; every event queued by an AEmit must be justified by the operations
   that succeeded before it. *)
Fixpoint sound_along (P : pcfg) (s : pstate) (ops : list oprec) (h : list action) : bool :=
  match h with
  | [] => true
  | a :: h' =>
    match pstep P s a with
    | Crash _ => true
    | Done (s', ob) =>
      let ops' := match a with
                  | AOp o => match apply_op (p_world s) o with
                             | Some _ => ops ++ [oprec_of (w_fs (p_world s)) o]
                             | None => ops
                             end
                  | _ => ops
                  end in
      match ob with
      | OEvents evs => forallb (justified (c_recursive (pc_reader P)) (c_root (pc_reader P)) ops') evs
      | _ => true
      end && sound_along P s' ops' h'
    end
  end.

(* ------------------------------------------------------------------ a directory that has left the tree (repair of F10) *)
(* [q] is the directory [p] or lies below it *)
Definition tgt (p q : bytes) : bool := beqb q p || starts (p ++ [sep]) q.

(* the kernel still has a watch with this descriptor *)
Definition has_wd (k : kst) (wd : N) : bool := existsb (fun x => N.eqb (kw_wd x) wd) (k_watches k).

(* _path_for_wd and _wd_for_path agree: a descriptor's path is keyed back to the descriptor *)
Definition consistent (r : rstate) : Prop :=
  forall wd q, alookup N.eqb wd (pfw r) = Some q -> alookup beqb q (wfp r) = Some wd.

(* recorded paths are normalised: not empty, no trailing "/" *)
Definition pfw_norm (r : rstate) : Prop :=
  forall wd q, alookup N.eqb wd (pfw r) = Some q -> q <> [] /\ last_is_sep q = false.

(* no descriptor is recorded with the path [p] or a path below it (and recorded paths are normalised) *)
Definition clean (p : bytes) (r : rstate) : Prop :=
  forall wd q, alookup N.eqb wd (pfw r) = Some q -> tgt p q = false /\ q <> [] /\ last_is_sep q = false.

Definition name_ok (n : bytes) : Prop := n = [] \/ valid_name n = true.

(* records that cannot (re-)introduce a name: everything except IN_MOVED_TO and IN_CREATE|IN_ISDIR *)
Definition quiet (e : kraw) : Prop :=
  name_ok (k_name e) /\ is_moved_to (k_mask e) = false /\ is_directory (k_mask e) && is_create (k_mask e) = false.

(* a record that is quiet, or arrives on a descriptor that state [r0] does not know (it is dropped) *)
Definition quiet_or_unknown (r0 : rstate) (e : kraw) : Prop :=
  quiet e \/ alookup N.eqb (k_wd e) (pfw r0) = None.
