(* LTS model of watchdog.observers.api: BaseObserver (registry + observer lock), the dispatcher
   thread (EventDispatcher.run / BaseObserver.dispatch_events), emitter threads (EventEmitter.run)
   and API-calling threads.  Definitions only.

   Granularity.  Every thread owns a continuation: a list of micro-instructions.  One model step of a
   thread = one instruction, followed by the *silent* instructions behind it (registry mutations that
   happen in the same scheduler-atomic section, i.e. before the thread reaches its next
   synchronisation primitive).  The cut points are: observer lock acquire / release, emitter.start,
   emitter.stop (flag set), emitter.join, the dispatcher's flag check / queue get / each handler turn /
   task_done, the stop marker put, thread start and exit, call and return.
   The ghost log [glog] records, newest first, what an external observer sees at these points; the
   harness produces the same vocabulary from the real code, so the correspondence is lock-step.

   Modelling decisions (named again in harness/props/c0{4,5,6}.py):
   - the queue mutex is not modelled: queue.Queue never keeps it across a blocking point, so a put/get
     is one atomic step; the event queue is unbounded, a put never blocks;
   - SkipRepeatsQueue: a put may be dropped only when the item equals the last queued item (C16 owns
     the queue itself);
   - a callback is a list of API calls made by the dispatcher thread (label-supplied); an exception
     raised by such a call is caught by the callback (this is what the harness's handlers do);
   - handler-set iteration order: the label picks any handler of the snapshot that has not had its
     turn; emitter-set iteration order: supplied by the label, must be a permutation of the set;
   - `for e in self._emitters` raises RuntimeError when the set changed size (start()'s failure path
     mutates it without the lock): modelled by IIterChk. *)
Require Import WD.Base.Prelude.

Definition watch := N.
Definition handler := N.
Definition event := N.
Definition emid := nat.

Inductive tid := TD | TA (n : N).
Definition tid_eqb (a b : tid) : bool :=
  match a, b with TD, TD => true | TA x, TA y => N.eqb x y | _, _ => false end.

Inductive call :=
| CSchedule (h : handler) (w : watch) | CUnschedule (w : watch)
| CAdd (h : handler) (w : watch) | CRemove (h : handler) (w : watch)
| CUnscheduleAll | CStart | CStop | CJoin.

Inductive qitem := QEv (e : event) (w : watch) | QStop.
Definition qitem_eqb (a b : qitem) : bool :=
  match a, b with
  | QStop, QStop => true
  | QEv e w, QEv e' w' => N.eqb e e' && N.eqb w w'
  | _, _ => false
  end.

Inductive instr :=
| ICall (c : call)            (* a callback begins an API call *)
| IAcq | IRel
| ISched (h : handler) (w : watch)
| IEmStartS (e : emid)        (* emitter.start() inside schedule() *)
| IYield                      (* Thread.start returns after the new thread exists *)
| IRegEm (e : emid)
| IAddHW (h : handler) (w : watch)
| IAddH (h : handler) (w : watch)
| IRemH (h : handler) (w : watch)
| IUnsched (w : watch)
| IEmStop (e : emid)
| IEmJoin (e : emid)
| IDelWatch (w : watch)
| IClear
| IIterChk (n : nat)
| IClearEm
| IStartCopy
| IStartEm (e : emid)
| IFailStart (e : emid)
| IStartDisp
| ISetStop
| IMarker                     (* SkipRepeatsQueue.put reads _last_item before it takes the queue mutex *)
| IMarkerPut
| IJoinDisp
| IRet (c : call) | IRetX (c : call)
| DCheck | DExitI | DGet | DSnap | DTurns | DTaskDone.

(* the ghost / observation log *)
Inductive gev :=
| GCall (t : tid) (c : call) | GRet (t : tid) (c : call) (raised : bool)
| GAcq (t : tid) | GRel (t : tid)
| GOrd (t : tid) (order : list emid)
| GEmNew (e : emid) (w : watch)
| GEmStart (t : tid) (e : emid) (already : bool)
| GEmStop (t : tid) (e : emid)
| GEmJoin (t : tid) (e : emid) (ok : bool)
| GDSetFlag (t : tid) | GDStart (t : tid) (already : bool) | GPutM (t : tid)
| GECheck (e : emid) (keep : bool) | GPut (e : emid) (w : watch) (ev : event)
| GPutSkip (e : emid) (w : watch) (ev : event) | GEExit (e : emid)
| GDCheck (keep : bool) | GDExit | GGet (q : qitem)
| GTurn (h : handler) | GCb (h : handler) (w : watch) (ev : event)
| GTaskDone
| GAdded (h : handler) (w : watch)       (* registry mutation: (h,w) registered *)
| GRemoved (h : handler) (w : watch)     (* registry mutation: (h,w) removed *)
| GRemovedW (w : watch)                  (* ... every handler of w removed *)
| GRemovedAll                            (* ... every handler removed *)
| GSnap (w : watch) (hs : list handler)  (* the dispatcher copied the handler set of w *)
| GMarkerRead (t : tid) (skip : bool)
| GUnsched (t : tid) (w : watch) (e : emid).   (* unschedule(w) by t took emitter e out of the registry *)   (* stop(): the unlocked read of _last_item; skip = the marker is not put *)

Inductive epc := ENew | ECheckPc | EPutPc | EExiting | EExited.

Record em := { ew : watch; epcs : epc; estop : bool }.

Record state := {
  handlers : list (watch * list handler);
  watches : list watch;
  emitters : list emid;
  efw : list (watch * emid);
  ems : list em;                         (* every emitter ever constructed; emid = index *)
  queue : list qitem;
  lock : option (tid * nat);
  dstarted : bool; dstop : bool; dexited : bool;
  dcur : option (event * watch);
  dtodo : list handler;
  dcont : list instr;
  aconts : list (N * list instr);
  glog : list gev;
  fixed : bool;    (* true: start() holds the observer lock and refuses a second start (repair F16) *)
  qlast : option qitem   (* SkipRepeatsQueue._last_item: the last item put, None once that very object was got *)
}.

Definition init_of (fx : bool) : state :=
  {| handlers := []; watches := []; emitters := []; efw := []; ems := []; queue := []; lock := None;
     dstarted := false; dstop := false; dexited := false; dcur := None; dtodo := []; dcont := [];
     aconts := []; glog := []; fixed := fx; qlast := None |}.
(* THE model: start() holds the observer lock (repair F16).  init_of false = the pinned start(). *)
Definition init : state := init_of true.

(* ---- field updates *)
Definition set_handlers v s := {| handlers := v; watches := watches s; emitters := emitters s; efw := efw s; ems := ems s; queue := queue s; lock := lock s; dstarted := dstarted s; dstop := dstop s; dexited := dexited s; dcur := dcur s; dtodo := dtodo s; dcont := dcont s; aconts := aconts s; glog := glog s; fixed := fixed s; qlast := qlast s |}.
Definition set_watches v s := {| handlers := handlers s; watches := v; emitters := emitters s; efw := efw s; ems := ems s; queue := queue s; lock := lock s; dstarted := dstarted s; dstop := dstop s; dexited := dexited s; dcur := dcur s; dtodo := dtodo s; dcont := dcont s; aconts := aconts s; glog := glog s; fixed := fixed s; qlast := qlast s |}.
Definition set_emitters v s := {| handlers := handlers s; watches := watches s; emitters := v; efw := efw s; ems := ems s; queue := queue s; lock := lock s; dstarted := dstarted s; dstop := dstop s; dexited := dexited s; dcur := dcur s; dtodo := dtodo s; dcont := dcont s; aconts := aconts s; glog := glog s; fixed := fixed s; qlast := qlast s |}.
Definition set_efw v s := {| handlers := handlers s; watches := watches s; emitters := emitters s; efw := v; ems := ems s; queue := queue s; lock := lock s; dstarted := dstarted s; dstop := dstop s; dexited := dexited s; dcur := dcur s; dtodo := dtodo s; dcont := dcont s; aconts := aconts s; glog := glog s; fixed := fixed s; qlast := qlast s |}.
Definition set_ems v s := {| handlers := handlers s; watches := watches s; emitters := emitters s; efw := efw s; ems := v; queue := queue s; lock := lock s; dstarted := dstarted s; dstop := dstop s; dexited := dexited s; dcur := dcur s; dtodo := dtodo s; dcont := dcont s; aconts := aconts s; glog := glog s; fixed := fixed s; qlast := qlast s |}.
Definition set_queue v s := {| handlers := handlers s; watches := watches s; emitters := emitters s; efw := efw s; ems := ems s; queue := v; lock := lock s; dstarted := dstarted s; dstop := dstop s; dexited := dexited s; dcur := dcur s; dtodo := dtodo s; dcont := dcont s; aconts := aconts s; glog := glog s; fixed := fixed s; qlast := qlast s |}.
Definition set_lock v s := {| handlers := handlers s; watches := watches s; emitters := emitters s; efw := efw s; ems := ems s; queue := queue s; lock := v; dstarted := dstarted s; dstop := dstop s; dexited := dexited s; dcur := dcur s; dtodo := dtodo s; dcont := dcont s; aconts := aconts s; glog := glog s; fixed := fixed s; qlast := qlast s |}.
Definition set_dstarted v s := {| handlers := handlers s; watches := watches s; emitters := emitters s; efw := efw s; ems := ems s; queue := queue s; lock := lock s; dstarted := v; dstop := dstop s; dexited := dexited s; dcur := dcur s; dtodo := dtodo s; dcont := dcont s; aconts := aconts s; glog := glog s; fixed := fixed s; qlast := qlast s |}.
Definition set_dstop v s := {| handlers := handlers s; watches := watches s; emitters := emitters s; efw := efw s; ems := ems s; queue := queue s; lock := lock s; dstarted := dstarted s; dstop := v; dexited := dexited s; dcur := dcur s; dtodo := dtodo s; dcont := dcont s; aconts := aconts s; glog := glog s; fixed := fixed s; qlast := qlast s |}.
Definition set_dexited v s := {| handlers := handlers s; watches := watches s; emitters := emitters s; efw := efw s; ems := ems s; queue := queue s; lock := lock s; dstarted := dstarted s; dstop := dstop s; dexited := v; dcur := dcur s; dtodo := dtodo s; dcont := dcont s; aconts := aconts s; glog := glog s; fixed := fixed s; qlast := qlast s |}.
Definition set_dcur v s := {| handlers := handlers s; watches := watches s; emitters := emitters s; efw := efw s; ems := ems s; queue := queue s; lock := lock s; dstarted := dstarted s; dstop := dstop s; dexited := dexited s; dcur := v; dtodo := dtodo s; dcont := dcont s; aconts := aconts s; glog := glog s; fixed := fixed s; qlast := qlast s |}.
Definition set_dtodo v s := {| handlers := handlers s; watches := watches s; emitters := emitters s; efw := efw s; ems := ems s; queue := queue s; lock := lock s; dstarted := dstarted s; dstop := dstop s; dexited := dexited s; dcur := dcur s; dtodo := v; dcont := dcont s; aconts := aconts s; glog := glog s; fixed := fixed s; qlast := qlast s |}.
Definition set_dcont v s := {| handlers := handlers s; watches := watches s; emitters := emitters s; efw := efw s; ems := ems s; queue := queue s; lock := lock s; dstarted := dstarted s; dstop := dstop s; dexited := dexited s; dcur := dcur s; dtodo := dtodo s; dcont := v; aconts := aconts s; glog := glog s; fixed := fixed s; qlast := qlast s |}.
Definition set_aconts v s := {| handlers := handlers s; watches := watches s; emitters := emitters s; efw := efw s; ems := ems s; queue := queue s; lock := lock s; dstarted := dstarted s; dstop := dstop s; dexited := dexited s; dcur := dcur s; dtodo := dtodo s; dcont := dcont s; aconts := v; glog := glog s; fixed := fixed s; qlast := qlast s |}.
Definition set_glog v s := {| handlers := handlers s; watches := watches s; emitters := emitters s; efw := efw s; ems := ems s; queue := queue s; lock := lock s; dstarted := dstarted s; dstop := dstop s; dexited := dexited s; dcur := dcur s; dtodo := dtodo s; dcont := dcont s; aconts := aconts s; glog := v; fixed := fixed s; qlast := qlast s |}.
Definition set_qlast v s := {| handlers := handlers s; watches := watches s; emitters := emitters s; efw := efw s; ems := ems s; queue := queue s; lock := lock s; dstarted := dstarted s; dstop := dstop s; dexited := dexited s; dcur := dcur s; dtodo := dtodo s; dcont := dcont s; aconts := aconts s; glog := glog s; fixed := fixed s; qlast := v |}.

Definition say (g : gev) (s : state) : state := set_glog (g :: glog s) s.

(* ---- sets as lists *)
Definition memN (x : N) (l : list N) : bool := existsb (N.eqb x) l.
Definition addN (x : N) (l : list N) : list N := if memN x l then l else l ++ [x].
Definition remN (x : N) (l : list N) : list N := filter (fun y => negb (N.eqb x y)) l.
Definition memE (x : emid) (l : list emid) : bool := existsb (Nat.eqb x) l.
Definition remE (x : emid) (l : list emid) : list emid := filter (fun y => negb (Nat.eqb x y)) l.
Fixpoint nodupE (l : list emid) : bool :=
  match l with [] => true | x :: l' => negb (memE x l') && nodupE l' end.
Definition perm_ok (a b : list emid) : bool :=
  Nat.eqb (length a) (length b) && forallb (fun x => memE x b) a && nodupE a.

(* defaultdict(set): lookup creates the key *)
Definition hauto (w : watch) (hs : list (watch * list handler)) : list (watch * list handler) :=
  if amem N.eqb w hs then hs else hs ++ [(w, [])].
Definition hset (w : watch) (hs : list (watch * list handler)) : list handler :=
  match alookup N.eqb w hs with Some l => l | None => [] end.

Definition cont (s : state) (t : tid) : list instr :=
  match t with
  | TD => dcont s
  | TA n => match alookup N.eqb n (aconts s) with Some k => k | None => [] end
  end.
Definition set_cont (t : tid) (k : list instr) (s : state) : state :=
  match t with
  | TD => set_dcont k s
  | TA n => set_aconts (aset N.eqb n k (aconts s)) s
  end.

Definition alive (s : state) : bool := dstarted s && negb (dexited s).

Definition get_em (s : state) (e : emid) : option em := nth_error (ems s) e.
Fixpoint upd_nth {A} (n : nat) (f : A -> A) (l : list A) : list A :=
  match l, n with
  | [], _ => []
  | x :: l', O => f x :: l'
  | x :: l', S n' => x :: upd_nth n' f l'
  end.
Definition upd_em (e : emid) (f : em -> em) (s : state) : state := set_ems (upd_nth e f (ems s)) s.
Definition em_started (m : em) : bool := match epcs m with ENew => false | _ => true end.
Definition em_exited (m : em) : bool := match epcs m with EExited => true | _ => false end.

Definition body (fx : bool) (c : call) : list instr :=
  match c with
  | CSchedule h w => [IAcq; ISched h w; IRel; IRet c]
  | CUnschedule w => [IAcq; IUnsched w; IRel; IRet c]
  | CAdd h w => [IAcq; IAddH h w; IRel; IRet c]
  | CRemove h w => [IAcq; IRemH h w; IRel; IRet c]
  | CUnscheduleAll => [IAcq; IClear; IRel; IRet c]
  | CStart => if fx then [IAcq; IStartCopy; IRel; IRet c] else [IStartCopy; IRet c]
  | CStop => [ISetStop; IAcq; IClear; IRel; IMarker; IRet c]
  | CJoin => [IJoinDisp; IRet c]
  end.

(* an exception propagates to the end of the call: every `with self._lock` on the way is left *)
Fixpoint unwind (k : list instr) : list instr :=
  match k with
  | [] => []
  | IRet c :: k' => IRetX c :: k'
  | IRel :: k' => IRel :: unwind k'
  | _ :: k' => unwind k'
  end.

Definition last_is (q : list qitem) (x : qitem) : bool :=
  match rev q with y :: _ => qitem_eqb x y | [] => false end.

(* _last_item compared with an item about to be put (SkipRepeatsQueue.put, before the queue mutex is taken) *)
Definition qlast_is (s : state) (x : qitem) : bool :=
  match qlast s with Some y => qitem_eqb x y | None => false end.

(* SkipRepeatsQueue._get: `if item is self._last_item: self._last_item = None` - an identity test.  Event
   items are fresh tuples, so the test succeeds only for the last item of the queue (the queue is empty
   afterwards); the stop marker is one shared object, so getting ANY queued marker resets _last_item when the
   last item put was a marker (even if another marker is still queued). *)
Definition qlast_after_get (x : qitem) (q' : list qitem) (l : option qitem) : option qitem :=
  match x with
  | QStop => match l with Some QStop => None | _ => l end
  | QEv _ _ => match q' with [] => None | _ => l end
  end.

(* environment input of a step *)
Inductive input := NoIn | InOrd (order : list emid) | InTurn (h : handler) (calls : list call).

(* Execute the head instruction [i] of thread [t]; [k] is the rest of its continuation.
   None = not enabled (blocked, or the input does not fit). *)
Definition exec (s : state) (t : tid) (i : instr) (k : list instr) (inp : input) : option state :=
  let go k' s' := Some (set_cont t k' s') in
  let raise := go (unwind k) in
  match i with
  | ICall c => go (body (fixed s) c ++ k) (say (GCall t c) s)
  | IAcq =>
      match lock s with
      | None => go k (say (GAcq t) (set_lock (Some (t, 1)) s))
      | Some (o, n) => if tid_eqb o t then go k (say (GAcq t) (set_lock (Some (t, S n)) s)) else None
      end
  | IRel =>
      match lock s with
      | Some (o, S n) =>
          if tid_eqb o t then go k (say (GRel t) (set_lock (match n with O => None | _ => Some (t, n) end) s))
          else None
      | _ => None
      end
  | ISched h w =>
      if amem N.eqb w (efw s) then go (IAddHW h w :: k) s
      else
        let e := length (ems s) in
        let s1 := say (GEmNew e w) (set_ems (ems s ++ [{| ew := w; epcs := ENew; estop := false |}]) s) in
        go ((if alive s then [IEmStartS e; IYield] else []) ++ IRegEm e :: IAddHW h w :: k) s1
  | IEmStartS e =>
      match get_em s e with
      | Some m =>
          if em_started m then raise (say (GEmStart t e true) s)
          else go k (say (GEmStart t e false) (upd_em e (fun m => {| ew := ew m; epcs := ECheckPc; estop := estop m |}) s))
      | None => None
      end
  | IYield => go k s
  | IRegEm e =>
      match get_em s e with
      | Some m => go k (set_emitters (if memE e (emitters s) then emitters s else emitters s ++ [e])
                          (set_efw (aset N.eqb (ew m) e (efw s)) s))
      | None => None
      end
  | IAddHW h w =>
      let hs := hauto w (handlers s) in
      go k (say (GAdded h w) (set_watches (addN w (watches s)) (set_handlers (aset N.eqb w (addN h (hset w hs)) hs) s)))
  | IAddH h w =>
      let hs := hauto w (handlers s) in
      go k (say (GAdded h w) (set_handlers (aset N.eqb w (addN h (hset w hs)) hs) s))
  | IRemH h w =>
      let hs := hauto w (handlers s) in
      if memN h (hset w hs) then go k (say (GRemoved h w) (set_handlers (aset N.eqb w (remN h (hset w hs)) hs) s))
      else raise (set_handlers hs s)
  | IUnsched w =>
      match alookup N.eqb w (efw s) with
      | None => raise s
      | Some e =>
          if amem N.eqb w (handlers s) then
            let s1 := say (GRemovedW w) (set_efw (aremove N.eqb w (efw s)) (set_handlers (aremove N.eqb w (handlers s)) s)) in
            let s2 := say (GUnsched t w e) (set_emitters (remE e (emitters s)) s1) in
            if memE e (emitters s) then
              go (IEmStop e :: IEmJoin e :: IDelWatch w :: k) s2
            else raise s1
          else raise s
      end
  | IEmStop e =>
      match get_em s e with
      | Some _ => go k (say (GEmStop t e) (upd_em e (fun m => {| ew := ew m; epcs := epcs m; estop := true |}) s))
      | None => None
      end
  | IEmJoin e =>
      match get_em s e with
      | Some m =>
          if em_started m then (if em_exited m then go k (say (GEmJoin t e true) s) else None)
          else go k (say (GEmJoin t e false) s)       (* RuntimeError, suppressed *)
      | None => None
      end
  | IDelWatch w => if memN w (watches s) then go k (set_watches (remN w (watches s)) s) else raise s
  | IClear =>
      match inp with
      | InOrd order =>
          if perm_ok order (emitters s) then
            let n := length (emitters s) in
            go (flat_map (fun e => [IIterChk n; IEmStop e]) order ++ [IIterChk n]
                ++ flat_map (fun e => [IIterChk n; IEmJoin e]) order ++ [IIterChk n; IClearEm] ++ k)
               (say (GOrd t order) (say GRemovedAll (set_handlers [] s)))
          else None
      | _ => None
      end
  | IIterChk n => if Nat.eqb (length (emitters s)) n then go k s else raise s
  | IClearEm => go k (set_watches [] (set_efw [] (set_emitters [] s)))
  | IStartCopy =>
      match inp with
      | InOrd order =>
          if fixed s && dstarted s then raise s
          else if perm_ok order (emitters s) then go (map IStartEm order ++ IStartDisp :: k) (say (GOrd t order) s)
          else None
      | _ => None
      end
  | IStartEm e =>
      match get_em s e with
      | Some m =>
          if em_started m then
            let s0 := say (GEmStart t e true) s in
            if amem N.eqb (ew m) (efw s) then
              let s1 := set_efw (aremove N.eqb (ew m) (efw s)) s0 in
              if memE e (emitters s) then
                go (IEmStop e :: IEmJoin e :: IFailStart e :: k) (set_emitters (remE e (emitters s)) s1)
              else raise s1
            else raise s0
          else go (IYield :: k) (say (GEmStart t e false)
                                  (upd_em e (fun m => {| ew := ew m; epcs := ECheckPc; estop := estop m |}) s))
      | None => None
      end
  | IFailStart e =>
      match get_em s e with
      | Some m => raise (say (GRemovedW (ew m)) (set_watches (remN (ew m) (watches s)) (set_handlers (aremove N.eqb (ew m) (handlers s)) s)))
      | None => None
      end
  | IStartDisp =>
      if dstarted s then raise (say (GDStart t true) s)
      else go (IYield :: k) (say (GDStart t false) (set_dcont [DCheck] (set_dstarted true s)))
  | ISetStop => go k (say (GDSetFlag t) (set_dstop true s))
  | IMarker =>
      if qlast_is s QStop then go k (say (GMarkerRead t true) s)
      else go (IMarkerPut :: k) (say (GMarkerRead t false) s)
  | IMarkerPut => go k (say (GPutM t) (set_qlast (Some QStop) (set_queue (queue s ++ [QStop]) s)))
  | IJoinDisp =>
      if negb (dstarted s) then raise s
      else if tid_eqb t TD then raise s
      else if dexited s then go k s else None
  | IRet c => go k (say (GRet t c false) s)
  | IRetX c => go k (say (GRet t c true) s)
  | DCheck =>
      if dstop s then go [DExitI] (say (GDCheck false) s) else go [DGet] (say (GDCheck true) s)
  | DExitI => go [] (say GDExit (set_dexited true s))
  | DGet =>
      match queue s with
      | [] => None
      | QStop :: q => go [DCheck] (say (GGet QStop) (set_qlast (qlast_after_get QStop q (qlast s)) (set_queue q s)))
      | QEv e w :: q =>
          go [IAcq; DSnap; DTurns; IRel; DTaskDone; DCheck]
             (say (GGet (QEv e w)) (set_dcur (Some (e, w)) (set_qlast (qlast_after_get (QEv e w) q (qlast s)) (set_queue q s))))
      end
  | DSnap =>
      match dcur s with
      | Some (e, w) => let hs := hauto w (handlers s) in go k (say (GSnap w (hset w hs)) (set_dtodo (hset w hs) (set_handlers hs s)))
      | None => None
      end
  | DTurns =>
      match dtodo s, dcur s with
      | [], _ => go k s
      | _ :: _, Some (e, w) =>
          match inp with
          | InTurn h calls =>
              if memN h (dtodo s) then
                let hs := hauto w (handlers s) in
                let s1 := say (GTurn h) (set_dtodo (remN h (dtodo s)) (set_handlers hs s)) in
                if memN h (hset w hs) then go (map ICall calls ++ DTurns :: k) (say (GCb h w e) s1)
                else go (DTurns :: k) s1
              else None
          | _ => None
          end
      | _, None => None
      end
  | DTaskDone => go k (say GTaskDone (set_dcur None s))
  end.

(* Silent instructions: executed by [closure] in the same model step as the instruction before them.
   Merging an access A into the preceding step P of the same thread is sound when no step X of another thread
   that could fall between P and A can tell the difference, i.e. when X commutes with P or with A:
   - after IAcq (P takes the observer lock, A anything): every X between P and A is a step of a thread that
     does not hold and cannot take the lock, so X is not a lock operation and commutes with P (an acquire is a
     right-mover): P;X;A = X;P;A.  This covers ISched (reads efw under the lock and `is_alive()` of the
     dispatcher - the unlocked read of the alive bits is moved back to the acquire), IUnsched, IAddH, IRemH, DSnap.
   - while the lock is held (P = IYield, IEmStop, IEmJoin, IIterChk, ... of the lock owner) and A touches only
     state that is written under the observer lock (handlers, watches, emitters, efw) or thread-local state
     (dtodo): IRegEm, IAddHW, IDelWatch, IIterChk, IClearEm, IFailStart, DTurns-with-empty-todo.  Nobody else can
     change or observe that state before the owner releases.  (In the PINNED variant, fixed = false, start()
     runs ISched-free but IFailStart / IStartEm's failure path write this state WITHOUT the lock; that variant is
     kept only as the refuted witness C06_no_deadlock_refuted_pinned.)
   NOT silent, although it has no blocking point of its own in the code: IMarker, the read of
   SkipRepeatsQueue._last_item in stop() AFTER the observer lock was released and BEFORE the queue mutex is
   taken.  A release is a left-mover only: the dispatcher may get the previous marker (which resets _last_item)
   between the release and the read, and then the marker IS put again.  The same unlocked read on the emitter
   side is the separate label LESkip / LEPut (after LECheck), so a dispatcher get between the read and the
   enqueue is a model behaviour (LECheck; DGet; LEPut).
   No other instruction that follows IRel, IRet or a blocking instruction in some continuation is silent:
   IRet, IRetX, ICall, IAcq, ISetStop, IMarkerPut, IJoinDisp, DCheck, DGet, DExitI, DTaskDone all are steps of
   their own (stop flags, emitter/dispatcher alive bits and the queue are only accessed by such steps). *)
Definition is_silent (s : state) (i : instr) : bool :=
  match i with
  | ISched _ _ | IRegEm _ | IAddHW _ _ | IAddH _ _ | IRemH _ _ | IUnsched _ | IDelWatch _
  | IIterChk _ | IClearEm | IFailStart _ | DSnap => true
  | DTurns => match dtodo s with [] => true | _ => false end
  | _ => false
  end.

Fixpoint closure (fuel : nat) (t : tid) (s : state) : state :=
  match fuel with
  | O => s
  | S f =>
      match cont s t with
      | i :: k =>
          if is_silent s i then
            match exec s t i k NoIn with Some s' => closure f t s' | None => s end
          else s
      | [] => s
      end
  end.

Definition FUEL := 12%nat.

Inductive label :=
| LCall (n : N) (c : call)              (* API thread n (idle) begins call c *)
| LStep (t : tid)                       (* thread t executes its next instruction *)
| LOrd (t : tid) (order : list emid)    (* ... an instruction that iterates over the emitter set *)
| LTurn (h : handler) (calls : list call)   (* the dispatcher gives handler h its turn *)
| LECheck (e : emid) | LEPut (e : emid) (ev : event) | LESkip (e : emid) (ev : event)
| LEIdle (e : emid) | LEExit (e : emid).

Definition set_epc (e : emid) (p : epc) (s : state) : state :=
  upd_em e (fun m => {| ew := ew m; epcs := p; estop := estop m |}) s.

Definition step_thread (s : state) (t : tid) (inp : input) : option state :=
  match cont s t with
  | i :: k => match exec s t i k inp with Some s' => Some (closure FUEL t s') | None => None end
  | [] => None
  end.

Definition step (s : state) (l : label) : option state :=
  match l with
  | LCall n c =>
      match cont s (TA n) with
      | [] => Some (closure FUEL (TA n) (set_cont (TA n) (body (fixed s) c) (say (GCall (TA n) c) s)))
      | _ => None
      end
  | LStep t => step_thread s t NoIn
  | LOrd t order => step_thread s t (InOrd order)
  | LTurn h calls => step_thread s TD (InTurn h calls)
  | LECheck e =>
      match get_em s e with
      | Some m =>
          match epcs m with
          | ECheckPc => if estop m then Some (say (GECheck e false) (set_epc e EExiting s))
                        else Some (say (GECheck e true) (set_epc e EPutPc s))
          | _ => None
          end
      | None => None
      end
  | LEPut e ev =>
      match get_em s e with
      | Some m =>
          match epcs m with
          | EPutPc => Some (say (GPut e (ew m) ev) (set_qlast (Some (QEv ev (ew m))) (set_queue (queue s ++ [QEv ev (ew m)]) (set_epc e ECheckPc s))))
          | _ => None
          end
      | None => None
      end
  | LESkip e ev =>
      match get_em s e with
      | Some m =>
          match epcs m with
          | EPutPc => if qlast_is s (QEv ev (ew m)) then Some (say (GPutSkip e (ew m) ev) (set_epc e ECheckPc s)) else None
          | _ => None
          end
      | None => None
      end
  | LEIdle e =>
      match get_em s e with
      | Some m => match epcs m with EPutPc => Some (set_epc e ECheckPc s) | _ => None end
      | None => None
      end
  | LEExit e =>
      match get_em s e with
      | Some m => match epcs m with EExiting => Some (say (GEExit e) (set_epc e EExited s)) | _ => None end
      | None => None
      end
  end.

Fixpoint run (s : state) (tr : list label) : option state :=
  match tr with
  | [] => Some s
  | l :: tr' => match step s l with Some s' => run s' tr' | None => None end
  end.

Definition reachable (s : state) : Prop := exists tr, run init tr = Some s.
Definition reachable_pinned (s : state) : Prop := exists tr, run (init_of false) tr = Some s.

(* ---- enabledness, deadlock, termination (boolean) *)
Definition em_running (m : em) : bool :=
  match epcs m with ECheckPc | EPutPc | EExiting => true | _ => false end.

(* can thread t take a step (for some input)? *)
Definition thread_enabled (s : state) (t : tid) : bool :=
  match cont s t with
  | [] => false
  | IAcq :: _ => match lock s with None => true | Some (o, _) => tid_eqb o t end
  | IEmJoin e :: _ =>
      match get_em s e with Some m => negb (em_started m) || em_exited m | None => false end
  | IJoinDisp :: _ => negb (dstarted s) || tid_eqb t TD || dexited s
  | DGet :: _ => match queue s with [] => false | _ => true end
  | _ => true
  end.

Definition api_tids (s : state) : list tid := map (fun p => TA (fst p)) (aconts s).
Definition all_tids (s : state) : list tid := TD :: api_tids s.

Definition any_enabled (s : state) : bool :=
  existsb (thread_enabled s) (all_tids s) || existsb em_running (ems s).

(* blocked on the observer lock or in emitter.join(); or in observer.join() although stop was requested *)
Definition thread_stuck (s : state) (t : tid) : bool :=
  negb (thread_enabled s t) &&
  match cont s t with
  | IAcq :: _ | IEmJoin _ :: _ => true
  | IJoinDisp :: _ => dstop s
  | _ => false
  end.

Definition deadlocked (s : state) : bool :=
  negb (any_enabled s) && existsb (thread_stuck s) (all_tids s).

(* every library thread has exited (or was never started) *)
Definition finished (s : state) : bool :=
  (negb (dstarted s) || dexited s) && forallb (fun m => negb (em_running m)) (ems s).

(* ---- ghost projections *)
Definition queued (w : watch) (s : state) : list event :=
  flat_map (fun g => match g with GPut _ w' e => if N.eqb w w' then [e] else [] | _ => [] end) (rev (glog s)).
Definition dequeued (w : watch) (s : state) : list event :=
  flat_map (fun g => match g with GGet (QEv e w') => if N.eqb w w' then [e] else [] | _ => [] end) (rev (glog s)).
Definition delivered (h : handler) (w : watch) (s : state) : list event :=
  flat_map (fun g => match g with GCb h' w' e => if N.eqb h h' && N.eqb w w' then [e] else [] | _ => [] end) (rev (glog s)).
Definition queue_of (w : watch) (q : list qitem) : list event :=
  flat_map (fun x => match x with QEv e w' => if N.eqb w w' then [e] else [] | QStop => [] end) q.

(* is (h,w) registered according to the ghost log (newest first)? *)
Fixpoint reg (g : list gev) (h : handler) (w : watch) : bool :=
  match g with
  | [] => false
  | GAdded h' w' :: l => (N.eqb h h' && N.eqb w w') || reg l h w
  | GRemoved h' w' :: l => if N.eqb h h' && N.eqb w w' then false else reg l h w
  | GRemovedW w' :: l => if N.eqb w w' then false else reg l h w
  | GRemovedAll :: l => false
  | _ :: l => reg l h w
  end.

(* every callback in the log went to a handler registered at that moment *)
Fixpoint cb_ok (g : list gev) : bool :=
  match g with
  | [] => true
  | GCb h w e :: l => reg l h w && cb_ok l
  | _ :: l => cb_ok l
  end.

(* library threads' remaining own steps once the stop flags are set (C06 (ii)) *)
Definition em_bound (m : em) : nat :=
  match epcs m with ECheckPc => 2 | EPutPc => 3 | EExiting => 1 | _ => 0 end.
