(* Round trip of the ReadDirectoryChangesW buffer codec, and the byte-order-mark defect (C20, F8). *)
Require Import WD.Base.Prelude WD.Base.Le32 WD.Model.CodecWin.

Local Open Scope N_scope.

(* ------------------------------------------------------------ UTF-16 *)
Lemma units_le_bytes us : Forall (fun u => u < 65536) us -> units_le (units_bytes us) = Some us.
Proof.
  induction 1 as [|u us Hu _ IH]; [reflexivity|].
  change (units_bytes (u :: us)) with (u mod 256 :: u / 256 :: units_bytes us).
  cbn [units_le]. rewrite IH. now rewrite rd16_le16.
Qed.

Lemma units_of_cp_lt c : is_scalar c = true -> Forall (fun u => u < 65536) (units_of_cp c).
Proof.
  unfold is_scalar, units_of_cp. intros H.
  destruct (N.ltb_spec c 65536); repeat constructor; try lia.
Qed.

Lemma utf16_units_lt s : forallb is_scalar s = true -> Forall (fun u => u < 65536) (utf16_units s).
Proof.
  induction s as [|c s IH]; simpl; intros H; [constructor|].
  apply andb_true_iff in H as [Hc Hs]. apply Forall_app. split; [now apply units_of_cp_lt | now apply IH].
Qed.

Lemma cps_units s : forallb is_scalar s = true -> cps (utf16_units s) = Some s.
Proof.
  induction s as [|c s IH]; [reflexivity|].
  cbn [forallb]. intros H. apply andb_true_iff in H as [Hc Hs]. specialize (IH Hs).
  cbn [utf16_units flat_map]. fold (utf16_units s).
  unfold units_of_cp. unfold is_scalar in Hc.
  destruct (N.ltb_spec c 65536) as [Hlt|Hge].
  - cbn [app cps].
    assert (Hh : is_high c = false) by (unfold is_high; lia).
    assert (Hl : is_low c = false) by (unfold is_low; lia).
    now rewrite Hh, Hl, IH.
  - cbn [app cps].
    assert (Hh : is_high (55296 + (c - 65536) / 1024) = true) by (unfold is_high; lia).
    assert (Hl : is_low (56320 + (c - 65536) mod 1024) = true) by (unfold is_low; lia).
    rewrite Hh, Hl, IH. f_equal. f_equal. lia.
Qed.

Lemma dec_le_name s : forallb is_scalar s = true ->
  dec_utf16_le (units_bytes (utf16_units s)) = Some s.
Proof.
  intros H. unfold dec_utf16_le. rewrite units_le_bytes by now apply utf16_units_lt.
  cbn [obind]. now apply cps_units.
Qed.

(* ------------------------------------------------------------ the chain *)
Lemma firstn_app_exact {A} (a b : list A) n : n = length a -> firstn n (a ++ b) = a.
Proof. intros ->. rewrite firstn_app, Nat.sub_diag, firstn_all. simpl. apply app_nil_r. Qed.

Lemma skipn_app_exact {A} (a b : list A) n : n = length a -> skipn n (a ++ b) = b.
Proof. intros ->. rewrite skipn_app, Nat.sub_diag, skipn_all. reflexivity. Qed.

Lemma encode_cons_length r pad rest :
  length (encode ((r, pad) :: rest)) = (entry_size r pad + length (encode rest))%nat.
Proof.
  cbn [encode]. rewrite !app_length, !le32_length. unfold entry_size. lia.
Qed.

Lemma encode_length_ge rs : (12 * length rs <= length (encode rs))%nat.
Proof.
  induction rs as [|[r pad] rs IH]; [simpl; lia|].
  rewrite encode_cons_length. unfold entry_size. simpl length. lia.
Qed.

Lemma parse_go_encode rs : valid rs -> rs <> [] -> forall fuel n junk,
  (length rs <= fuel)%nat -> N.of_nat (length (encode rs)) <= n ->
  parse_go dec_utf16_le fuel (encode rs ++ junk) n = Ok (map fst rs).
Proof.
  induction 1 as [|[r pad] rest Hv Hrest IH]; intros Hne fuel n junk Hf Hn; [contradiction|].
  destruct Hv as (Ha & Hs & Hsz). cbn [fst snd] in *.
  rewrite encode_cons_length in Hn.
  assert (Hn0 : (n =? 0) = false) by (apply N.eqb_neq; unfold entry_size in Hn; lia).
  destruct fuel as [|f]; [simpl in Hf; lia|].
  cbn [parse_go]. rewrite Hn0.
  set (next := match rest with [] => 0 | _ => N.of_nat (entry_size r pad) end).
  assert (Hnext : next < 4294967296) by (unfold next; destruct rest; lia).
  assert (Hbuf : encode ((r, pad) :: rest) ++ junk =
                 le32 next ++ le32 (w_action r) ++ le32 (N.of_nat (length (name_bytes r)))
                 ++ (name_bytes r ++ pad ++ encode rest ++ junk)).
  { cbn [encode]. fold next. now rewrite <- !app_assoc. }
  rewrite Hbuf.
  set (tail := name_bytes r ++ pad ++ encode rest ++ junk).
  assert (Hlen : (length (le32 next ++ le32 (w_action r) ++ le32 (N.of_nat (length (name_bytes r))) ++ tail) <? 12)%nat = false).
  { apply Nat.ltb_ge. rewrite !app_length, !le32_length. lia. }
  rewrite Hlen.
  assert (Hfnl : N.of_nat (length (name_bytes r)) < 4294967296) by (unfold entry_size in Hsz; lia).
  assert (H0 : u32_at 0 (le32 next ++ le32 (w_action r) ++ le32 (N.of_nat (length (name_bytes r))) ++ tail) = next)
    by now apply u32_at_0_le32.
  assert (H4 : u32_at 4 (le32 next ++ le32 (w_action r) ++ le32 (N.of_nat (length (name_bytes r))) ++ tail) = w_action r).
  { change 4%nat with (4 + 0)%nat. rewrite u32_at_skip4. now apply u32_at_0_le32. }
  assert (H8 : u32_at 8 (le32 next ++ le32 (w_action r) ++ le32 (N.of_nat (length (name_bytes r))) ++ tail)
               = N.of_nat (length (name_bytes r))).
  { change 8%nat with (4 + (4 + 0))%nat. rewrite !u32_at_skip4. now apply u32_at_0_le32. }
  rewrite H0, H4, H8.
  change (skipn 12 (le32 next ++ le32 (w_action r) ++ le32 (N.of_nat (length (name_bytes r))) ++ tail)) with tail.
  assert (Hbody : (N.of_nat (length tail) <? N.of_nat (length (name_bytes r))) = false).
  { apply N.ltb_ge. unfold tail. rewrite app_length. lia. }
  rewrite Hbody, Nat2N.id. unfold tail at 1. rewrite firstn_app_exact by reflexivity.
  unfold name_bytes at 1. rewrite dec_le_name by exact Hs.
  destruct rest as [|rp rest'].
  - (* last entry: NextEntryOffset = 0 *)
    unfold next. cbn [N.eqb map fst]. destruct r; reflexivity.
  - assert (Hnz : (next =? 0) = false) by (apply N.eqb_neq; unfold next, entry_size; lia).
    rewrite Hnz. unfold tail. rewrite <- Hbuf.
    assert (Hskip : skipn (N.to_nat (N.min next (N.of_nat (length (encode ((r, pad) :: rp :: rest') ++ junk)))))
                          (encode ((r, pad) :: rp :: rest') ++ junk) = encode (rp :: rest') ++ junk).
    { rewrite N.min_l by (rewrite app_length, encode_cons_length; unfold next; lia).
      unfold next. rewrite Nat2N.id. cbn [encode]. fold (encode (rp :: rest')).
      rewrite <- !app_assoc.
      rewrite !app_assoc. rewrite <- (app_assoc _ (encode (rp :: rest')) junk).
      apply skipn_app_exact. rewrite !app_length, !le32_length. unfold entry_size. lia. }
    rewrite Hskip. rewrite IH; [destruct r; reflexivity | discriminate | simpl in Hf |- *; lia |].
    unfold next. lia.
Qed.

Theorem win_roundtrip rs junk : valid rs ->
  parse dec_utf16_le (encode rs ++ junk) (N.of_nat (length (encode rs))) = Ok (map fst rs).
Proof.
  intros Hv. destruct rs as [|rp rs]; [reflexivity|].
  unfold parse. apply parse_go_encode; [exact Hv | discriminate | | apply N.le_refl].
  rewrite Nat2N.id. pose proof (encode_length_ge (rp :: rs)). lia.
Qed.

(* fuel = n_bytes is enough on every input: NoFuel is never the answer *)
Lemma parse_go_fuel dec : forall fuel buf n, (N.to_nat n <= fuel)%nat -> parse_go dec fuel buf n <> NoFuel.
Proof.
  induction fuel as [|f IH]; intros buf n Hn.
  - assert (n = 0) by lia. subst. simpl. discriminate.
  - cbn [parse_go]. destruct (n =? 0) eqn:En; [discriminate|]. apply N.eqb_neq in En.
    destruct (length buf <? 12)%nat; [discriminate|].
    destruct (N.of_nat (length (skipn 12 buf)) <? _); [discriminate|].
    destruct (dec _); [|discriminate].
    destruct (u32_at 0 buf =? 0) eqn:E0; [discriminate|]. apply N.eqb_neq in E0.
    specialize (IH (skipn (N.to_nat (N.min (u32_at 0 buf) (N.of_nat (length buf)))) buf) (n - u32_at 0 buf)).
    destruct (parse_go dec f _ _); try discriminate. exfalso. apply IH; [lia | reflexivity].
Qed.

Theorem parse_fuel dec buf n : parse dec buf n <> NoFuel.
Proof. apply parse_go_fuel, Nat.le_refl. Qed.

(* The pinned decoder ("utf-16"): a name that starts with U+FEFF loses that character ... *)
Lemma win_bom_refuted :
  exists rs, valid rs /\
    parse dec_utf16_bom (encode rs) (N.of_nat (length (encode rs))) <> Ok (map fst rs).
Proof.
  exists [(WRec 1 [65279; 97], [])]. split.
  - repeat constructor.
  - vm_compute. discriminate.
Qed.

(* ... and one that starts with U+FFFE is decoded big-endian: "￾a" comes back as U+6100. *)
Lemma win_bom_be_witness :
  parse dec_utf16_bom (encode [(WRec 1 [65534; 97], [])]) 16 = Ok [WRec 1 [24832]].
Proof. reflexivity. Qed.

(* Names without a leading U+FEFF / U+FFFE are decoded identically by both codecs: the defect is
   confined to those two first characters. *)
Lemma dec_bom_agrees s : forallb is_scalar s = true ->
  match s with c :: _ => c <> 65279 /\ c <> 65534 | [] => True end ->
  dec_utf16_bom (units_bytes (utf16_units s)) = dec_utf16_le (units_bytes (utf16_units s)).
Proof.
  intros Hs Hc. destruct s as [|c s]; [reflexivity|]. destruct Hc as [H1 H2].
  cbn [forallb] in Hs. apply andb_true_iff in Hs as [Hsc _]. unfold is_scalar in Hsc.
  cbn [utf16_units flat_map]. unfold units_of_cp.
  destruct (N.ltb_spec c 65536) as [Hlt|Hge].
  - cbn [app units_bytes flat_map le16]. unfold dec_utf16_bom.
    destruct (N.eq_dec (c mod 256) 255) as [E1|E1].
    + destruct (N.eq_dec (c / 256) 254) as [E2|E2]; [exfalso; lia|].
      rewrite E1. destruct (c / 256) as [|p] eqn:Ep; [reflexivity|].
      do 8 (destruct p as [p|p|]; try reflexivity). all: exfalso; lia.
    + destruct (N.eq_dec (c mod 256) 254) as [E3|E3].
      * destruct (N.eq_dec (c / 256) 255) as [E2|E2]; [exfalso; lia|].
        rewrite E3. destruct (c / 256) as [|p] eqn:Ep; [reflexivity|].
        do 8 (destruct p as [p|p|]; try reflexivity). all: exfalso; lia.
      * destruct (c mod 256) as [|p] eqn:Ep; [reflexivity|].
        do 8 (destruct p as [p|p|]; try reflexivity). all: exfalso; lia.
  - (* a surrogate pair: the first unit is D800..DBFF, its high byte D8..DB is neither FE nor FF *)
    cbn [app units_bytes flat_map le16]. unfold dec_utf16_bom.
    set (u := 55296 + (c - 65536) / 1024).
    assert (Hu : 216 <= u / 256 <= 219) by (unfold u; lia).
    destruct (u mod 256) as [|p] eqn:Ep; [reflexivity|].
    destruct (u / 256) as [|q] eqn:Eq; [lia|].
    do 8 (destruct p as [p|p|]; try reflexivity);
    do 8 (destruct q as [q|q|]; try reflexivity); exfalso; lia.
Qed.
