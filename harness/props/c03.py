"""C03 - every delivered event is justified and correctly typed; single operations meet their contract."""
from __future__ import annotations

import os

from harness import core, pipe, pipecheck, pipeprops
from harness.core import Failure, Result

MANIFEST = dict(
    design_ref="DESIGN.md §6 C03",
    text="Coq theorems (coq/Props/C03.v): per-operation COMPLETENESS - for every configuration, world and covered state, "
         "kernel_op + read_batch + grouping + emit deliver exactly the contract (up to adjacent duplicates) for touch, write, "
         "chmod (file, directory), unlink, mkdir, rmdir, file renames (inside/in/out/replacing), directory renames onto a free "
         "name incl. synthetic events in walk order, and a directory of the tree renamed over an empty directory of the tree "
         "(C03_contract_rename_dir_replacing, under the synchronisation invariant RSync of C02: moved + parents modified + "
         "synthetic moved + DirModified of the replaced directory from its IN_ATTRIB; _unwatched: the replaced directory has no "
         "watch of its own); in a well-formed world os.walk under the new name of a renamed directory finds what it found under "
         "the old one (C03_rename_dir_content: the fuel of the content function suffices, removing the replaced directory "
         "touches nothing below the source, frename is a map), so the directory-rename contracts carry no tree hypothesis "
         "(C03_contract_rename_dir_wf, _replacing, _replacing_unwatched) (C03_contract_*), tied to the pipeline "
         "LTS (C03_pipeline_tie); SHAPE laws of "
         "emit for every item (C03_flavour, C03_synthetic_only_descendants via C14, C03_moved_pair_paths/_cookie, "
         "C03_parent_modified); the unrestricted history-level soundness is REFUTED on the model for the code before the repairs "
         "(C03_sound_refuted_phantom = F10 with c_fix_moveout off, C03_sound_pinned_refuted_f10e = F10e with c_fix_relabel off) "
         "and the same histories are sound on the current code (C03_phantom_repaired, C03_nested_moveout_repaired, "
         "C03_f10e_repaired); for the current code: a forgotten descriptor produces no event, a departed directory's watches "
         "are forgotten, no raw event below its former path (C03_forgotten_descriptor_no_event, C03_moveout_forgets, "
         "C03_no_phantom_after_moveout); SEQUENTIAL histories, on the Pipeline model: for block histories (per operation AOp; ARead of the whole "
         "kernel queue; ATick of the pairing delay; AEmit until the buffer is empty) of the class ops_x3 from pinit - covered "
         "operations, directory move-ins, move-outs and what follows them (ops_x1 of C01/C02), and a directory renamed over an "
         "empty directory of the tree - every block delivers exactly the operation's contract (C03_block_contract_x3), the "
         "stream is the concatenation of the per-operation contracts block by block up to collapse (COMPLETENESS, "
         "C03_contract_sequential) and sound_along holds: every event queued by an AEmit is justified by the operations "
         "executed before it (SOUNDNESS, C03_sound_pipeline_sequential / C03_blocks_sound; every event of a contract is "
         "justified by its operation: C03_contract_justified; drun-level form C03_sound_sequential); the same with PARTIAL "
         "READS - each block's records split arbitrarily between several ARead steps, also between the two halves of a rename "
         "(C03_contract_cuts, C03_sound_pipeline_cuts, via the cuts theorems of C01/C02; no operation and no tick between the "
         "reads of a block), and with LOOSE TIMING after the reads - the pairing delay in several parts, queue_events before the "
         "delay of a lone IN_MOVED_FROM has elapsed, items delivered early (C03_contract_loose, C03_blocks_sound_loose); BURSTS "
         "of FILE-LEVEL operations (touch, write, chmod of a file, unlink, file renames inside/in/out/replacing - several "
         "operations back to back before a read, from a synchronised state): records about files are read independently of "
         "file system and kernel state (C03_read_batch_file), so the stream is the concatenation of the per-operation "
         "contracts, each taken at the state in which its operation ran, and every event is justified by an operation of the "
         "burst (C03_burst_files_contract, C03_burst_files_sound at the read_batch/delivered level; C03_burst_files_pipeline on the "
         "Pipeline model: AOp ... AOp; the reads cut arbitrarily; ticks/queue_events; delay; emits - sound_along holds and the "
         "final state is synchronised again; side condition: the kernel coalesced no record across an operation border - only "
         "`chmod f; chmod f` does); STATED ONLY (C03_sound_full_current): soundness over all interleavings - bursts with "
         "directory operations, operations or ticks/queue_events between the reads of a block. "
         "Pipeline model in lock-step against the real observer on the real kernel (see C01); completeness: in "
         "one-at-a-time histories the events delivered for each operation must equal the per-operation contract written "
         "from the property text; soundness: in arbitrary (also unpaced) histories every delivered event must be explained "
         "by an operation of the history (path in scope, kind, moved src/dst of one entry, synthetic only for descendants); "
         "theorems in coq/Props/C03.v over the model."
         " A burst WITH directory operations, the arrival shape `mkdir p; <mkdir / touch strictly below p>` read in one read (recursive watch, p in scope, fixed _recursive_simulate, no fault): every delivered event is justified by an operation of the burst (C03_burst_arrival_sound at the read_batch/delivered level, C03_burst_arrival_pipeline: sound_along on the Pipeline model); contract equality does not hold there - the stream follows the walk order and a touch below p contributes no opened/closed events.",
    note="Trusted: as C01. Contract details fixed here: `touch` = create+open+close (created, parent modified, opened, closed, "
         "parent modified), chmod of a watched directory is reported once per watch that sees it, a directory replaced by a "
         "rename additionally gets the kernel's IN_ATTRIB as DirModified; comparison up to coalescing of adjacent identical "
         "events and up to the order inside one run of synthetic events (os.walk order).",
    technique="Coq proof over an executable pipeline model + lock-step correspondence against the real kernel + per-operation contract and justification oracles",
)
TRUSTED = pipecheck.TRUSTED
ASSUMPTIONS = pipecheck.ASSUMPTIONS


def moved_out_prefixes(run, upto):
    out = []
    for e in run.log[:upto]:
        if e["a"] == "op" and e["ok"] and e["kind"] == "rename" and e["was_dir"] and e["path"][0] == "R" and e["path2"][0] == "O":
            out.append(e["p"])
    return out


def one(ctx, res: Result, hist, cfg, batch, mode):
    run, case, stopped, _ = pipecheck.execute(hist, cfg, None, lambda r: r.drain())
    meta = {**pipecheck.meta_of(hist, cfg), "mode": mode}
    res.evaluations += 1
    pipecheck.hist_stats(res, hist, run)
    res.hist("mode", mode)
    ops_idx = [i for i, e in enumerate(run.log) if e["a"] == "op"]
    n_events = sum(len(e["events"]) for e in run.log if e["a"] == "emit")
    if n_events >= 4:
        res.nontrivial.add(core.digest(meta))
    if mode == "contract":
        for j, i in enumerate(ops_idx):
            e = run.log[i]
            if not e["ok"]:
                continue
            end = ops_idx[j + 1] if j + 1 < len(ops_idx) else len(run.log)
            got = [x for ent in run.log[i:end] if ent["a"] == "emit" for x in ent["events"]]
            want = pipeprops.contract(run, e["kind"], e["p"], e["q"], e["was_dir"], e["replaced"], e["descendants"])
            if e["kind"] == "rename" and e["replaced"] and e["replaced_dir"] and pipeprops.in_scope(run, e["q"]) and run.recursive:
                want = want + [["DirModified", e["q"], b"", False]]      # kernel IN_ATTRIB on the replaced directory
            if e["kind"] == "chmod" and e["was_dir"]:
                pass
            g = pipe.sort_synthetic_runs(pipe.collapse(got))
            w = pipe.sort_synthetic_runs(pipe.collapse(want))
            if g != w:
                extra = [x for x in g if x not in w]
                stale = moved_out_prefixes(run, i)
                phantom = bool(extra) and not [x for x in w if x not in g] and all(
                    any(x[1] == p or x[1].startswith(p + b"/") for p in stale) for x in extra)
                res.failures.append(Failure(
                    what=f"operation {e['kind']} {'/'.join(e['path'])}{' -> ' + '/'.join(e['path2']) if e['path2'] else ''} issued alone "
                         f"did not deliver its contract", case={**meta, "op_index": j},
                    signature={"law": "unjustified", "pattern": "stale-in-tree-path-of-a-directory-that-was-moved-out",
                               "event": extra[0][0]} if phantom else
                              {"law": "contract", "op": e["kind"], "dir": e["was_dir"],
                               "areas": e["path"][0] + (">" + e["path2"][0] if e["path2"] else "")},
                    observed=pipecheck.printable(g), expected=pipecheck.printable(w)))
                break
            if len(res.samples) < 3 and e["kind"] == "rename" and e["was_dir"] and e["descendants"]:
                res.samples.append({"op": [e["kind"], e["path"], e["path2"]], "config": cfg, "delivered": pipecheck.printable(g)})
    else:
        done_ops = []
        for i, ent in enumerate(run.log):
            if ent["a"] == "op" and ent["ok"]:
                done_ops.append(ent)
            elif ent["a"] == "emit":
                for ev in ent["events"]:
                    why = pipeprops.justified(run, ev, done_ops)
                    if why:
                        stale = any(ev[1] == p or ev[1].startswith(p + b"/") or ev[2].startswith(p + b"/")
                                    for p in moved_out_prefixes(run, i))
                        pattern = "stale-in-tree-path-of-a-directory-that-was-moved-out" if stale else \
                            pipeprops.cause_of(pipeprops.tags_of_paths_upto(run, [p_ for p_ in (ev[1], ev[2]) if p_], i))
                        res.failures.append(Failure(
                            what=f"delivered event {ev[0]}({ev[1].decode('latin1')}) is not justified: {why}", case=meta,
                            signature={"law": "unjustified", "pattern": pattern, "event": ev[0]},
                            observed=pipecheck.printable(ev), expected="an operation of the history that explains the event"))
                        break
    res.failures += pipecheck.thread_failures(run, stopped, meta, "C03")
    batch.append((meta, run, case))


def run(ctx) -> Result:
    res = Result()
    res.rule = ("contract mode: histories of 3-12 operations, one at a time (drain after each), every operation's delivered events "
                "compared with the per-operation contract; soundness mode: bursts, unpaced, incl. operations inside directories "
                "that left the tree, every delivered event classified against the operation log; 5 configurations; non-trivial "
                "= >= 4 delivered events; distinct by (history, config, mode)")
    rng = ctx.rng("c03")
    batch = []
    for c in ctx.corpus():
        one(ctx, res, c["history"], (c["recursive"], c["full_events"], c["path_kind"]), batch, c.get("mode", "contract"))
    n = 130 if not ctx.thorough else 2500
    for i in range(n):
        cfg = pipecheck.CONFIGS[i % len(pipecheck.CONFIGS)]
        if i % 9 == 4:
            hist = pipe.gen_history_renames(rng, n_renames=rng.randint(2, 5))     # take-overs, ancestor renames, out and back
            one(ctx, res, hist, cfg, batch, "soundness")
        elif i % 3 != 2:
            hist = pipe.gen_history(rng, n_ops=rng.randint(3, 12), paced=True, burst_prob=0.0, rename_after_arrival=0.0)
            one(ctx, res, hist, cfg, batch, "contract")
        else:
            hist = pipe.gen_history(rng, n_ops=rng.randint(4, 14), paced=False, burst_prob=rng.choice([0.3, 0.7]),
                                    moved_out_ops=True)
            one(ctx, res, hist, cfg, batch, "soundness")
    pipecheck.check_model(res, "C03", batch)
    buffer_layer(ctx, res)
    return res


def buffer_layer(ctx, res: Result):
    """The gated driver lets the reader and the emitter take turns; the interleavings INSIDE the buffer (the emitter waiting in
    DelayedQueue.get() while the reader pairs, removes and puts - a rename whose halves arrive in separate reads) are those of
    the reader/consumer LTS the Pipeline model sits on (Grouping.v over DelayQueue.v): its lock-step tie and the
    exactly-once / pairing / never-early oracle run here too (shared with C08 and C01)."""
    from harness.props import c08
    cases, metas = [], []
    c08.buffer_campaign(ctx, res, cases, metas, 60 if not ctx.thorough else 400, corpus=False)
    c08.compare(res, cases, metas)
    res.notes.append("buffer layer: real InotifyBuffer + DelayedQueue under the deterministic scheduler in lock-step with Grouping.v/"
                     "DelayQueue.v (renames cut across reads, consumer inside get() while the reader pairs) - shared with C08")


def replay(ctx, obj) -> int:
    case = obj.get("case", obj)
    if isinstance(case, dict) and "program" in case:
        from harness.props import c08
        return c08.replay(ctx, obj)
    res = Result()
    batch = []
    one(ctx, res, case["history"], (case["recursive"], case["full_events"], case["path_kind"]), batch, case.get("mode", "contract"))
    pipecheck.check_model(res, "C03", batch)
    for f in res.failures:
        print("FAIL:", f.what, "\n observed:", f.observed, "\n expected:", f.expected)
    for m in res.mismatches:
        print("MISMATCH:", m.pair, "\n model:", m.model, "\n real: ", m.impl)
    return 1 if res.failures or res.mismatches else 0
