(* Model of the registry of watchdog.observers.api.BaseObserver - the sequential projection:
   one API thread, no concurrent events, every call runs to completion (the harness joins the
   observer thread after stop(), so `is_alive()` = started and not stopped).

   Impl state = the four collections of BaseObserver.__init__ (l.238-241) plus the thread flags:
     _watches, _handlers (a defaultdict: reading `_handlers[w]` creates the entry),
     _emitters, _emitter_for_watch; which emitter threads have been started; observer thread
     started / stop flag set.
   Every method follows the statement order of api.py, a KeyError of a dict/set operation is an
   explicit [Raised] outcome with the state as mutated up to that statement.

   Two switches select the pinned or the repaired code:
     f2  = true : schedule() creates and starts the emitter BEFORE registering the handler
                  (fixes/F2-schedule-rollback.diff); false: the pinned order (handler first).
     f2b = true : start(), when it drops an emitter that failed to start, also drops that watch's
                  handlers and its _watches entry; false: the pinned code (emitter only).
   Definitions only. *)
Require Import WD.Base.Prelude.

Definition handler := N.
(* ObservedWatch.key = (path, is_recursive, event_filter); the filter is an opaque id (0 = None) *)
Definition watch := (N * bool * N)%type.

Definition weqb (a b : watch) : bool :=
  match a, b with
  | (p, r, f), (p', r', f') => N.eqb p p' && Bool.eqb r r' && N.eqb f f'
  end.

(* An emitter object: identity (allocation number) and its .watch attribute *)
Definition emitter := (nat * watch)%type.
Definition eid (e : emitter) : nat := fst e.
Definition ewatch (e : emitter) : watch := snd e.

(* Python sets as duplicate-free lists *)
Section ListSet.
  Context {A : Type} (eqb : A -> A -> bool).
  Fixpoint memb (x : A) (l : list A) : bool :=
    match l with [] => false | y :: l' => eqb x y || memb x l' end.
  Definition set_add (x : A) (l : list A) : list A := if memb x l then l else l ++ [x].
  Definition set_del (x : A) (l : list A) : list A := filter (fun y => negb (eqb x y)) l.
End ListSet.

Inductive fault :=
| NoFault
| FailCtor                 (* the emitter constructor raises during this call *)
| FailStart (k : nat).     (* the k-th (0-based) emitter.start() attempted during this call raises *)

Definition is_ctor (f : fault) : bool := match f with FailCtor => true | _ => false end.
Definition is_start (f : fault) (k : nat) : bool :=
  match f with FailStart j => Nat.eqb j k | _ => false end.

Inductive call :=
| Schedule (h : handler) (w : watch)
| AddHandler (h : handler) (w : watch)
| RemoveHandler (h : handler) (w : watch)
| Unschedule (w : watch)
| UnscheduleAll
| Start (ord : list watch)   (* ord: the order in which `for emitter in self._emitters.copy()` visits
                                the set, given by the emitters' watches; any list is accepted *)
| Stop.

Inductive err :=
| EKeyWatch      (* KeyError: unschedule() of a watch without emitter (first statement) *)
| EKeyHandler    (* KeyError: remove_handler_for_watch() of a handler that is not registered *)
| EKeyInternal   (* KeyError from a later statement: the collections are out of step *)
| ECtor          (* the injected constructor failure *)
| EStart         (* the injected emitter.start() failure *)
| EAlready.      (* RuntimeError: threads can only be started once (the observer's own guard in start(), or
                    threading.Thread.start() of an emitter that a failed earlier start() had already started) *)

Inductive result := Ok | Raised (e : err).

Record st := mk {
  watches : list watch;
  handlers : list (watch * list handler);
  emitters : list emitter;
  efw : list (watch * emitter);
  started : list nat;        (* ids of emitter threads whose Thread.start() succeeded *)
  next : nat;                (* next emitter allocation number *)
  thr_started : bool;        (* Thread.start() of the observer succeeded *)
  stopped : bool             (* the observer's stop flag is set *)
}.

Definition init : st := mk [] [] [] [] [] 0 false false.

Definition alive (s : st) : bool := thr_started s && negb (stopped s).

Definition set_watches s x := mk x (handlers s) (emitters s) (efw s) (started s) (next s) (thr_started s) (stopped s).
Definition set_handlers s x := mk (watches s) x (emitters s) (efw s) (started s) (next s) (thr_started s) (stopped s).
Definition set_emitters s x := mk (watches s) (handlers s) x (efw s) (started s) (next s) (thr_started s) (stopped s).
Definition set_efw s x := mk (watches s) (handlers s) (emitters s) x (started s) (next s) (thr_started s) (stopped s).
Definition set_started s x := mk (watches s) (handlers s) (emitters s) (efw s) x (next s) (thr_started s) (stopped s).
Definition set_next s x := mk (watches s) (handlers s) (emitters s) (efw s) (started s) x (thr_started s) (stopped s).
Definition set_thr s x := mk (watches s) (handlers s) (emitters s) (efw s) (started s) (next s) x (stopped s).
Definition set_stopped s x := mk (watches s) (handlers s) (emitters s) (efw s) (started s) (next s) (thr_started s) x.

(* _handlers[w] read through the defaultdict, as a value *)
Definition hget (m : list (watch * list handler)) (w : watch) : list handler :=
  match alookup weqb w m with Some l => l | None => [] end.

(* self._handlers[watch].add(h) *)
Definition add_handler (s : st) (h : handler) (w : watch) : st :=
  set_handlers s (aset weqb w (set_add N.eqb h (hget (handlers s) w)) (handlers s)).

(* del d[k] : None = KeyError *)
Definition adel {V} (w : watch) (m : list (watch * V)) : option (list (watch * V)) :=
  if amem weqb w m then Some (aremove weqb w m) else None.

(* _add_emitter *)
Definition add_emitter (s : st) (e : emitter) : st :=
  set_emitters (set_efw s (aset weqb (ewatch e) e (efw s))) (emitters s ++ [e]).

(* _remove_emitter: del _emitter_for_watch[e.watch]; _emitters.remove(e); e.stop(); e.join() *)
Definition remove_emitter (s : st) (e : emitter) : st * result :=
  match adel (ewatch e) (efw s) with
  | None => (s, Raised EKeyInternal)
  | Some m =>
    let s1 := set_efw s m in
    if memb Nat.eqb (eid e) (map eid (emitters s1))
    then (set_emitters s1 (filter (fun x => negb (Nat.eqb (eid e) (eid x))) (emitters s1)), Ok)
    else (s1, Raised EKeyInternal)
  end.

Definition mark_started (s : st) (e : emitter) : st := set_started s (eid e :: started s).

(* unschedule_all *)
Definition clear_all (s : st) : st :=
  set_watches (set_efw (set_emitters (set_handlers s []) []) []) [].

(* The iteration order of a set, driven by the label: the elements whose key is first in [ord]
   come first, elements not named keep their list order. *)
Fixpoint pick {A} (key : A -> watch) (ord : list watch) (l : list A) : list A :=
  match ord with
  | [] => l
  | w :: ord' => filter (fun x => weqb w (key x)) l ++ pick key ord' (filter (fun x => negb (weqb w (key x))) l)
  end.

Section Variant.
  Variables f2 f2b : bool.

  Definition do_schedule (s : st) (h : handler) (w : watch) (flt : fault) : st * result :=
    let s1 := if f2 then s else add_handler s h w in
    let finish (s' : st) : st * result :=
      let s'' := if f2 then add_handler s' h w else s' in
      (set_watches s'' (set_add weqb w (watches s'')), Ok) in
    if amem weqb w (efw s1) then finish s1
    else if is_ctor flt then (s1, Raised ECtor)
    else
      let e := (next s1, w) in
      let s2 := set_next s1 (S (next s1)) in
      if alive s2 then
        if is_start flt 0 then (s2, Raised EStart)
        else finish (add_emitter (mark_started s2 e) e)
      else finish (add_emitter s2 e).

  Definition do_remove_handler (s : st) (h : handler) (w : watch) : st * result :=
    match alookup weqb w (handlers s) with
    | None => (set_handlers s (handlers s ++ [(w, [])]), Raised EKeyHandler)
    | Some l =>
      if memb N.eqb h l then (set_handlers s (aset weqb w (set_del N.eqb h l) (handlers s)), Ok)
      else (s, Raised EKeyHandler)
    end.

  Definition do_unschedule (s : st) (w : watch) : st * result :=
    match alookup weqb w (efw s) with
    | None => (s, Raised EKeyWatch)
    | Some e =>
      match adel w (handlers s) with
      | None => (s, Raised EKeyInternal)
      | Some hm =>
        match remove_emitter (set_handlers s hm) e with
        | (s2, Raised x) => (s2, Raised x)
        | (s2, Ok) =>
          if memb weqb w (watches s2) then (set_watches s2 (set_del weqb w (watches s2)), Ok)
          else (s2, Raised EKeyInternal)
        end
      end
    end.

  (* the `except Exception:` branch of start() *)
  Definition start_failed (s : st) (e : emitter) (x : err) : st * result :=
    match remove_emitter s e with
    | (s1, Raised y) => (s1, Raised y)
    | (s1, Ok) =>
      if f2b then
        (set_watches (set_handlers s1 (aremove weqb (ewatch e) (handlers s1)))
                     (set_del weqb (ewatch e) (watches s1)), Raised x)
      else (s1, Raised x)
    end.

  Fixpoint start_loop (order : list emitter) (k : nat) (s : st) (flt : fault) : st * result :=
    match order with
    | [] => (* super().start(): threading refuses a started thread (unreachable behind the guard of start()) *)
            if thr_started s then (s, Raised EAlready) else (set_thr s true, Ok)
    | e :: rest =>
      if is_start flt k then start_failed s e EStart
      else if memb Nat.eqb (eid e) (started s) then start_failed s e EAlready
      else start_loop rest (S k) (mark_started s e) flt
    end.

  Definition step (s : st) (cf : call * fault) : st * result :=
    let (c, flt) := cf in
    match c with
    | Schedule h w => do_schedule s h w flt
    | AddHandler h w => (add_handler s h w, Ok)
    | RemoveHandler h w => do_remove_handler s h w
    | Unschedule w => do_unschedule s w
    | UnscheduleAll => (clear_all s, Ok)
    | Start ord =>
      (* `if self.ident is not None: raise RuntimeError(...)` - a second start() is refused up front *)
      if thr_started s then (s, Raised EAlready)
      else start_loop (pick ewatch ord (emitters s)) 0 s flt
    | Stop => (clear_all (set_stopped s true), Ok)
    end.

  Fixpoint run_from (s : st) (cs : list (call * fault)) : st * list result :=
    match cs with
    | [] => (s, [])
    | cf :: cs' => let (s1, r) := step s cf in let (s2, rs) := run_from s1 cs' in (s2, r :: rs)
    end.

  Definition run_impl (cs : list (call * fault)) : st * list result := run_from init cs.

  (* state after every call, for the correspondence *)
  Fixpoint trace_from (s : st) (cs : list (call * fault)) : list (st * result) :=
    match cs with
    | [] => []
    | cf :: cs' => let (s1, r) := step s cf in (s1, r) :: trace_from s1 cs'
    end.
End Variant.

(* Observables of the public API *)
(* observer.emitters with is_alive() of each *)
Definition obs_emitters (s : st) : list (watch * bool) :=
  map (fun e => (ewatch e, memb Nat.eqb (eid e) (started s))) (emitters s).
(* who receives an event queued by each reported emitter: dispatch_events reads _handlers[watch] *)
Definition receivers (s : st) : list (watch * list handler) :=
  map (fun e => (ewatch e, hget (handlers s) (ewatch e))) (emitters s).

(* ---------------------------------------------------------------- the specification:
   a simple map from distinct watches to handler sets.  [sched] = the scheduled watches, each with
   "its emitter thread runs"; [hs] = the handler set of every watch (add_handler_for_watch may
   fill it before the watch is scheduled - that call succeeds in the code and is kept). *)
Record spec := mkspec {
  sched : list (watch * bool);
  hs : watch -> list handler;
  t_started : bool;
  t_stopped : bool
}.

Definition spec_init : spec := mkspec [] (fun _ => []) false false.
Definition spec_alive (t : spec) : bool := t_started t && negb (t_stopped t).

Definition hs_set (f : watch -> list handler) (w : watch) (l : list handler) : watch -> list handler :=
  fun w' => if weqb w w' then l else f w'.

Definition spec_drop (t : spec) (w : watch) : spec :=
  mkspec (aremove weqb w (sched t)) (hs_set (hs t) w []) (t_started t) (t_stopped t).

Fixpoint spec_start_loop (order : list (watch * bool)) (k : nat) (t : spec) (flt : fault) : spec * result :=
  match order with
  | [] => if t_started t then (t, Raised EAlready)
          else (mkspec (sched t) (hs t) true (t_stopped t), Ok)
  | (w, a) :: rest =>
    if is_start flt k then (spec_drop t w, Raised EStart)
    else if a then (spec_drop t w, Raised EAlready)
    else spec_start_loop rest (S k)
           (mkspec (map (fun x => if weqb w (fst x) then (fst x, true) else x) (sched t)) (hs t)
                   (t_started t) (t_stopped t)) flt
  end.

Definition spec_step (t : spec) (cf : call * fault) : spec * result :=
  let (c, flt) := cf in
  match c with
  | Schedule h w =>
    let add t' := mkspec (sched t') (hs_set (hs t') w (set_add N.eqb h (hs t' w))) (t_started t') (t_stopped t') in
    if amem weqb w (sched t) then (add t, Ok)
    else if is_ctor flt then (t, Raised ECtor)
    else if spec_alive t && is_start flt 0 then (t, Raised EStart)
    else (add (mkspec (sched t ++ [(w, spec_alive t)]) (hs t) (t_started t) (t_stopped t)), Ok)
  | AddHandler h w =>
    (mkspec (sched t) (hs_set (hs t) w (set_add N.eqb h (hs t w))) (t_started t) (t_stopped t), Ok)
  | RemoveHandler h w =>
    if memb N.eqb h (hs t w)
    then (mkspec (sched t) (hs_set (hs t) w (set_del N.eqb h (hs t w))) (t_started t) (t_stopped t), Ok)
    else (t, Raised EKeyHandler)
  | Unschedule w =>
    if amem weqb w (sched t) then (spec_drop t w, Ok) else (t, Raised EKeyWatch)
  | UnscheduleAll => (mkspec [] (fun _ => []) (t_started t) (t_stopped t), Ok)
  | Start ord =>
    if t_started t then (t, Raised EAlready)
    else spec_start_loop (pick fst ord (sched t)) 0 t flt
  | Stop => (mkspec [] (fun _ => []) (t_started t) true, Ok)
  end.

Fixpoint spec_run_from (t : spec) (cs : list (call * fault)) : spec * list result :=
  match cs with
  | [] => (t, [])
  | cf :: cs' => let (t1, r) := spec_step t cf in let (t2, rs) := spec_run_from t1 cs' in (t2, r :: rs)
  end.

Definition run_spec (cs : list (call * fault)) : spec * list result := spec_run_from spec_init cs.

Fixpoint spec_trace_from (t : spec) (cs : list (call * fault)) : list (spec * result) :=
  match cs with
  | [] => []
  | cf :: cs' => let (t1, r) := spec_step t cf in (t1, r) :: spec_trace_from t1 cs'
  end.

(* The abstraction function: what the public API shows of an implementation state *)
Definition abs (s : st) : spec :=
  mkspec (obs_emitters s) (hget (handlers s)) (thr_started s) (stopped s).

(* Equality of specification states (the handler map is compared pointwise) *)
Definition spec_eq (a b : spec) : Prop :=
  sched a = sched b /\ (forall w, hs a w = hs b w) /\ t_started a = t_started b /\ t_stopped a = t_stopped b.
