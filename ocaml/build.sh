#!/bin/sh
# Extract the Coq models and build bin/wdmodel.  Run after the Coq build.
set -e
here="$(cd "$(dirname "$0")" && pwd)"
root="$(dirname "$here")"
rm -rf "$here/gen" && mkdir -p "$here/gen" "$root/bin"
cd "$here/gen"
timeout 600 coqc -Q "$root/coq" WD -o "$here/gen/Extract.vo" "$root/coq/Extract/Extract.v" > extract.log 2>&1 || { cat extract.log; exit 1; }
cp "$here"/*.ml .
# extracted .mli files are not needed; remove to keep the build simple
rm -f *.mli
files=$(ocamlfind ocamldep -sort *.ml)
timeout 600 ocamlfind ocamlopt -O2 -w -a -o "$root/bin/wdmodel" $files 2>/dev/null || timeout 600 ocamlfind ocamlopt -w -a -o "$root/bin/wdmodel" $files
