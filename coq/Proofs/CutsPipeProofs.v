(* C02 / C01 on the Pipeline model when the records of an operation are read in several reads:
   blocks  AOp o; ARead n1; ...; ARead nj; ATick delay; AEmit x nit  with n1 + ... + nj = the number of queued records. *)
Require Import WD.Base.Prelude WD.Base.BStr WD.Model.SubEvents WD.Model.Emitter WD.Model.Fs WD.Model.Reader
               WD.Model.DelayQueue WD.Model.Grouping WD.Model.Pipeline WD.Model.Contract.
Require Import WD.Proofs.ContractProofs WD.Proofs.TieProofs WD.Proofs.TieStrongProofs WD.Proofs.CoverProofs
               WD.Proofs.CoverOutProofs WD.Proofs.ReplayProofs WD.Proofs.ReplayOutProofs WD.Proofs.ReplayPipeProofs
               WD.Proofs.CutsProofs WD.Proofs.CutsReaderProofs WD.Proofs.CutsShapeProofs.
Local Open Scope N_scope.

Lemma GS_KQ C w k r hot : GS C w k r hot -> KQ k.
Proof.
  destruct hot as [h|]; cbn [GS].
  - intros (c & p & PO). split; [apply (po_lt _ _ _ _ _ _ _ PO)|]. rewrite (po_queue _ _ _ _ _ _ _ PO). intros a [].
  - intros [S HJ]. split.
    + intros kw Hk. exact (wi_lt _ _ _ _ (rs_inv _ _ _ _ S) kw Hk).
    + intros a Ha _. rewrite Forall_forall in HJ. destruct (HJ a Ha) as (_ & B & A). split; [exact A | exact B].
Qed.

Lemma GS_kernel_KQ C w k r hot t o : GS C w k r hot -> KQ (kernel_op k t o).
Proof. intros G. apply kernel_op_KQ. exact (GS_KQ _ _ _ _ _ G). Qed.

(* a TO whose FROM was delivered by an earlier read of the block is the first event of its read and that FROM the last
   event before it (the kernel queues the two halves of a rename back to back) *)
Definition cut_paired (C : cfg) (t : fs) (r : rstate) (k : kst) (cuts : list nat) : Prop :=
  match rcut C t r k cuts with Done (_, _, Rs) => cuts_ok C [] Rs | Crash _ => True end.

Definition sum (l : list nat) : nat := fold_right plus 0%nat l.

Theorem block_x_cuts P s hot o w' cuts : let C := pc_reader P in
  c_faults C = [] -> c_fix_moveout C = true -> c_mask C = WATCHDOG_ALL -> pc_filter P = None ->
  PSx P s hot -> step_ok C (p_world s) hot o -> apply_op (p_world s) o = Some w' ->
  sum cuts = length (k_queue (kernel_op (p_k s) (w_fs (p_world s)) o)) ->
  cut_paired C (w_fs w') (p_r s) (kernel_op (p_k s) (w_fs (p_world s)) o) cuts ->
  exists nit s' obs raws, prun P s (cut_history P o cuts nit) [] = Done (s', obs) /\
    PSx P s' (hot_next C (p_world s) hot o) /\ p_world s' = w' /\
    p_out s' = p_out s ++ delivered C (pc_full P) w' raws /\
    read_batch C (w_fs w') (p_r s, drainq (kernel_op (p_k s) (w_fs (p_world s)) o), [])
               (k_queue (kernel_op (p_k s) (w_fs (p_world s)) o)) = Done (p_r s', p_k s', raws).
Proof.
  intros C Hf Hmo Hm HF [G Hidle Hal Htbl] Hs Ha Hsum Hcp.
  destruct (gs_step C Hf Hmo (p_world s) (p_k s) (p_r s) hot o w' Hm G Hs Ha) as (r' & k' & raws & Hrd & G' & Hsafe).
  set (k1 := kernel_op (p_k s) (w_fs (p_world s)) o) in *.
  assert (HK : KQ k1) by (apply kernel_op_KQ; exact (GS_KQ _ _ _ _ _ G)).
  destruct (rcut_eq C Hmo (w_fs w') (p_r s) k1 cuts r' k' raws (proj2 HK) Hsum Hrd) as (Rs & Hrc & Econc).
  unfold cut_paired in Hcp. fold C in Hrc. rewrite Hrc in Hcp.
  assert (Hsafe' : Forall (root_safe (pc_reader P)) (concat Rs)) by (rewrite Econc; exact Hsafe).
  destruct (tie_strong_cuts P HF s o w' cuts r' k' Rs Hidle Hal Htbl Ha Hrc Hsafe' Hcp)
    as (nit & s' & obs & Hrun & Hout & E1 & E2 & E3 & Hidle' & Hal' & Htbl').
  rewrite Econc in Hout.
  exists nit, s', obs, raws. split; [exact Hrun|]. split; [|split; [exact E1|split; [exact Hout|]]].
  - constructor; try assumption. now rewrite E1, E2, E3.
  - rewrite E2, E3. exact Hrd.
Qed.

(* a cutter chooses, in every state, how the records of the next operation are split between reads *)
Definition good_cutter (P : pcfg) (ct : pstate -> op -> list nat) : Prop :=
  forall s hot o w', PSx P s hot -> step_ok (pc_reader P) (p_world s) hot o -> apply_op (p_world s) o = Some w' ->
    sum (ct s o) = length (k_queue (kernel_op (p_k s) (w_fs (p_world s)) o)) /\
    cut_paired (pc_reader P) (w_fs w') (p_r s) (kernel_op (p_k s) (w_fs (p_world s)) o) (ct s o).

Inductive cut_hist (P : pcfg) (ct : pstate -> op -> list nat) : pstate -> list op -> list action -> Prop :=
| ch_nil s : cut_hist P ct s [] []
| ch_skip s o ops h : apply_op (p_world s) o = None -> cut_hist P ct s ops h -> cut_hist P ct s (o :: ops) (AOp o :: h)
| ch_step s o ops h nit s1 obs1 w' : apply_op (p_world s) o = Some w' ->
    prun P s (cut_history P o (ct s o) nit) [] = Done (s1, obs1) -> cut_hist P ct s1 ops h ->
    cut_hist P ct s (o :: ops) (cut_history P o (ct s o) nit ++ h).

Theorem blocks_cover_x_cuts P ct : let C := pc_reader P in
  c_faults C = [] -> c_fix_moveout C = true -> c_mask C = WATCHDOG_ALL -> pc_filter P = None -> good_cutter P ct ->
  forall ops s hot, PSx P s hot -> ops_x C (p_world s) hot ops ->
  exists h s' obs hot', cut_hist P ct s ops h /\ prun P s h [] = Done (s', obs) /\ PSx P s' hot' /\
    Cover C (w_fs (p_world s')) (p_k s') (p_r s').
Proof.
  intros C Hf Hmo Hm HF Hct. induction ops as [|o ops IH]; intros s hot S Hc; cbn [ops_x] in Hc.
  - exists [], s, [], hot. split; [constructor|]. split; [reflexivity|]. split; [exact S|].
    eapply GS_cover. exact (px_sync _ _ _ S).
  - destruct (apply_op (p_world s) o) as [w'|] eqn:Ea.
    + destruct Hc as [Hs Hc]. destruct (Hct s hot o w' S Hs Ea) as [Hsum Hcp].
      destruct (block_x_cuts P s hot o w' (ct s o) Hf Hmo Hm HF S Hs Ea Hsum Hcp) as (nit & s1 & obs1 & raws & Hrun & S1 & E1 & _).
      rewrite <- E1 in Hc. destruct (IH s1 _ S1 Hc) as (h & s' & obs & hot' & Hh & Hr & S' & Cv).
      exists (cut_history P o (ct s o) nit ++ h), s', (obs1 ++ obs), hot'. split; [eapply ch_step; eassumption|].
      split; [|split; assumption]. rewrite prun_app, Hrun, prun_acc, Hr. reflexivity.
    + destruct (IH s hot S Hc) as (h & s' & obs & hot' & Hh & Hr & S' & Cv).
      exists (AOp o :: h), s', (OSkip :: obs), hot'. split; [now apply ch_skip|]. split; [|split; assumption].
      cbn [prun pstep]. rewrite Ea. rewrite prun_acc, Hr. reflexivity.
Qed.

Theorem blocks_replay_x_cuts P ct t0 : let C := pc_reader P in
  c_faults C = [] -> c_fix_moveout C = true -> c_mask C = WATCHDOG_ALL -> pc_filter P = None -> good_cutter P ct ->
  forall ops s hot, PSx P s hot -> ops_x1 C (p_world s) hot ops ->
  TInv (c_recursive C) (c_root C) (replay (c_recursive C) (c_root C) t0 (p_out s)) (p_world s) ->
  exists h s' obs hot', cut_hist P ct s ops h /\ prun P s h [] = Done (s', obs) /\ PSx P s' hot' /\
    TInv (c_recursive C) (c_root C) (replay (c_recursive C) (c_root C) t0 (p_out s')) (p_world s').
Proof.
  intros C Hf Hmo Hm HF Hct. induction ops as [|o ops IH]; intros s hot S Hc T; cbn [ops_x1] in Hc.
  - exists [], s, [], hot. split; [constructor|]. split; [reflexivity|]. split; assumption.
  - destruct (apply_op (p_world s) o) as [w'|] eqn:Ea.
    + destruct Hc as [Hs Hc]. destruct (Hct s hot o w' S (step_ok1_ok C _ _ _ Hs) Ea) as [Hsum Hcp].
      destruct (block_x_cuts P s hot o w' (ct s o) Hf Hmo Hm HF S (step_ok1_ok C _ _ _ Hs) Ea Hsum Hcp)
        as (nit & s1 & obs1 & raws & Hrun & S1 & E1 & Hout & Hrd).
      destruct (gs_replay_step C (pc_full P) Hf Hmo Hm (p_world s) (p_k s) (p_r s) hot o w' _ (px_sync _ _ _ S) Hs Ea T)
        as (r' & k' & raws' & Hrd' & _ & _ & T').
      fold C in Hrd. rewrite Hrd in Hrd'. injection Hrd' as _ _ <-.
      assert (T1 : TInv (c_recursive C) (c_root C) (replay (c_recursive C) (c_root C) t0 (p_out s1)) (p_world s1)).
      { rewrite E1, Hout. unfold replay in *. now rewrite fold_left_app. }
      rewrite <- E1 in Hc. destruct (IH s1 _ S1 Hc T1) as (h & s' & obs & hot' & Hh & Hr & S' & T2).
      exists (cut_history P o (ct s o) nit ++ h), s', (obs1 ++ obs), hot'. split; [eapply ch_step; eassumption|].
      split; [|split; assumption]. rewrite prun_app, Hrun, prun_acc, Hr. reflexivity.
    + destruct (IH s hot S Hc T) as (h & s' & obs & hot' & Hh & Hr & S' & T').
      exists (AOp o :: h), s', (OSkip :: obs), hot'. split; [now apply ch_skip|]. split; [|split; assumption].
      cbn [prun pstep]. rewrite Ea. rewrite prun_acc, Hr. reflexivity.
Qed.

Theorem replay_pipeline_from_start_x_cuts P ct ops w s0 : let C := pc_reader P in
  c_faults C = [] -> c_fix_moveout C = true -> c_mask C = WATCHDOG_ALL -> pc_filter P = None -> good_cutter P ct -> wf_fs w ->
  fisdir (c_root C) (w_fs w) = true -> pinit P w = Some s0 -> ops_x1 C w None ops ->
  exists h s' obs hot', cut_hist P ct s0 ops h /\ prun P s0 h [] = Done (s', obs) /\ PSx P s' hot' /\
    forall x, alookup beqb x (replay (c_recursive C) (c_root C) (tree_of (c_recursive C) (c_root C) w) (p_out s'))
            = alookup beqb x (tree_of (c_recursive C) (c_root C) (p_world s')).
Proof.
  intros C Hf Hmo Hm HF Hct W Hroot Hi Hc. destruct (pinit_psx P w s0 Hf Hmo W Hroot Hi) as (S0 & Ew & Eo).
  rewrite <- Ew in Hc.
  destruct (blocks_replay_x_cuts P ct (tree_of (c_recursive C) (c_root C) w) Hf Hmo Hm HF Hct ops s0 None S0 Hc)
    as (h & s' & obs & hot' & Hh & Hr & S' & T).
  { rewrite Eo, Ew. cbn. now apply TInv_init. }
  exists h, s', obs, hot'. split; [exact Hh|]. split; [exact Hr|]. split; [exact S'|]. now apply TInv_tree_eq.
Qed.

(* ---------------------------------------------------------------- non-vacuity *)
(* reading everything in one read is a good cutter (then the theorems above are the one-read theorems) *)
Lemma good_cutter_whole P : good_cutter P (fun s o => [length (k_queue (kernel_op (p_k s) (w_fs (p_world s)) o))]).
Proof.
  intros s hot o w' _ _ _. split; [cbn; lia|]. unfold cut_paired. cbn [rcut].
  destruct (read_batch _ _ _ _) as [[[r1 k1] evs]|]; [|exact I]. cbn [cuts_ok]. split; [|exact I].
  intros b1 t b2 c _ _. left. intros f [].
Qed.

(* mkdir R/a (one read); mv R/a R/b with the cut between IN_MOVED_FROM and IN_MOVED_TO, against one big read *)
Definition hcut : list action :=
  [AOp (Mkdir (sub pR 97)); ARead 1; ATick 5; AEmit;
   AOp (Rename (sub pR 97) (sub pR 98)); ARead 1; ARead 1; ATick 5; AEmit; AEmit].
Definition hbig : list action :=
  [AOp (Mkdir (sub pR 97)); ARead 1; ATick 5; AEmit;
   AOp (Rename (sub pR 97) (sub pR 98)); ARead 2; ATick 5; AEmit; AEmit].

Lemma cut_rename_example :
  exists s0 sc sb oc ob, pinit (Px true) w0 = Some s0 /\
    prun (Px true) s0 hcut [] = Done (sc, oc) /\ prun (Px true) s0 hbig [] = Done (sb, ob) /\
    p_out sc = p_out sb /\ p_r sc = p_r sb /\ p_k sc = p_k sb /\
    In {| ev_cls := DirMoved; ev_src := sub pR 97; ev_dest := sub pR 98; ev_synth := false |} (p_out sc) /\
    k_queue (p_k sc) = [] /\ Cover (cfgx true true) (w_fs (p_world sc)) (p_k sc) (p_r sc).
Proof.
  eexists _, _, _, _, _. split; [vm_compute; reflexivity|]. split; [vm_compute; reflexivity|]. split; [vm_compute; reflexivity|].
  split; [reflexivity|]. split; [reflexivity|]. split; [reflexivity|]. split; [vm_compute; tauto|]. split; [reflexivity|].
  apply coverb_spec. vm_compute. reflexivity.
Qed.

(* ---------------------------------------------------------------- the pairing condition holds for every cut *)
Lemma cut_paired_gs C w k r hot o w' cuts : c_faults C = [] -> c_fix_moveout C = true -> c_mask C = WATCHDOG_ALL ->
  GS C w k r hot -> step_ok C w hot o -> apply_op w o = Some w' ->
  sum cuts = length (k_queue (kernel_op k (w_fs w) o)) -> cut_paired C (w_fs w') r (kernel_op k (w_fs w) o) cuts.
Proof.
  intros Hf Hmo Hm G Hs Ha Hsum.
  destruct (gs_step C Hf Hmo w k r hot o w' Hm G Hs Ha) as (r' & k' & raws & Hrd & _ & _).
  assert (HK : KQ (kernel_op k (w_fs w) o)) by (apply kernel_op_KQ; exact (GS_KQ _ _ _ _ _ G)).
  destruct (rcut_eq C Hmo (w_fs w') r _ cuts r' k' raws (proj2 HK) Hsum Hrd) as (Rs & Hrc & Econc).
  unfold cut_paired. rewrite Hrc. apply G_cuts_ok. cbn [app]. rewrite Econc. apply W_G.
  exact (gs_raws_W C w k r hot o w' r' k' raws Hmo G Hrd).
Qed.

(* so a cutter is good as soon as its cuts add up *)
Definition sum_cutter (P : pcfg) (ct : pstate -> op -> list nat) : Prop :=
  forall s o, sum (ct s o) = length (k_queue (kernel_op (p_k s) (w_fs (p_world s)) o)).

Lemma good_cutter_sum P ct : c_faults (pc_reader P) = [] -> c_fix_moveout (pc_reader P) = true -> c_mask (pc_reader P) = WATCHDOG_ALL ->
  sum_cutter P ct -> good_cutter P ct.
Proof.
  intros Hf Hmo Hm Hct s hot o w' S Hs Ha. split; [apply Hct|].
  apply (cut_paired_gs _ (p_world s) (p_k s) (p_r s) hot o w'); try assumption; [exact (px_sync _ _ _ S) | apply Hct].
Qed.

Theorem block_cuts P s hot o w' cuts : let C := pc_reader P in
  c_faults C = [] -> c_fix_moveout C = true -> c_mask C = WATCHDOG_ALL -> pc_filter P = None ->
  PSx P s hot -> step_ok C (p_world s) hot o -> apply_op (p_world s) o = Some w' ->
  sum cuts = length (k_queue (kernel_op (p_k s) (w_fs (p_world s)) o)) ->
  exists nit s' obs raws, prun P s (cut_history P o cuts nit) [] = Done (s', obs) /\
    PSx P s' (hot_next C (p_world s) hot o) /\ p_world s' = w' /\
    p_out s' = p_out s ++ delivered C (pc_full P) w' raws /\
    read_batch C (w_fs w') (p_r s, drainq (kernel_op (p_k s) (w_fs (p_world s)) o), [])
               (k_queue (kernel_op (p_k s) (w_fs (p_world s)) o)) = Done (p_r s', p_k s', raws).
Proof.
  intros C Hf Hmo Hm HF S Hs Ha Hsum. apply block_x_cuts; try assumption.
  apply (cut_paired_gs _ (p_world s) (p_k s) (p_r s) hot o w'); try assumption. exact (px_sync _ _ _ S).
Qed.

Theorem blocks_cover_cuts P ct : let C := pc_reader P in
  c_faults C = [] -> c_fix_moveout C = true -> c_mask C = WATCHDOG_ALL -> pc_filter P = None -> sum_cutter P ct ->
  forall ops s hot, PSx P s hot -> ops_x C (p_world s) hot ops ->
  exists h s' obs hot', cut_hist P ct s ops h /\ prun P s h [] = Done (s', obs) /\ PSx P s' hot' /\
    Cover C (w_fs (p_world s')) (p_k s') (p_r s').
Proof. intros C Hf Hmo Hm HF Hct. apply blocks_cover_x_cuts; try assumption. now apply good_cutter_sum. Qed.

Theorem blocks_replay_cuts P ct t0 : let C := pc_reader P in
  c_faults C = [] -> c_fix_moveout C = true -> c_mask C = WATCHDOG_ALL -> pc_filter P = None -> sum_cutter P ct ->
  forall ops s hot, PSx P s hot -> ops_x1 C (p_world s) hot ops ->
  TInv (c_recursive C) (c_root C) (replay (c_recursive C) (c_root C) t0 (p_out s)) (p_world s) ->
  exists h s' obs hot', cut_hist P ct s ops h /\ prun P s h [] = Done (s', obs) /\ PSx P s' hot' /\
    TInv (c_recursive C) (c_root C) (replay (c_recursive C) (c_root C) t0 (p_out s')) (p_world s').
Proof. intros C Hf Hmo Hm HF Hct. apply blocks_replay_x_cuts; try assumption. now apply good_cutter_sum. Qed.

Theorem replay_pipeline_from_start_cuts P ct ops w s0 : let C := pc_reader P in
  c_faults C = [] -> c_fix_moveout C = true -> c_mask C = WATCHDOG_ALL -> pc_filter P = None -> sum_cutter P ct -> wf_fs w ->
  fisdir (c_root C) (w_fs w) = true -> pinit P w = Some s0 -> ops_x1 C w None ops ->
  exists h s' obs hot', cut_hist P ct s0 ops h /\ prun P s0 h [] = Done (s', obs) /\ PSx P s' hot' /\
    forall x, alookup beqb x (replay (c_recursive C) (c_root C) (tree_of (c_recursive C) (c_root C) w) (p_out s'))
            = alookup beqb x (tree_of (c_recursive C) (c_root C) (p_world s')).
Proof. intros C Hf Hmo Hm HF Hct. apply replay_pipeline_from_start_x_cuts; try assumption. now apply good_cutter_sum. Qed.

(* a cutter that reads the first record alone and then the rest adds up: it cuts every rename between its halves when
   the IN_MOVED_FROM is the first record *)
Example sum_cutter_first P :
  sum_cutter P (fun s o => let n := length (k_queue (kernel_op (p_k s) (w_fs (p_world s)) o)) in [Nat.min 1 n; (n - Nat.min 1 n)%nat]).
Proof. intros s o. cbn [sum fold_right]. lia. Qed.
