(* C01 on the Pipeline model: one block  AOp o; ARead (whole queue); ATick delay; AEmit ...  from an idle pipeline,
   through DelayQueue and Grouping, by C03's pipeline tie. *)
Require Import WD.Base.Prelude WD.Base.BStr WD.Model.SubEvents WD.Model.Emitter WD.Model.Fs WD.Model.Reader
               WD.Model.DelayQueue WD.Model.Grouping WD.Model.Pipeline WD.Model.Contract.
Require Import WD.Proofs.ContractProofs WD.Proofs.TieProofs WD.Proofs.CoverProofs WD.Proofs.ReplayProofs.

Theorem replay_block P s o w' t0 :
  let C := pc_reader P in
  c_faults C = [] -> c_mask C = WATCHDOG_ALL -> pc_filter P = None ->
  buffer_idle (p_buf s) -> p_stopped s = false -> (forall id, In id (map fst (p_tbl s)) -> (id < p_next s)%N) ->
  RSync C (p_world s) (p_k s) (p_r s) -> c01_op C (p_world s) o -> apply_op (p_world s) o = Some w' ->
  TInv (c_recursive C) (c_root C) (replay (c_recursive C) (c_root C) t0 (p_out s)) (p_world s) ->
  exists nit s' obs, prun P s (tie_history P s o nit) [] = Done (s', obs) /\
    TInv (c_recursive C) (c_root C) (replay (c_recursive C) (c_root C) t0 (p_out s')) w'.
Proof.
  intros C Hf Hm HF Hidle Hst Hfresh S Ho Ha T.
  destruct (replay_step C (pc_full P) (p_world s) (p_k s) (p_r s) o w' _ Hf Hm S Ho Ha T)
    as (r' & k' & raws & Hrd & S' & Hdel & T').
  destruct (pipeline_tie_holds P s o _ HF Hidle Hst (rs_queue _ _ _ _ S) Hfresh Hdel) as (nit & s' & obs & Hrun & Hout).
  exists nit, s', obs. split; [exact Hrun|]. rewrite Hout. unfold replay in *. now rewrite fold_left_app.
Qed.
